#!/bin/bash
# One-off vacuity measurement (not a check): statement coverage of petl reached by the quick tier of all checks.
# usage: tools/coverage_report.sh [outfile]
out=${1:-/tmp/petl-coverage.txt}
d=$(mktemp -d /tmp/mccov.XXXX)
cat > $d/.coveragerc <<EOC
[run]
source = /repo/petl
parallel = True
concurrency = multiprocessing
data_file = $d/.coverage
omit =
    /repo/petl/test/*
    /repo/petl/io/avro.py
    /repo/petl/io/bcolz.py
    /repo/petl/io/gsheet.py
    /repo/petl/io/numpy.py
    /repo/petl/io/pandas.py
    /repo/petl/io/pytables.py
    /repo/petl/io/remotes.py
    /repo/petl/io/whoosh.py
    /repo/petl/io/xls.py
    /repo/petl/io/xlsx.py
    /repo/petl/io/xlutils_view.py
    /repo/petl/io/csv_py2.py
    /repo/petl/io/db_create.py
    /repo/petl/transform/intervals.py
EOC
cd "$(dirname "$0")/.."
export MC_EVIDENCE_DIR=$d/ev MC_REPLAY_DIR=$d/ev PYTHONHASHSEED=0 PYTHONPATH=/repo:$(pwd)
for c in $(cat tools/registered.txt); do
  /venv/bin/python -m coverage run --rcfile=$d/.coveragerc -m mc $c --tier quick > /dev/null 2>&1
done
cd $d && /venv/bin/python -m coverage combine --rcfile=$d/.coveragerc > /dev/null 2>&1
/venv/bin/python -m coverage report --rcfile=$d/.coveragerc -m > $out 2>&1
tail -1 $out
rm -rf $d
