#!/usr/bin/env python3
"""Fold the verification results (RESULTS.json) into each seeded/<id>/meta.json and print the DESIGN.md table."""
import json
import os

V = os.path.dirname(os.path.dirname(os.path.abspath(__file__)))
S = os.path.join(V, 'seeded')
res = json.load(open(os.path.join(S, 'RESULTS.json')))
rows = []
for mid in sorted(res):
    d = os.path.join(S, mid)
    mp = os.path.join(d, 'meta.json')
    if not os.path.exists(mp):
        continue
    m = json.load(open(mp))
    r = res[mid]
    m['verified_by_coordinator'] = {
        'patch_applies_to_repo_head': 'error' not in r,
        'existing_tests_with_change': r.get('tests'),
        'demo_exit_without_change': r.get('demo_clean_exit'),
        'demo_exit_with_change': r.get('demo_mutant_exit'),
        'what_was_run': 'tools/run_seeded.py --verify %s  (scratch worktree of /repo HEAD + patch.diff; demo.py with and '
                        'without the change; pinned pytest suite with the change; then the checks listed in detected_by '
                        'at quick tier with PYTHONPATH=<worktree>:/verif)' % mid,
        'detected_by': r.get('detected_by', []),
        'violation_groups': {c: v.get('groups', [])[:2] for c, v in r.get('checks', {}).items() if v.get('exit') == 1},
    }
    json.dump(m, open(mp, 'w'), indent=1)
    rows.append((mid, m['property'], ', '.join(r.get('detected_by', [])) or 'NOT DETECTED',
                 (m.get('summary') or '')[:150].replace('\n', ' ').replace('|', '/'),
                 (m.get('needs') or '')[:140].replace('\n', ' ').replace('|', '/')))
print('| id | detected by | change | needs |')
print('|---|---|---|---|')
for mid, prop, det, summ, needs in rows:
    print('| %s | %s | %s | %s |' % (mid, det, summ, needs))
