#!/bin/bash
# usage: tools/run_all.sh [tier] [seed]   -- runs every registered check against /repo, prints a summary line each
tier=${1:-quick}; seed=${2:-0}
cd "$(dirname "$0")/.." && export PYTHONPATH=/repo:$(pwd)
for c in $(cat tools/registered.txt); do
  s=$(date +%s)
  out=$(/venv/bin/python -B -m mc $c --tier $tier --seed $seed 2>&1); rc=$?
  e=$(date +%s)
  echo "$c exit=$rc wall=$((e-s))s $(echo "$out" | grep -c '^VIOLATION') violations; $(echo "$out" | grep -c '^KNOWN-FINDING') known; $(echo "$out" | tail -1 | cut -c1-160)"
  if [ $rc -ne 0 ]; then echo "$out" | grep -E "^VIOLATION|group:|HARNESS" | head -8; fi
done
