#!/usr/bin/env python3
"""Run checks against the seeded property-breaking changes in /verif/seeded/<id>/.

Each change is applied in a scratch worktree of /repo (never in /repo itself); the checks import that tree
through PYTHONPATH and write evidence/replays to a scratch directory, so /verif/evidence is not disturbed.

usage: tools/run_seeded.py [--verify] [--all-checks] [--tier quick] [id ...]
"""
import json
import os
import shutil
import subprocess
import sys
import time

VERIF = os.path.dirname(os.path.dirname(os.path.abspath(__file__)))
WT = '/tmp/seedwt-%d' % os.getpid()
OUT = '/tmp/seedout-%d' % os.getpid()
PY = '/venv/bin/python'


def sh(cmd, **kw):
    return subprocess.run(cmd, shell=True, capture_output=True, text=True, **kw)


def main():
    args = sys.argv[1:]
    verify = '--verify' in args
    allchecks = '--all-checks' in args
    tier = 'quick'
    if '--tier' in args:
        tier = args[args.index('--tier') + 1]
    only = None
    if '--checks' in args:
        only = args[args.index('--checks') + 1].split(',')
    ids = [a for a in args if not a.startswith('--') and a != tier and (only is None or a != ','.join(only))]
    sub = 'seeded'
    if '--dir' in args:
        sub = args[args.index('--dir') + 1]
        args = [a for a in args if a != sub]
    sdir = os.path.join(VERIF, sub)
    smart = '--smart' in args
    ids = [a for a in ids if a != sub]
    if not ids:
        ids = sorted(d for d in os.listdir(sdir) if os.path.isfile(os.path.join(sdir, d, 'patch.diff')))
    registered = open(os.path.join(VERIF, 'tools', 'registered.txt')).read().split()
    r = sh('git -C /repo worktree add --detach %s HEAD' % WT)
    if r.returncode:
        print(r.stderr)
        return 2
    os.makedirs(OUT, exist_ok=True)
    if os.path.exists('/repo/petl/version.py'):   # generated, git-ignored: a fresh worktree lacks it
        shutil.copy('/repo/petl/version.py', os.path.join(WT, 'petl', 'version.py'))
    results = {}
    resfile = os.path.join(sdir, 'RESULTS.json')
    if os.path.exists(resfile):
        results = json.load(open(resfile))
    try:
        for mid in ids:
            d = os.path.join(sdir, mid)
            meta = json.load(open(os.path.join(d, 'meta.json')))
            prop = meta['property']
            sh('git -C %s checkout -- .' % WT)
            entry = {'property': prop}
            if verify:
                r0 = sh('PYTHONPATH=%s %s -B %s' % (WT, PY, os.path.join(d, 'demo.py')), timeout=600)
                entry['demo_clean_exit'] = r0.returncode
            r = sh('git -C %s apply %s' % (WT, os.path.join(d, 'patch.diff')))
            if r.returncode:
                entry['error'] = 'patch does not apply: ' + r.stderr[-300:]
                results[mid] = entry
                print(mid, entry)
                continue
            if verify:
                r1 = sh('PYTHONPATH=%s %s -B %s' % (WT, PY, os.path.join(d, 'demo.py')), timeout=600)
                entry['demo_mutant_exit'] = r1.returncode
                rt = sh('cd %s && %s -m pytest -q -p no:cacheprovider 2>&1 | tail -1' % (WT, PY), timeout=1200)
                entry['tests'] = rt.stdout.strip()
            checks = registered if allchecks else (only or [prop])
            if smart:
                # every check, except that the three slow explorers only run when the patch touches their subject
                patch = open(os.path.join(d, 'patch.diff')).read()
                slow = {'C01': ('sorts.py', 'materialise.py', 'json.py', 'random.py', 'hashjoins.py', 'sources.py'),
                        'C18': ('sorts.py', 'json.py'), 'C02': ()}
                checks = [c for c in registered if c not in slow or c == prop
                          or any(('/' + f) in patch for f in slow[c])]
            entry = dict(results.get(mid, {}), **entry)
            entry.setdefault('checks', {})
            for c in checks:
                if c not in registered:
                    entry['checks'][c] = {'exit': None, 'note': 'check not registered'}
                    continue
                t0 = time.time()
                env = dict(os.environ, PYTHONPATH='%s:%s' % (WT, VERIF), MC_EVIDENCE_DIR=OUT, MC_REPLAY_DIR=OUT)
                rr = subprocess.run([PY, '-B', '-m', 'mc', c, '--tier', tier], cwd=VERIF, env=env,
                                    capture_output=True, text=True, timeout=3600)
                viol = [l for l in rr.stdout.splitlines() if l.startswith('VIOLATION')]
                groups = [l.strip() for l in rr.stdout.splitlines() if l.startswith('  group:')]
                entry['checks'][c] = {'exit': rr.returncode, 'violations': len(viol), 'groups': groups[:4],
                                      'wall_s': round(time.time() - t0, 1), 'tier': tier}
                if rr.returncode not in (0, 1):
                    entry['checks'][c]['stderr'] = rr.stderr[-400:]
            entry['detected_by'] = sorted(c for c, v in entry['checks'].items() if v.get('exit') == 1)
            results[mid] = entry
            print(mid, 'detected_by=%s' % entry['detected_by'],
                  {k: v for k, v in entry.items() if k in ('demo_clean_exit', 'demo_mutant_exit', 'tests')})
            sys.stdout.flush()
            with open(resfile, 'w') as f:
                json.dump(results, f, indent=1, sort_keys=True)
    finally:
        sh('git -C /repo worktree remove --force %s' % WT)
        shutil.rmtree(OUT, ignore_errors=True)
    return 0


if __name__ == '__main__':
    sys.exit(main())
