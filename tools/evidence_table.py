#!/usr/bin/env python3
"""Markdown table of what the committed evidence files say each check covered."""
import glob
import json
import os
V = os.path.dirname(os.path.dirname(os.path.abspath(__file__)))
print('| check | tier | work items | states | transitions | evaluations | distinct non-trivial | distinct outcomes | wall s | cpu s |')
print('|---|---|---|---|---|---|---|---|---|---|')
for f in sorted(glob.glob(os.path.join(V, 'evidence', 'C*.json'))):
    e = json.load(open(f))
    c = e['coverage']
    print('| %s | %s | %s | %s | %s | %s | %s | %s | %s | %s |' % (
        e['property_id'], e['tier'], c.get('work_items'), c.get('states'), c.get('transitions'), c.get('evaluations'),
        c.get('distinct_nontrivial'), c.get('distinct_observed_outcomes'), e['wall_s'], c.get('cpu_s_total')))
