#!/usr/bin/env python3
"""Regenerate /verif/MANIFEST.json from the check modules that exist (metadata in mc/checks/meta.py)."""
import json
import os
import sys

HERE = os.path.dirname(os.path.dirname(os.path.abspath(__file__)))
PENDING_REASON = ('check not built yet in this snapshot of /verif (the property is in scope of bounded '
                  'exhaustive exploration, see DESIGN.md §3); not claimed until its check is registered')
META = {}
for fn in sorted(os.listdir(os.path.join(HERE, 'mc', 'checks'))):
    if fn.endswith('.meta.json'):
        META[fn.split('.')[0].upper()] = json.load(open(os.path.join(HERE, 'mc', 'checks', fn)))

CMD = 'cd /verif && PYTHONPATH=/repo:/verif /venv/bin/python -B -m mc %s --tier %s'
props = [json.loads(l)['id'] for l in open(os.path.join(HERE, 'properties.jsonl'))]
REGISTERED = set(open(os.path.join(HERE, 'tools', 'registered.txt')).read().split())
checks, na = [], []
for pid in props:
    m = META.get(pid)
    if pid not in REGISTERED or m is None or not os.path.exists(os.path.join(HERE, 'mc', 'checks', pid.lower() + '.py')):
        na.append({'property_id': pid, 'reason': PENDING_REASON})
        continue
    checks.append({
        'property_id': pid,
        'quick_cmd': CMD % (pid, 'quick'),
        'thorough_cmd': CMD % (pid, 'thorough'),
        'evidence_file': '/verif/evidence/%s.json' % pid,
        'replay_cmd_template': 'cd /verif && PYTHONPATH=/repo:/verif /venv/bin/python -B -m mc --replay {path}',
        'engine': m['engine'],
        'level_claimed': {'category': m['level'], 'text': m['text'], 'design_ref': 'DESIGN.md §3/' + pid},
        'level_note': m['note'],
        'technique': m['technique'],
    })
man = {
    'version': 1,
    'setup_cmd': 'cd /verif && PYTHONPATH=/repo:/verif /venv/bin/python -B -m mc --selftest',
    'hooks': {
        'guard': 'PETL_VERIF',
        'enable': 'no hooks: checks import petl from /repo working tree via PYTHONPATH=/repo (nothing to build)',
        'baseline_off_cmd': 'cd /repo && /venv/bin/python -m pytest -ra -q -p no:cacheprovider --timeout=900 '
                            '--continue-on-collection-errors',
        'source_commits': [],
        'add_only': True,
    },
    'engines': [
        {'name': 'E1', 'path': 'mc/explore.py', 'serves_properties': ['C01', 'C11', 'C18'],
         'kind_free_text': 'stateless DFS explorer over live petl objects: all interleavings / histories of '
                           'iterator events with deviation (mid-pass switch) bounding, prefix replay'},
        {'name': 'E2', 'path': 'mc/spaces.py + mc/refmodel.py',
         'serves_properties': ['C02', 'C03', 'C04', 'C05', 'C06', 'C07', 'C08', 'C09', 'C10', 'C11', 'C12',
                               'C13', 'C14', 'C15', 'C16', 'C20'],
         'kind_free_text': 'exhaustive small-scope enumeration of inputs / programs / configurations run on the '
                           'real code and compared with a reference model on every element'},
        {'name': 'E3', 'path': 'mc/faults.py', 'serves_properties': ['C17', 'C19'],
         'kind_free_text': 'exhaustive enumeration of fault positions / failing subsets on the real code'},
    ],
    'checks': checks,
    'not_applicable': na,
    'notes': 'All verdicts come from exhaustive enumeration of a bounded space on the real implementation; '
             'see DESIGN.md. known_findings.json lists recorded/fixed defects.',
}
if not na:
    man['not_applicable'] = []
with open(os.path.join(HERE, 'MANIFEST.json'), 'w') as f:
    json.dump(man, f, indent=1)
print('MANIFEST.json: %d checks, %d pending' % (len(checks), len(na)))
