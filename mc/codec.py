"""Tagged-JSON codec so that replay files rebuild exactly the input objects."""
import datetime
import decimal


class SubInt(int):
    """An int subclass instance (IntEnum members, user-defined codes ...): still a number."""

    def __repr__(self):
        return 'SubInt(%d)' % int(self)


class SubFloat(float):
    """A float subclass instance (numpy.float64-like)."""

    def __repr__(self):
        return 'SubFloat(%r)' % float(self)


def enc(v):
    if type(v) is SubInt:
        return {'t': 'subint', 'v': int(v)}
    if type(v) is SubFloat:
        return {'t': 'subfloat', 'v': float(v)}
    if v is None or isinstance(v, (bool, int, str)):
        return v
    if isinstance(v, float):
        if v != v or v in (float('inf'), float('-inf')):
            return {'t': 'float', 'v': repr(v)}
        return v
    if isinstance(v, bytes):
        return {'t': 'bytes', 'v': v.hex()}
    if isinstance(v, decimal.Decimal):
        return {'t': 'decimal', 'v': str(v)}
    if isinstance(v, datetime.datetime):
        return {'t': 'datetime', 'v': v.isoformat()}
    if isinstance(v, datetime.date):
        return {'t': 'date', 'v': v.isoformat()}
    if isinstance(v, datetime.time):
        return {'t': 'time', 'v': v.isoformat()}
    if isinstance(v, tuple):
        return {'t': 'tuple', 'v': [enc(x) for x in v]}
    if isinstance(v, list):
        return {'t': 'list', 'v': [enc(x) for x in v]}
    if isinstance(v, (set, frozenset)):
        return {'t': 'set', 'v': sorted((enc(x) for x in v), key=repr)}
    if isinstance(v, dict):
        return {'t': 'dict', 'v': [[enc(k), enc(x)] for k, x in v.items()]}
    if isinstance(v, BaseException):
        return {'t': 'exc', 'v': type(v).__name__, 'msg': str(v)[:200]}
    return {'t': 'repr', 'v': repr(v)[:300]}


def dec(j):
    if not isinstance(j, dict):
        if isinstance(j, list):  # plain JSON list (only produced by callers, not by enc)
            return [dec(x) for x in j]
        return j
    t, v = j.get('t'), j.get('v')
    if t == 'float':
        return float(v)
    if t == 'subint':
        return SubInt(v)
    if t == 'subfloat':
        return SubFloat(v)
    if t == 'bytes':
        return bytes.fromhex(v)
    if t == 'decimal':
        return decimal.Decimal(v)
    if t == 'datetime':
        return datetime.datetime.fromisoformat(v)
    if t == 'date':
        return datetime.date.fromisoformat(v)
    if t == 'time':
        return datetime.time.fromisoformat(v)
    if t == 'tuple':
        return tuple(dec(x) for x in v)
    if t == 'list':
        return [dec(x) for x in v]
    if t == 'set':
        return set(dec(x) for x in v)
    if t == 'dict':
        return {dec(k): dec(x) for k, x in v}
    if t in ('exc', 'repr'):
        return j
    return {k: dec(x) for k, x in j.items()}


def show(v, limit=400):
    """Human-readable rendering for evidence samples / messages."""
    s = repr(v)
    return s if len(s) <= limit else s[:limit] + '...'
