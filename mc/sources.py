"""Instrumented table sources."""
from . import catalogue


class CountingTable(object):
    """Header + n rows generated on the fly from catalogue.row(kind, i); counts iterators and items."""

    def __init__(self, kind, n):
        self.kind = kind
        self.n = n
        self.iters = 0
        self.items = 0       # items handed out, header included
        self.datarows = 0    # data rows handed out

    def __iter__(self):
        self.iters += 1
        return self._gen()

    def _gen(self):
        self.items += 1
        yield catalogue.HEADERS[self.kind]
        for i in range(self.n):
            self.items += 1
            self.datarows += 1
            yield catalogue.row(self.kind, i)

    def reset(self):
        self.iters = self.items = self.datarows = 0


class EditableTable(object):
    """A versioned list-backed table with a pull counter (C11 cache clause)."""

    def __init__(self, header, rows):
        self.header = tuple(header)
        self.rows = [tuple(r) for r in rows]
        self.version = 0
        self.pulls = 0
        self.iters = 0
        self.armed = None     # item index at which the NEXT iterator raises (transient failure), then disarmed

    def __iter__(self):
        self.iters += 1
        snapshot = [self.header] + list(self.rows)
        fail, self.armed = self.armed, None
        return self._gen(snapshot, fail)

    def _gen(self, snapshot, fail=None):
        for i, r in enumerate(snapshot):
            if fail is not None and i >= fail:
                raise FailingTable.Boom('injected transient failure at item %d' % i)
            self.pulls += 1
            yield r

    def arm(self, pos=None):
        self.armed = len(self.rows) if pos is None else pos

    def edit(self, fn):
        fn(self.rows)
        self.version += 1

    def snapshot(self):
        return (self.header,) + tuple(self.rows)


class FailingTable(object):
    """Yields header and rows, raising `exc` instead of the item at position `fail_at`
    (0 = header, 1..n = data row, n+1 = instead of StopIteration).  fail_at None: never fails."""

    class Boom(Exception):
        pass

    def __init__(self, header, rows, fail_at=None):
        self.header = tuple(header)
        self.rows = [tuple(r) for r in rows]
        self.fail_at = fail_at
        self.iters = 0

    def __iter__(self):
        self.iters += 1
        return self._gen()

    def _gen(self):
        items = [self.header] + self.rows
        for pos, item in enumerate(items):
            if self.fail_at == pos:
                raise FailingTable.Boom('injected failure at item %d' % pos)
            yield item
        if self.fail_at == len(items):
            raise FailingTable.Boom('injected failure at exhaustion')


class FlakyTable(FailingTable):
    """Like FailingTable, but only the first `times` iterations fail (a transient read error)."""

    def __init__(self, header, rows, fail_at=None, times=1):
        FailingTable.__init__(self, header, rows, fail_at)
        self.times = times

    def _gen(self):
        items = [self.header] + self.rows
        failing = self.iters <= self.times
        for pos, item in enumerate(items):
            if failing and self.fail_at == pos:
                raise FailingTable.Boom('injected transient failure at item %d' % pos)
            yield item
        if failing and self.fail_at == len(items):
            raise FailingTable.Boom('injected transient failure at exhaustion')


def freeze(v):
    """Canonical, hashable, type-faithful rendering of a yielded item (row containers normalised)."""
    if isinstance(v, (list, tuple)):
        return tuple(freeze(x) for x in v)
    if isinstance(v, dict):
        return ('dict',) + tuple(sorted((repr(k), freeze(x)) for k, x in v.items()))
    if isinstance(v, (set, frozenset)):
        return ('set',) + tuple(sorted(repr(freeze(x)) for x in v))
    if isinstance(v, BaseException):
        return ('exc', type(v).__name__)
    if v is None or isinstance(v, (bool, int, float, str, bytes)):
        return (type(v).__name__, repr(v)) if not isinstance(v, str) else v
    return (type(v).__name__, repr(v))


def thaw_rows(rows):
    return [tuple(r) for r in rows]
