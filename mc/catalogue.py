"""Catalogue of petl's public operators: one entry per call form.

Every entry is a factory over *tables supplied by the check* (immutable tuples for C01, mutable lists
for C03, counting sources for C02, header-only tables for C20 ...).  The standard input kinds are
described by `header(kind)` / `row(kind, i)`: the i-th data row of a kind does not depend on the
table's length, so sources of any length can be generated on the fly.
"""
import itertools
import operator
import os
import sqlite3
from collections import OrderedDict

import petl as etl
from petl.util.materialise import cache as etl_cache

# ---------------------------------------------------------------------------------------------
# standard inputs
# ---------------------------------------------------------------------------------------------

_KEYS = ['b', 'a', 'b', 'c']
_KEYS2 = ['a', 'b', 'd', 'a']
_VALS = [3, 1, 2, 1, 5]

HEADERS = {
    'g': ('k', 'v', 'x'),        # generic: text key with duplicates, int value, text 'r0-s0'
    'g2': ('k', 'w', 'y'),       # right-hand table for joins: overlapping keys
    'same': ('k', 'v', 'x'),     # same header as g, overlapping rows (set operations)
    'perm': ('x', 'k', 'v'),     # g's fields permuted, overlapping rows (record* set operations)
    'l': ('k', 'v', 'x'),        # v is a list
    'd': ('k', 'v', 'x'),        # v is a dict
    'num': ('k', 'v', 'x'),      # numeric strings
    'fill': ('k', 'v', 'x'),     # None cells to be filled
    'melted': ('k', 'variable', 'value'),
    'piv': ('k', 'v', 'x'),      # pivot input: x numeric
    'col1': ('v',),              # one numeric column
    'dup': ('k', 'v', 'x'),      # constant key: one long run of duplicate keys (presorted by k)
    'dup2': ('k', 'w', 'y'),     # right-hand partner of dup
    'inc': ('k', 'v', 'x'),      # strictly increasing key (presorted by k, every group has one row)
    'inc2': ('k', 'w', 'y'),     # right-hand partner of inc
}


def row(kind, i):
    if kind == 'g':
        return (_KEYS[i % 4], _VALS[i % 5], 'r%d-s%d' % (i, i))
    if kind == 'g2':
        return (_KEYS2[i % 4], 10 + (i % 3), 'q%d' % i)
    if kind == 'same':
        return row('g', i + 1) if i % 2 == 0 else (_KEYS[i % 4], 7, 'z%d' % i)
    if kind == 'perm':
        r = row('same', i)
        return (r[2], r[0], r[1])
    if kind == 'l':
        return (_KEYS[i % 4], [i, i + 1], 'r%d' % i)
    if kind == 'd':
        return (_KEYS[i % 4], {'p': i, 'q': i + 1}, 'r%d' % i)
    if kind == 'num':
        return (_KEYS[i % 4], str(i) if i % 2 else '%d.5' % i, 'r%d' % i)
    if kind == 'fill':
        return (_KEYS[i % 4] if i % 2 == 0 else None, _VALS[i % 5] if i % 3 == 0 else None, 'r%d' % i)
    if kind == 'melted':
        return (_KEYS[(i // 2) % 4] + str(i // 2), 'var%d' % (i % 2), i)
    if kind == 'piv':
        return (_KEYS[i % 4], _VALS[i % 5], i)
    if kind == 'col1':
        return (_VALS[i % 5],)
    if kind == 'dup':
        return ('a', _VALS[i % 5], 'r%d' % i)
    if kind == 'dup2':
        return ('a', 10 + (i % 3), 'q%d' % i)
    if kind == 'inc':
        return (i, _VALS[i % 5], 'r%d' % i)
    if kind == 'inc2':
        return (i, 10 + (i % 3), 'q%d' % i)
    raise KeyError(kind)


def rows(kind, n):
    return [row(kind, i) for i in range(n)]


def table(kind, n, mutable=False):
    if mutable:
        import copy
        return [list(HEADERS[kind])] + [list(copy.deepcopy(r)) for r in rows(kind, n)]
    return (HEADERS[kind],) + tuple(rows(kind, n))


# ---------------------------------------------------------------------------------------------
# catalogue entries
# ---------------------------------------------------------------------------------------------

class Op(object):
    """name: stable id; kinds: input kinds; fn(*tables[, ctx]) -> view; tags: see below.

    tags: 'rows'      yields table rows, header first (default unless 'container' / 'eager')
          'container' yields something else than rows (values, dicts, records ...)
          'eager'     returns a materialised object, not a view
          'stream:<i>' streaming operator, input i is streamed (C02)
          'passall'   keeps every input row (so "k output rows" is well defined for C02)
          'sorted'    sort-backed (accepts buffersize/tempdir/cache; C11, C18)
          'hdrdep'    header depends on data
          'ctx'       factory takes ctx (scratch dir) as keyword
          'expand'    may emit more rows than it reads (keep C01 inputs short)
          'stateful'  holds shared state by design (cache, sort caches, hash lookups, RNG)
          'notee'     excluded from C01 by the statement (tee*)
          'c02only'   only meaningful for the laziness check (unbounded output)
          'presorted' presorted=True variant fed by the laziness check (c02only) and, as a plain view whose passes
                      must agree whatever the input order, by C01
    zero: expected data rows for C20 when inputs have no data rows:
          'none' (default) | 'skip' | callable(tables) -> list of rows (multiset)
    """

    def __init__(self, name, kinds, fn, tags=(), zero='none'):
        self.name = name
        self.kinds = tuple(kinds)
        self.fn = fn
        self.tags = set(tags)
        self.zero = zero
        self.stream = None
        for t in self.tags:
            if t.startswith('stream:'):
                self.stream = int(t.split(':')[1])

    def build(self, tables, ctx=None):
        if 'ctx' in self.tags:
            return self.fn(*tables, ctx=ctx)
        return self.fn(*tables)

    def __repr__(self):
        return 'Op(%s)' % self.name


OPS = []
BY_NAME = {}


def op(name, kinds, fn, tags=(), zero='none'):
    o = Op(name, kinds, fn, tags, zero)
    assert name not in BY_NAME, name
    OPS.append(o)
    BY_NAME[name] = o
    return o


def _datarows(t):
    it = iter(t)
    try:
        next(it)
    except StopIteration:
        return []
    return [tuple(r) for r in it]


def _pad(r, n, missing=None):
    r = tuple(r)[:n]
    return r + (missing,) * (n - len(r))


S0 = ('stream:0', 'passall')

# ---- basics --------------------------------------------------------------------------------
op('cut(k,x)', ['g'], lambda t: etl.cut(t, 'k', 'x'), S0)
op('cut(2,0)', ['g'], lambda t: etl.cut(t, 2, 0), S0)
op('cut([v])', ['g'], lambda t: etl.cut(t, ['v']), S0)
op('cutout(v)', ['g'], lambda t: etl.cutout(t, 'v'), S0)
op('cat(1)', ['g'], lambda t: etl.cat(t), S0)
op('cat(2)', ['g', 'g2'], lambda a, b: etl.cat(a, b), ('stream:0', 'passall', 'expand'),
   zero=lambda ts: [_pad(r, 3) + (None, None) for r in _datarows(ts[0])] +
   [(r[0], None, None) + tuple(r[1:3]) for r in (_pad(x, 3) for x in _datarows(ts[1]))])
op('cat(header)', ['g'], lambda t: etl.cat(t, header=['x', 'k', 'n']), S0)
op('stack(2)', ['g', 'g2'], lambda a, b: etl.stack(a, b), ('stream:0', 'passall', 'expand'),
   zero=lambda ts: [_pad(r, 3) for r in _datarows(ts[0])] + [_pad(r, 3) for r in _datarows(ts[1])])
op('stack(notrim)', ['g', 'g2'], lambda a, b: etl.stack(a, b, trim=False), ('stream:0', 'passall', 'expand'), zero='skip')
op('stack(nopad)', ['g', 'g2'], lambda a, b: etl.stack(a, b, pad=False), ('stream:0', 'passall', 'expand'), zero='skip')
op('stack(1,notrim,missing)', ['g'], lambda a: etl.stack(a, trim=False, missing='-'), S0)
op('addfield(const)', ['g'], lambda t: etl.addfield(t, 'n', 42), S0)
op('addfield(fn)', ['g'], lambda t: etl.addfield(t, 'n', lambda r: r['v'] * 2), S0)
op('addfield(index0)', ['g'], lambda t: etl.addfield(t, 'n', 'c', index=0), S0)
op('addfields', ['g'], lambda t: etl.addfields(t, [('n1', 1), ('n2', lambda r: r['k'], 0)]), S0)
op('rowslice(1,3)', ['g'], lambda t: etl.rowslice(t, 1, 3), ('stream:0',))
op('rowslice(0,None,2)', ['g'], lambda t: etl.rowslice(t, 0, None, 2), ('stream:0',))
op('rowslice(all)', ['g'], lambda t: etl.rowslice(t, 0, None), S0)
op('head(2)', ['g'], lambda t: etl.head(t, 2), ('stream:0',))
op('head(big)', ['g'], lambda t: etl.head(t, 1000000), S0)
op('tail(2)', ['g'], lambda t: etl.tail(t, 2))
op('skipcomments', ['g'], lambda t: etl.skipcomments(t, '#'), S0)
op('movefield(x,0)', ['g'], lambda t: etl.movefield(t, 'x', 0), S0)
op('annex', ['g', 'g2'], lambda a, b: etl.annex(a, b), ('stream:0', 'passall'),
   zero=lambda ts: [_pad(l, 3) + _pad(r, 3) for l, r in itertools.zip_longest(
       _datarows(ts[0]), _datarows(ts[1]), fillvalue=())])
op('addrownumbers', ['g'], lambda t: etl.addrownumbers(t), S0)
op('addrownumbers(5,-1)', ['g'], lambda t: etl.addrownumbers(t, 5, -1, 'n'), S0)
op('addcolumn(long)', ['g'], lambda t: etl.addcolumn(t, 'c', range(6000)), ('stream:0', 'c02only'), zero='skip')
op('addcolumn', ['g'], lambda t: etl.addcolumn(t, 'c', [10, 20, 30]), (), zero='skip')
op('addcolumn(values of another table)', ['g', 'g'], lambda t, u: etl.addcolumn(t, 'c', etl.values(u, 'v')),
   ('stream:0', 'passall'), zero='skip')
op('addcolumn(short)', ['g'], lambda t: etl.addcolumn(t, 'c', [10, 20], index=1),
   zero=lambda ts: [(None, 10, None, None), (None, 20, None, None)])
op('addfieldusingcontext', ['g'],
   lambda t: etl.addfieldusingcontext(t, 'c', _ctxquery), S0)
# ---- headers -------------------------------------------------------------------------------
op('rename(k)', ['g'], lambda t: etl.rename(t, 'k', 'kk'), S0)
op('rename(dict)', ['g'], lambda t: etl.rename(t, {'k': 'kk', 1: 'vv'}), S0)
op('setheader', ['g'], lambda t: etl.setheader(t, ['a', 'b', 'c']), S0)
op('extendheader', ['g'], lambda t: etl.extendheader(t, ['e']), S0)
op('pushheader', ['g'], lambda t: etl.pushheader(t, ['a', 'b', 'c']), S0,
   zero=lambda ts: [('k', 'v', 'x')])
op('skip(1)', ['g'], lambda t: etl.skip(t, 1), S0, zero='skip')
op('prefixheader', ['g'], lambda t: etl.prefixheader(t, 'p_'), S0)
op('suffixheader', ['g'], lambda t: etl.suffixheader(t, '_s'), S0)
op('sortheader', ['g'], lambda t: etl.sortheader(t), S0)
# ---- conversions ---------------------------------------------------------------------------
op('convert(fn)', ['g'], lambda t: etl.convert(t, 'v', lambda v: v * 2), S0)
op('convert(method)', ['g'], lambda t: etl.convert(t, 'k', 'upper'), S0)
op('convert(method,args)', ['g'], lambda t: etl.convert(t, 'x', 'replace', 'r', 'R'), S0)
op('convert(dictspec)', ['g'], lambda t: etl.convert(t, {'k': 'upper', 'v': float}), S0)
op('convert(fields)', ['g'], lambda t: etl.convert(t, ('k', 'x'), 'upper'), S0)
op('convert(list)', ['g'], lambda t: etl.convert(t, ['upper', None, 'upper']), S0)
op('convert(dict)', ['g'], lambda t: etl.convert(t, 'k', {'a': 'A'}), S0)
op('convert(where)', ['g'], lambda t: etl.convert(t, 'v', lambda v: -v, where=lambda r: r.k == 'b'), S0)
op('convert(pass_row)', ['g'], lambda t: etl.convert(t, 'v', lambda v, r: (v, r.k), pass_row=True), S0)
op('convertall', ['g'], lambda t: etl.convertall(t, str), S0)
op('replace', ['g'], lambda t: etl.replace(t, 'k', 'a', 'A'), S0)
op('replaceall', ['g'], lambda t: etl.replaceall(t, 'a', 'A'), S0)
op('update', ['g'], lambda t: etl.update(t, 'v', 0), S0)
op('convertnumbers', ['num'], lambda t: etl.convertnumbers(t), S0)
op('format', ['g'], lambda t: etl.format(t, 'v', '{:03d}'), S0)
op('formatall', ['g'], lambda t: etl.formatall(t, '<{}>'), S0)
op('interpolate', ['g'], lambda t: etl.interpolate(t, 'v', '%05d'), S0)
op('interpolateall', ['g'], lambda t: etl.interpolateall(t, '[%s]'), S0)
# ---- selects -------------------------------------------------------------------------------
op('select(row fn)', ['g'], lambda t: etl.select(t, lambda r: r.v > 1), ('stream:0',))
op('select(all)', ['g'], lambda t: etl.select(t, lambda r: r.v > 0), S0)
op('select(expr)', ['g'], lambda t: etl.select(t, "{v} > 0"), S0)
op('select(field)', ['g'], lambda t: etl.select(t, 'v', lambda v: v > 0), S0)
op('select(complement)', ['g'], lambda t: etl.select(t, lambda r: r.v > 1, complement=True), ('stream:0',))
op('selecteq', ['g'], lambda t: etl.selecteq(t, 'k', 'b'), ('stream:0',))
op('selectne', ['g'], lambda t: etl.selectne(t, 'k', 'zz'), S0)
op('selectlt', ['g'], lambda t: etl.selectlt(t, 'v', 100), S0)
op('selectle', ['g'], lambda t: etl.selectle(t, 'v', 2), ('stream:0',))
op('selectgt', ['g'], lambda t: etl.selectgt(t, 'v', 0), S0)
op('selectge', ['g'], lambda t: etl.selectge(t, 'v', None), S0)
op('selectcontains', ['g'], lambda t: etl.selectcontains(t, 'x', 'r'), S0)
op('selectin', ['g'], lambda t: etl.selectin(t, 'k', ('a', 'b', 'c')), S0)
op('selectnotin', ['g'], lambda t: etl.selectnotin(t, 'k', ('a',)), ('stream:0',))
op('selectis', ['g'], lambda t: etl.selectis(t, 'k', None), ('stream:0',))
op('selectisnot', ['g'], lambda t: etl.selectisnot(t, 'k', None), S0)
op('selectisinstance', ['g'], lambda t: etl.selectisinstance(t, 'v', int), S0)
op('selectrangeopenleft', ['g'], lambda t: etl.selectrangeopenleft(t, 'v', 0, 100), S0)
op('selectrangeopenright', ['g'], lambda t: etl.selectrangeopenright(t, 'v', 0, 100), S0)
op('selectrangeopen', ['g'], lambda t: etl.selectrangeopen(t, 'v', 1, 5), S0)
op('selectrangeclosed', ['g'], lambda t: etl.selectrangeclosed(t, 'v', 0, 100), S0)
op('selecttrue', ['g'], lambda t: etl.selecttrue(t, 'v'), S0)
op('selectfalse', ['g'], lambda t: etl.selectfalse(t, 'v'), ('stream:0',))
op('selectnone', ['fill'], lambda t: etl.selectnone(t, 'k'), ('stream:0',))
op('selectnotnone', ['g'], lambda t: etl.selectnotnone(t, 'k'), S0)
op('selectusingcontext', ['g'], lambda t: etl.selectusingcontext(t, lambda p, c, n: True), S0)
op('rowlenselect', ['g'], lambda t: etl.rowlenselect(t, 3), S0)
op('biselect[0]', ['g'], lambda t: etl.biselect(t, lambda r: r.v > 1)[0], ('stream:0',))
op('biselect[1]', ['g'], lambda t: etl.biselect(t, lambda r: r.v > 1)[1], ('stream:0',))
# ---- regex ---------------------------------------------------------------------------------
op('capture', ['g'], lambda t: etl.capture(t, 'x', r'(\w)(\d+)', ['c1', 'c2']), S0)
op('capture(orig)', ['g'], lambda t: etl.capture(t, 'x', r'(\w)(\d+)', ['c1', 'c2'], include_original=True), S0)
op('split', ['g'], lambda t: etl.split(t, 'x', '-', ['p', 'q']), S0)
op('split(orig)', ['g'], lambda t: etl.split(t, 'x', '-', ['p', 'q'], include_original=True), S0)
op('search', ['g'], lambda t: etl.search(t, 'x', 'r'), S0)
op('search(row)', ['g'], lambda t: etl.search(t, '.'), S0)
op('search(selective)', ['g'], lambda t: etl.search(t, 'k', 'b'), ('stream:0',))
op('searchcomplement', ['g'], lambda t: etl.searchcomplement(t, 'x', 'nomatch'), S0)
op('sub', ['g'], lambda t: etl.sub(t, 'x', 'r', 'R'), S0)
op('splitdown', ['g'], lambda t: etl.splitdown(t, 'x', '-'), ('stream:0', 'passall', 'expand'))
# ---- fills ---------------------------------------------------------------------------------
op('filldown', ['fill'], lambda t: etl.filldown(t), S0)
op('filldown(k)', ['fill'], lambda t: etl.filldown(t, 'k'), S0)
op('fillright', ['fill'], lambda t: etl.fillright(t), S0)
op('fillleft', ['fill'], lambda t: etl.fillleft(t), S0)
# ---- maps ----------------------------------------------------------------------------------
op('fieldmap', ['g'], lambda t: etl.fieldmap(t, OrderedDict([
    ('K', 'k'), ('V2', ('v', lambda v: v * 2)), ('E', '{v} + 1'), ('F', lambda r: r.x[:1]),
    ('D', ('k', {'a': 'A'}))])), S0)
op('rowmap', ['g'], lambda t: etl.rowmap(t, lambda r: [r.k, r.v + 1], header=['k', 'v1']), S0)
op('rowmapmany', ['g'], lambda t: etl.rowmapmany(t, _rowgen, header=['k', 'what', 'val']),
   ('stream:0', 'passall', 'expand'))
op('rowgroupmap', ['g'], lambda t: etl.rowgroupmap(t, 'k', _groupmapper, header=['k', 'n']), ('sorted',))
# ---- unpacks -------------------------------------------------------------------------------
op('unpack', ['l'], lambda t: etl.unpack(t, 'v', ['v1', 'v2']), S0)
op('unpack(int,orig)', ['l'], lambda t: etl.unpack(t, 'v', 3, include_original=True), S0)
op('unpackdict(keys)', ['d'], lambda t: etl.unpackdict(t, 'v', keys=['p', 'q']), S0)
op('unpackdict(sample1)', ['d'], lambda t: etl.unpackdict(t, 'v', samplesize=1), ('stream:0', 'passall', 'hdrdep'))
op('unpackdict(sample0)', ['d'], lambda t: etl.unpackdict(t, 'v', samplesize=0), ('stream:0', 'passall', 'hdrdep'))
op('unpackdict(sample)', ['d'], lambda t: etl.unpackdict(t, 'v', samplesize=2), ('stream:0', 'passall', 'hdrdep'))
# ---- reshape -------------------------------------------------------------------------------
op('melt(key)', ['g'], lambda t: etl.melt(t, 'k'), ('stream:0', 'passall', 'expand'))
op('melt(variables)', ['g'], lambda t: etl.melt(t, variables=['v', 'x']), ('stream:0', 'passall', 'expand'))
op('recast', ['melted'], lambda t: etl.recast(t), ('hdrdep',))
op('recast(key)', ['melted'], lambda t: etl.recast(t, key='k', variablefield='variable', valuefield='value'),
   ('hdrdep',))
op('transpose', ['g'], lambda t: etl.transpose(t), ('hdrdep',), zero='skip')
op('pivot', ['piv'], lambda t: etl.pivot(t, 'k', 'v', 'x', sum), ('sorted', 'hdrdep'))
op('flatten', ['g'], lambda t: etl.flatten(t), ('container', 'stream:0', 'passall', 'expand'))
op('unflatten', ['g'], lambda t: etl.unflatten(etl.flatten(t), 2), ('hdrdep',))
op('unflatten(field)', ['g'], lambda t: etl.unflatten(t, 'v', 2), ())
# ---- sorts ---------------------------------------------------------------------------------
op('sort(k)', ['g'], lambda t: etl.sort(t, 'k'), ('sorted', 'stateful'))
op('sort(k,nocache)', ['g'], lambda t: etl.sort(t, 'k', cache=False), ('sorted',))
op('sort(k,b1)', ['g'], lambda t: etl.sort(t, 'k', buffersize=1), ('sorted', 'stateful'))
op('sort(k,b2)', ['g'], lambda t: etl.sort(t, 'k', buffersize=2), ('sorted', 'stateful'))
op('sort(k,b1,nocache)', ['g'], lambda t: etl.sort(t, 'k', buffersize=1, cache=False), ('sorted',))
op('sort(lex,reverse)', ['g'], lambda t: etl.sort(t, reverse=True), ('sorted', 'stateful'))
op('sort(compound,b2,reverse)', ['g'], lambda t: etl.sort(t, ('k', 'v'), buffersize=2, reverse=True),
   ('sorted', 'stateful'))
# key order differs from the natural (lexical) row order: a merge that loses its key function is visible
op('sort(x)', ['g'], lambda t: etl.sort(t, 'x'), ('sorted', 'stateful'))
op('sort(x,b1)', ['g'], lambda t: etl.sort(t, 'x', buffersize=1), ('sorted', 'stateful'))
op('sort(x,b2,reverse)', ['g'], lambda t: etl.sort(t, 'x', buffersize=2, reverse=True), ('sorted', 'stateful'))
op('mergesort', ['g', 'same'], lambda a, b: etl.mergesort(a, b, key='k'), ('sorted', 'stateful', 'expand'),
   zero='skip')
op('mergesort(b1)', ['g', 'same'], lambda a, b: etl.mergesort(a, b, key='k', buffersize=1),
   ('sorted', 'stateful', 'expand'), zero='skip')
op('mergesort(presorted)', ['g', 'same'],
   lambda a, b: etl.mergesort(etl.sort(a, 'k'), etl.sort(b, 'k'), key='k', presorted=True), ('stateful', 'expand'),
   zero='skip')
# ---- joins ---------------------------------------------------------------------------------


def _zero_left(missing=None, nright=2):
    return lambda ts: [_pad(r, 3) + (missing,) * nright for r in _datarows(ts[0])]


def _zero_right(ts):
    return [(r[0], None, None) + tuple(r[1:3]) for r in (_pad(x, 3) for x in _datarows(ts[1]))]


def _zero_outer(ts):
    return _zero_left()(ts) + _zero_right(ts)


for _nm, _f, _z in [('join', etl.join, 'none'), ('leftjoin', etl.leftjoin, _zero_left()),
                    ('rightjoin', etl.rightjoin, _zero_right), ('outerjoin', etl.outerjoin, _zero_outer),
                    ('lookupjoin', etl.lookupjoin, _zero_left())]:
    op('%s(key)' % _nm, ['g', 'g2'], (lambda f: lambda a, b: f(a, b, key='k'))(_f), ('sorted', 'stateful'), zero=_z)
    op('%s(natural)' % _nm, ['g', 'g2'], (lambda f: lambda a, b: f(a, b))(_f), ('sorted', 'stateful'), zero=_z)
    op('%s(b1)' % _nm, ['g', 'g2'], (lambda f: lambda a, b: f(a, b, key='k', buffersize=1))(_f),
       ('sorted', 'stateful'), zero=_z)
    op('%s(lkey,rkey,prefix)' % _nm, ['g', 'g2'],
       (lambda f: lambda a, b: f(a, b, lkey='k', rkey='k', lprefix='l_', rprefix='r_'))(_f),
       ('sorted', 'stateful'), zero=_z)
op('antijoin', ['g', 'g2'], lambda a, b: etl.antijoin(a, b, key='k'), ('sorted', 'stateful'),
   zero=lambda ts: [tuple(r) for r in _datarows(ts[0])])
op('antijoin(b1)', ['g', 'g2'], lambda a, b: etl.antijoin(a, b, key='k', buffersize=1), ('sorted', 'stateful'),
   zero=lambda ts: [tuple(r) for r in _datarows(ts[0])])
op('crossjoin', ['g', 'g2'], lambda a, b: etl.crossjoin(a, b), ('expand',))
op('crossjoin(prefix)', ['g', 'g2'], lambda a, b: etl.crossjoin(a, b, prefix=True), ('expand',))
op('unjoin[0]', ['g'], lambda t: etl.unjoin(t, 'k')[0], ('sorted', 'stateful'))
op('unjoin[1]', ['g'], lambda t: etl.unjoin(t, 'k')[1], ('sorted', 'stateful'))
op('unjoin(key)[0]', ['g'], lambda t: etl.unjoin(t, 'v', key='k')[0], ('sorted', 'stateful'))
op('unjoin(key)[1]', ['g'], lambda t: etl.unjoin(t, 'v', key='k')[1], ('sorted', 'stateful'))
# ---- hash joins ----------------------------------------------------------------------------
for _nm, _f, _side, _z in [('hashjoin', etl.hashjoin, 0, 'none'), ('hashleftjoin', etl.hashleftjoin, 0, _zero_left()),
                           ('hashrightjoin', etl.hashrightjoin, 1, _zero_right)]:
    op('%s' % _nm, ['g', 'g2'], (lambda f: lambda a, b: f(a, b, key='k'))(_f),
       ('stream:%d' % _side, 'stateful'), zero=_z)
    op('%s(nocache)' % _nm, ['g', 'g2'], (lambda f: lambda a, b: f(a, b, key='k', cache=False))(_f),
       ('stream:%d' % _side,), zero=_z)
op('hashantijoin', ['g', 'g2'], lambda a, b: etl.hashantijoin(a, b, key='k'), ('stream:0',),
   zero=lambda ts: [tuple(r) for r in _datarows(ts[0])])
op('hashlookupjoin', ['g', 'g2'], lambda a, b: etl.hashlookupjoin(a, b, key='k'), ('stream:0', 'passall'),
   zero=_zero_left())
# ---- set operations ------------------------------------------------------------------------


def _zero_a(ts):
    return [tuple(r) for r in _datarows(ts[0])]


def _zero_b(ts):
    return [tuple(r) for r in _datarows(ts[1])]


op('complement', ['g', 'same'], lambda a, b: etl.complement(a, b), ('sorted', 'stateful'), zero=_zero_a)
op('complement(strict,b1)', ['g', 'same'], lambda a, b: etl.complement(a, b, strict=True, buffersize=1),
   ('sorted', 'stateful'), zero=_zero_a)
op('intersection', ['g', 'same'], lambda a, b: etl.intersection(a, b), ('sorted', 'stateful'))
op('intersection(b1)', ['g', 'same'], lambda a, b: etl.intersection(a, b, buffersize=1), ('sorted', 'stateful'))
op('diff[0]', ['g', 'same'], lambda a, b: etl.diff(a, b)[0], ('sorted', 'stateful'), zero=_zero_b)
op('diff[1]', ['g', 'same'], lambda a, b: etl.diff(a, b)[1], ('sorted', 'stateful'), zero=_zero_a)
op('recordcomplement', ['g', 'perm'], lambda a, b: etl.recordcomplement(a, b), ('sorted', 'stateful'), zero=_zero_a)
op('recorddiff[0]', ['g', 'perm'], lambda a, b: etl.recorddiff(a, b)[0], ('sorted', 'stateful'), zero=_zero_b)
op('recorddiff[1]', ['g', 'perm'], lambda a, b: etl.recorddiff(a, b)[1], ('sorted', 'stateful'), zero=_zero_a)
op('hashcomplement', ['g', 'same'], lambda a, b: etl.hashcomplement(a, b), ('stream:0',), zero=_zero_a)
op('hashcomplement(strict)', ['g', 'same'], lambda a, b: etl.hashcomplement(a, b, strict=True), ('stream:0',),
   zero=_zero_a)
op('hashintersection', ['g', 'same'], lambda a, b: etl.hashintersection(a, b), ('stream:0',))
# ---- dedup ---------------------------------------------------------------------------------
op('duplicates(k)', ['g'], lambda t: etl.duplicates(t, 'k'), ('sorted', 'stateful'))
op('duplicates(None)', ['g'], lambda t: etl.duplicates(t), ('sorted', 'stateful'))
op('unique(k)', ['g'], lambda t: etl.unique(t, 'k'), ('sorted', 'stateful'))
op('unique(k,b1)', ['g'], lambda t: etl.unique(t, 'k', buffersize=1), ('sorted', 'stateful'))
op('distinct', ['g'], lambda t: etl.distinct(t), ('sorted', 'stateful'))
op('distinct(k)', ['g'], lambda t: etl.distinct(t, 'k'), ('sorted', 'stateful'))
op('distinct(k,count)', ['g'], lambda t: etl.distinct(t, 'k', count='n'), ('sorted', 'stateful'))
op('conflicts(k)', ['g'], lambda t: etl.conflicts(t, 'k'), ('sorted', 'stateful'))
op('conflicts(k,exclude)', ['g'], lambda t: etl.conflicts(t, 'k', exclude='x'), ('sorted', 'stateful'))
# ---- reductions ----------------------------------------------------------------------------
op('rowreduce', ['g'], lambda t: etl.rowreduce(t, 'k', _reducer, header=['k', 'sum']), ('sorted', 'stateful'))
op('aggregate(len)', ['g'], lambda t: etl.aggregate(t, 'k', len), ('sorted', 'stateful'))
op('aggregate(sum,v)', ['g'], lambda t: etl.aggregate(t, 'k', sum, 'v'), ('sorted', 'stateful'))
op('aggregate(compound)', ['g'], lambda t: etl.aggregate(t, ('k', 'v'), len), ('sorted', 'stateful'))
op('aggregate(key=None,len)', ['g'], lambda t: etl.aggregate(t, None, len), (), zero=lambda ts: [(0,)])
op('aggregate(key=None,sum)', ['g'], lambda t: etl.aggregate(t, None, sum, 'v'), (), zero=lambda ts: [(0,)])
op('aggregate(multi)', ['g'], lambda t: etl.aggregate(t, 'k', OrderedDict([
    ('n', len), ('vs', ('v', list)), ('mx', ('v', max)), ('xs', 'x')])), ('sorted', 'stateful'))
op('aggregate(multi,list)', ['g'], lambda t: etl.aggregate(t, 'k', [('n', len), ('s', 'v', sum)]),
   ('sorted', 'stateful'))
op('aggregate(multi,key=None)', ['g'], lambda t: etl.aggregate(t, None, OrderedDict([('n', len), ('s', ('v', sum))])),
   (), zero='skip')
op('aggregate(multi,b1)', ['g'], lambda t: etl.aggregate(t, 'k', OrderedDict([('n', len)]), buffersize=1),
   ('sorted', 'stateful'))
op('groupcountdistinctvalues', ['g'], lambda t: etl.groupcountdistinctvalues(t, 'k', 'v'), ('sorted', 'stateful'))
op('groupselectfirst', ['g'], lambda t: etl.groupselectfirst(t, 'k'), ('sorted', 'stateful'))
op('groupselectlast', ['g'], lambda t: etl.groupselectlast(t, 'k'), ('sorted', 'stateful'))
op('groupselectmin', ['g'], lambda t: etl.groupselectmin(t, 'k', 'v'), ('sorted', 'stateful'))
op('groupselectmax', ['g'], lambda t: etl.groupselectmax(t, 'k', 'v'), ('sorted', 'stateful'))
op('mergeduplicates', ['g'], lambda t: etl.mergeduplicates(t, 'k'), ('sorted', 'stateful'))
op('mergeduplicates(compound)', ['g'], lambda t: etl.mergeduplicates(t, ('k', 'v')), ('sorted', 'stateful'))
op('merge', ['g', 'g2'], lambda a, b: etl.merge(a, b, key='k'), ('sorted', 'stateful'), zero='skip')
op('fold', ['g'], lambda t: etl.fold(t, 'k', operator.add, 'v'), ('sorted', 'stateful'))
# ---- util views ----------------------------------------------------------------------------
op('values(v)', ['g'], lambda t: etl.values(t, 'v'), ('container', 'stream:0', 'passall'))
op('values(k,x)', ['g'], lambda t: etl.values(t, 'k', 'x'), ('container', 'stream:0', 'passall'))
op('t[x]', ['g'], lambda t: etl.wrap(t)['x'], ('container', 'stream:0', 'passall'))
op('data', ['g'], lambda t: etl.data(t), ('container', 'stream:0', 'passall'))
op('data(1,3)', ['g'], lambda t: etl.data(t, 1, 3), ('container', 'stream:0'))
op('dicts', ['g'], lambda t: etl.dicts(t), ('container', 'stream:0', 'passall'))
op('records', ['g'], lambda t: etl.records(t), ('container', 'stream:0', 'passall'))
op('namedtuples', ['g'], lambda t: etl.namedtuples(t), ('container', 'stream:0', 'passall'))
op('wrap', ['g'], lambda t: etl.wrap(t), S0)
op('cache', ['g'], lambda t: etl_cache(t), ('stream:0', 'passall', 'stateful'))
op('cache(1)', ['g'], lambda t: etl_cache(t, 1), ('stream:0', 'passall', 'stateful'))
op('cache(2)', ['g'], lambda t: etl_cache(t, 2), ('stream:0', 'passall', 'stateful'))
op('cache(100)', ['g'], lambda t: etl_cache(t, 100), ('stream:0', 'passall', 'stateful'))
op('progress', ['g'], lambda t: etl.progress(t, 2, out=_NullOut()), S0)
op('log_progress', ['g'], lambda t: etl.log_progress(t, 2, logger=_quiet_logger()), S0)
op('clock', ['g'], lambda t: etl.clock(t), S0)
op('valuecounts', ['g'], lambda t: etl.valuecounts(t, 'k'), ('hdrdep',), zero='skip')
op('valuecounts(2)', ['g'], lambda t: etl.valuecounts(t, 'k', 'v'), (), zero='skip')
op('typecounts', ['g'], lambda t: etl.typecounts(t, 'v'), (), zero='skip')
op('parsecounts', ['num'], lambda t: etl.parsecounts(t, 'v'), (), zero='skip')
op('stringpatterns', ['g'], lambda t: etl.stringpatterns(t, 'x'), ('eager',), zero='skip')
op('rowlengths', ['g'], lambda t: etl.rowlengths(t), ('eager',), zero='skip')
op('validate', ['g'], lambda t: etl.validate(t, constraints=[
    dict(name='v_int', field='v', test=int), dict(name='k_ab', field='k', assertion=lambda v: v in 'ab')],
    header=('k', 'v', 'x')), ('stream:0',))
op('empty', [], lambda: etl.empty(), ())
op('randomtable', [], lambda: etl.randomtable(2, 3, seed=42), ('stateful',), zero='skip')
op('dummytable', [], lambda: etl.dummytable(3, seed=42), ('stateful',), zero='skip')
op('dummytable(fields)', [], lambda: etl.dummytable(3, fields=[('a', _rnd_int), ('b', _rnd_float)], seed=7),
   ('stateful',), zero='skip')
# ---- lookups & eager helpers (C20: must accept header-only tables) ------------------------
op('lookup', ['g'], lambda t: etl.lookup(t, 'k'), ('eager',), zero='skip')
op('lookupone', ['g'], lambda t: etl.lookupone(t, 'k'), ('eager',), zero='skip')
op('dictlookup', ['g'], lambda t: etl.dictlookup(t, 'k'), ('eager',), zero='skip')
op('dictlookupone', ['g'], lambda t: etl.dictlookupone(t, 'k'), ('eager',), zero='skip')
op('recordlookup', ['g'], lambda t: etl.recordlookup(t, 'k'), ('eager',), zero='skip')
op('recordlookupone', ['g'], lambda t: etl.recordlookupone(t, 'k'), ('eager',), zero='skip')
op('columns', ['g'], lambda t: etl.columns(t), ('eager',), zero='skip')
op('facetcolumns', ['g'], lambda t: etl.facetcolumns(t, 'k'), ('eager',), zero='skip')
op('facet', ['g'], lambda t: etl.facet(t, 'k'), ('eager',), zero='skip')
op('isunique', ['g'], lambda t: etl.isunique(t, 'k'), ('eager',), zero='skip')
op('issorted', ['g'], lambda t: etl.issorted(t, 'k'), ('eager',), zero='skip')
op('issorted(None)', ['g'], lambda t: etl.issorted(t), ('eager',), zero='skip')
op('nrows', ['g'], lambda t: etl.nrows(t), ('eager',), zero='skip')
op('valuecounter', ['g'], lambda t: etl.valuecounter(t, 'k'), ('eager',), zero='skip')
op('typecounter', ['g'], lambda t: etl.typecounter(t, 'k'), ('eager',), zero='skip')
op('parsecounter', ['num'], lambda t: etl.parsecounter(t, 'v'), ('eager',), zero='skip')
op('stringpatterncounter', ['g'], lambda t: etl.stringpatterncounter(t, 'x'), ('eager',), zero='skip')
op('header', ['g'], lambda t: etl.header(t), ('eager',), zero='skip')
op('fieldnames', ['g'], lambda t: etl.fieldnames(t), ('eager',), zero='skip')
op('listoflists', ['g'], lambda t: etl.listoflists(t), ('eager',), zero='skip')
op('tupleoftuples', ['g'], lambda t: etl.tupleoftuples(t), ('eager',), zero='skip')
op('look', ['g'], lambda t: repr(etl.look(t)), ('eager',), zero='skip')
op('lookall', ['g'], lambda t: repr(etl.lookall(t)), ('eager',), zero='skip')
op('see', ['g'], lambda t: repr(etl.see(t)), ('eager',), zero='skip')
op('typeset', ['g'], lambda t: etl.typeset(t, 'v'), ('eager',), zero='skip')
op('diffheaders', ['g', 'g2'], lambda a, b: etl.diffheaders(a, b), ('eager',), zero='skip')
op('diffvalues', ['g', 'g2'], lambda a, b: etl.diffvalues(a, b, 'k'), ('eager',), zero='skip')
op('limits', ['g'], lambda t: _tolerate_empty(lambda: etl.limits(t, 'v')), ('eager',), zero='skip')
op('stats', ['g'], lambda t: etl.stats(t, 'v'), ('eager',), zero='skip')
op('rowgroupby', ['g'], lambda t: [(k, list(g)) for k, g in etl.rowgroupby(etl.sort(t, 'k'), 'k')], ('eager',),
   zero='skip')
# ---- extractors (write a file/db from the supplied table at build time, then read it) ------
op('fromcsv', ['g'], lambda t, ctx: etl.fromcsv(_wr(ctx, 'a.csv', lambda p: etl.tocsv(t, p))), ('ctx', 'io'))
op('fromtsv', ['g'], lambda t, ctx: etl.fromtsv(_wr(ctx, 'a.tsv', lambda p: etl.totsv(t, p))), ('ctx', 'io'))
op('fromcsv(gz)', ['g'], lambda t, ctx: etl.fromcsv(_wr(ctx, 'a.csv.gz', lambda p: etl.tocsv(t, p))), ('ctx', 'io'))
op('fromcsv(header)', ['g'], lambda t, ctx: etl.fromcsv(_wr(ctx, 'h.csv', lambda p: etl.tocsv(t, p)),
                                                         header=['a', 'b', 'c']), ('ctx', 'io'),
   zero=lambda ts: [('k', 'v', 'x')])
op('frompickle', ['g'], lambda t, ctx: etl.frompickle(_wr(ctx, 'a.p', lambda p: etl.topickle(t, p))), ('ctx', 'io'))
op('fromtext', ['g'], lambda t, ctx: etl.fromtext(_wr(ctx, 'a.txt', lambda p: etl.totext(
    t, p, template='{k}|{v}|{x}\n', prologue='k|v|x\n'))), ('ctx', 'io'), zero=lambda ts: [('k|v|x',)])
op('fromjson', ['g'], lambda t, ctx: etl.fromjson(_wr(ctx, 'a.json', lambda p: etl.tojson(t, p)),
                                                  header=['k', 'v', 'x']), ('ctx', 'io'))
op('fromjson(lines)', ['g'], lambda t, ctx: etl.fromjson(_wr(ctx, 'l.json', lambda p: etl.tojson(t, p, lines=True)),
                                                         lines=True, header=['k', 'v', 'x']), ('ctx', 'io'))
op('fromdicts(list)', ['g'], lambda t: etl.fromdicts(list(etl.dicts(t)), header=['k', 'v', 'x']), ('io',))
op('fromdicts(list,noheader)', ['g'], lambda t: etl.fromdicts(list(etl.dicts(t))), ('io', 'hdrdep'), zero='skip')
op('fromdicts(gen,header)', ['g'], lambda t: etl.fromdicts((d for d in list(etl.dicts(t))), header=['k', 'v', 'x']),
   ('io', 'stateful'))
op('fromdicts(gen,sample1)', ['g'], lambda t: etl.fromdicts((d for d in list(etl.dicts(t))), sample=1),
   ('io', 'stateful', 'hdrdep'), zero='skip')
op('fromdicts(gen)', ['g'], lambda t: etl.fromdicts((d for d in list(etl.dicts(t)))), ('io', 'stateful', 'hdrdep'),
   zero='skip')
op('fromcolumns', ['g'], lambda t: etl.fromcolumns([list(c) for c in _cols(t)], header=['k', 'v', 'x']), ('io',))
op('fromxml', ['g'], lambda t, ctx: etl.fromxml(_wr(ctx, 'a.xml', lambda p: etl.toxml(t, p)), 'tbody/tr', 'td'),
   ('ctx', 'io'), zero='skip')
op('fromdb', ['g'], lambda t, ctx: etl.fromdb(_mkdb(ctx, t), 'SELECT * FROM t'), ('ctx', 'io'))
op('fromcsv(memory)', ['g'], lambda t: etl.fromcsv(_mem(lambda s: etl.tocsv(t, s))), ('io',))
op('fromtext(memory)', ['g'], lambda t: etl.fromtext(_mem(lambda s: etl.totext(
    t, s, template='{k}|{v}|{x}\n', prologue='k|v|x\n'))), ('io',), zero=lambda ts: [('k|v|x',)])
op('frompickle(memory)', ['g'], lambda t: etl.frompickle(_mem(lambda s: etl.topickle(t, s))), ('io',))
op('fromjson(memory)', ['g'], lambda t: etl.fromjson(_mem(lambda s: etl.tojson(t, s)), header=['k', 'v', 'x']), ('io',))
# presorted merges stream their inputs (only the laziness check may feed them unsorted counting sources)
op('mergesort(presorted,stream)', ['g', 'same'], lambda a, b: etl.mergesort(a, b, key='k', presorted=True),
   ('stream:0', 'passall', 'c02only', 'presorted'), zero='skip')
op('mergesort(presorted,key=None,stream)', ['g', 'same'], lambda a, b: etl.mergesort(a, b, presorted=True),
   ('stream:0', 'passall', 'c02only', 'presorted'), zero='skip')
# presorted=True turns the sort-backed operators into streaming ones (laziness check only: the counting
# sources of kind dup / inc ARE sorted by k)
PS = ('stream:0', 'passall', 'c02only', 'presorted')
for _nm, _f in [('join', etl.join), ('leftjoin', etl.leftjoin), ('rightjoin', etl.rightjoin),
                ('outerjoin', etl.outerjoin), ('lookupjoin', etl.lookupjoin)]:
    op('%s(presorted,dupkeys,stream)' % _nm, ['dup', 'dup2'],
       (lambda f: lambda a, b: f(a, b, key='k', presorted=True))(_f), PS, zero='skip')
    op('%s(presorted,inckeys,stream)' % _nm, ['inc', 'inc2'],
       (lambda f: lambda a, b: f(a, b, key='k', presorted=True))(_f), PS, zero='skip')
op('antijoin(presorted,stream)', ['inc', 'dup2'], lambda a, b: etl.antijoin(a, b, key='k', presorted=True), PS, zero='skip')
op('complement(presorted,stream)', ['inc', 'dup'], lambda a, b: etl.complement(a, b, presorted=True), PS, zero='skip')
op('intersection(presorted,stream)', ['inc', 'inc'], lambda a, b: etl.intersection(a, b, presorted=True),
   ('stream:0', 'c02only', 'presorted'), zero='skip')
op('rowreduce(presorted,stream)', ['inc'], lambda t: etl.rowreduce(t, 'k', _reducer, header=['k', 's'], presorted=True), PS, zero='skip')
op('aggregate(len,presorted,stream)', ['inc'], lambda t: etl.aggregate(t, 'k', len, presorted=True), PS, zero='skip')
op('aggregate(multi,presorted,stream)', ['inc'], lambda t: etl.aggregate(t, 'k', OrderedDict([('n', len), ('vs', ('v', list))]),
                                                                   presorted=True), PS, zero='skip')
op('fold(presorted,stream)', ['inc'], lambda t: etl.fold(t, 'k', operator.add, 'v', presorted=True), PS, zero='skip')
op('groupselectfirst(presorted,stream)', ['inc'], lambda t: etl.groupselectfirst(t, 'k', presorted=True), PS, zero='skip')
op('groupselectlast(presorted,stream)', ['inc'], lambda t: etl.groupselectlast(t, 'k', presorted=True), PS, zero='skip')
op('mergeduplicates(presorted,stream)', ['inc'], lambda t: etl.mergeduplicates(t, 'k', presorted=True), PS, zero='skip')
op('rowgroupmap(presorted,stream)', ['inc'], lambda t: etl.rowgroupmap(t, 'k', _groupmapper, header=['k', 'n'], presorted=True),
   PS, zero='skip')
op('distinct(presorted,stream)', ['inc'], lambda t: etl.distinct(t, 'k', presorted=True), PS, zero='skip')
op('distinct(count,presorted,stream)', ['inc'], lambda t: etl.distinct(t, 'k', count='n', presorted=True), PS, zero='skip')
op('unique(presorted,stream)', ['inc'], lambda t: etl.unique(t, 'k', presorted=True), PS, zero='skip')
op('duplicates(presorted,dupkeys,stream)', ['dup'], lambda t: etl.duplicates(t, 'k', presorted=True), PS, zero='skip')
op('merge(presorted,stream)', ['inc', 'inc2'], lambda a, b: etl.merge(a, b, key='k', presorted=True), PS, zero='skip')
op('conflicts(presorted,dupkeys,stream)', ['dup'], lambda t: etl.conflicts(t, 'k', presorted=True), PS, zero='skip')
op('unjoin(presorted,stream)[0]', ['inc'], lambda t: etl.unjoin(t, 'k', presorted=True)[0], PS, zero='skip')
# ---- tee views (outside C01 by the statement; inside C02/C03/C20) --------------------------
op('teetext(prologue,epilogue)', ['g'], lambda t, ctx: etl.teetext(
    t, os.path.join(ctx, 'tee2.txt'), template='{k}|{v}\n', prologue='k|v\n', epilogue='end\n'), ('ctx', 'notee') + S0)
op('teecsv(memory)', ['g'], lambda t: etl.teecsv(t, etl.MemorySource()), ('notee',) + S0)
op('teehtml(caption)', ['g'], lambda t, ctx: etl.teehtml(t, os.path.join(ctx, 'tee2.html'), caption='cap',
                                                         index_header=True), ('ctx', 'notee') + S0)
op('teecsv', ['g'], lambda t, ctx: etl.teecsv(t, os.path.join(ctx, 'tee.csv')), ('ctx', 'notee') + S0)
op('teetsv', ['g'], lambda t, ctx: etl.teetsv(t, os.path.join(ctx, 'tee.tsv')), ('ctx', 'notee') + S0)
op('teepickle', ['g'], lambda t, ctx: etl.teepickle(t, os.path.join(ctx, 'tee.p')), ('ctx', 'notee') + S0)
op('teetext', ['g'], lambda t, ctx: etl.teetext(t, os.path.join(ctx, 'tee.txt'), template='{k}|{v}\n'),
   ('ctx', 'notee') + S0)
op('teehtml', ['g'], lambda t, ctx: etl.teehtml(t, os.path.join(ctx, 'tee.html')), ('ctx', 'notee') + S0)
# per-row / per-cell style callables take a different branch of TeeHTMLView.__iter__ (wave 9)
op('teehtml(tr_style callable)', ['g'], lambda t, ctx: etl.teehtml(
    t, os.path.join(ctx, 'tee3.html'), tr_style=_trstyle), ('ctx', 'notee') + S0)
op('teehtml(td_styles callable)', ['g'], lambda t, ctx: etl.teehtml(
    t, os.path.join(ctx, 'tee4.html'), td_styles=_tdstyle), ('ctx', 'notee') + S0)


# ---- helper callables (module level so that they have stable names) -------------------------

def _trstyle(row):
    return 'color: red'


def _tdstyle(v):
    return 'color: blue'


def _ctxquery(prv, cur, nxt):
    return (None if prv is None else prv[0], cur[0], None if nxt is None else nxt[0])


def _rowgen(r):
    yield [r.k, 'v', r.v]
    yield [r.k, 'x', r.x]


def _groupmapper(key, group):
    n = 0
    for _ in group:
        n += 1
    yield (key, n)


def _reducer(key, group):
    return [key, sum(r[1] for r in group)]


class _NullOut(object):
    def write(self, s):
        pass

    def flush(self):
        pass


def _quiet_logger():
    import logging
    lg = logging.getLogger('mc.quiet')
    lg.propagate = False
    if not lg.handlers:
        lg.addHandler(logging.NullHandler())
    return lg


def _rnd_int():
    import random
    return random.randint(0, 1000)


def _rnd_float():
    import random
    return random.random()


def _tolerate_empty(f):
    try:
        return f()
    except ValueError:
        return None


def _wr(ctx, name, writer):
    # the written file is an immutable input: written once per scratch directory
    p = os.path.join(ctx, name)
    if not os.path.exists(p):
        writer(p)
    return p


def _mem(writer):
    """An in-memory source holding what `writer` wrote (a fresh MemorySource per view)."""
    src = etl.MemorySource()
    writer(src)
    return etl.MemorySource(src.getvalue())


def _cols(t):
    rs = [tuple(r) for r in t]
    hdr, data = rs[0], rs[1:]
    return [[_pad(r, len(hdr))[i] for r in data] for i in range(len(hdr))]


def _mkdb(ctx, t):
    p = os.path.join(ctx, 'a.db')
    if os.path.exists(p):
        return sqlite3.connect(p)
    conn = sqlite3.connect(p)
    conn.execute('CREATE TABLE t (k TEXT, v INTEGER, x TEXT)')
    rs = [tuple(r) for r in t][1:]
    conn.executemany('INSERT INTO t VALUES (?, ?, ?)', [_pad(r, 3) for r in rs])
    conn.commit()
    return conn


def select(pred):
    return [o for o in OPS if pred(o)]
