"""Boring reference semantics, written from petl's documentation.  Imports nothing from petl."""
import collections
import datetime
import decimal
import functools
import itertools

NUMERIC = (bool, int, float, decimal.Decimal)


# ---------------------------------------------------------------------------------------------
# C04: the ordering  None < numbers < everything else; bytes < text; unrelated types by type name;
# lists/tuples element-wise (interchangeable); native order inside one type.
# ---------------------------------------------------------------------------------------------

def vclass(v):
    if v is None:
        return 0
    if isinstance(v, NUMERIC):
        return 1
    return 2


def tname(v):
    """Type name used to order unrelated types (Python-2 names: bytes is 'str', text is 'unicode')."""
    if isinstance(v, bytes):
        return 'str'
    if isinstance(v, str):
        return 'unicode'
    if isinstance(v, (list, tuple)):
        return 'tuple'
    return type(v).__name__


def cmp(a, b):
    """-1, 0, +1 under the documented ordering."""
    ca, cb = vclass(a), vclass(b)
    if ca != cb:
        return -1 if ca < cb else 1
    if ca == 0:
        return 0
    if ca == 1:
        return -1 if a < b else (1 if b < a else 0)
    sa, sb = isinstance(a, (list, tuple)), isinstance(b, (list, tuple))
    if sa and sb:
        for x, y in zip(a, b):
            c = cmp(x, y)
            if c:
                return c
        return -1 if len(a) < len(b) else (1 if len(a) > len(b) else 0)
    na, nb = tname(a), tname(b)
    if na != nb:
        return -1 if na < nb else 1
    if a == b:
        return 0
    return -1 if a < b else 1


def lt(a, b):
    return cmp(a, b) < 0


def eq(a, b):
    return cmp(a, b) == 0


def le(a, b):
    return cmp(a, b) <= 0


sortkey = functools.cmp_to_key(cmp)


def cell(row, i, missing=None):
    return row[i] if i < len(row) else missing


def keyof(row, idx):
    """Key of a row for a list of field indices: the cell itself for one index, a tuple otherwise;
    cells beyond the end of a short row read as None."""
    if len(idx) == 1:
        return cell(row, idx[0])
    return tuple(cell(row, i) for i in idx)


def stable_sort(rows, idx=None, reverse=False):
    """Stable sort of `rows` by the key at field indices idx (None: whole row, lexical).
    reverse=True is non-increasing order with equal keys kept in input order (as list.sort does)."""
    if idx is None:
        kf = lambda r: sortkey(tuple(r))
    else:
        kf = lambda r: sortkey(keyof(r, idx))
    return sorted(rows, key=kf, reverse=reverse)


def is_sorted(keys, reverse=False, strict=False):
    for a, b in zip(keys, keys[1:]):
        c = cmp(a, b)
        if reverse:
            c = -c
        if c > 0 or (strict and c == 0):
            return False
    return True


def resolve(hdr, spec):
    """Documented field selection: an int smaller than the header length is an index (takes
    priority); otherwise match str() of header values left to right, each position used once."""
    flds = [str(h) for h in hdr]
    if not isinstance(spec, (list, tuple)):
        spec = (spec,)
    out = []
    for s in spec:
        if isinstance(s, int) and not isinstance(s, bool) and s < len(hdr):
            out.append(s)
        elif isinstance(s, bool) and s < len(hdr):
            out.append(int(s))
        elif s in flds:
            i = flds.index(s)
            out.append(i)
            flds[i] = None
        else:
            raise LookupError(s)
    return out
