"""E1 — stateless depth-first explorer over live objects.

A node is the event history that reaches it (generators cannot be copied): to visit a node the
world is rebuilt and the history replayed.  Replayed observations must equal the recorded ones
(divergence is a harness error, never a verdict).  Default choice (keep acting on the running
iterator) first; deviation-bounded: a child whose accumulated deviation cost exceeds the bound is
not generated.  node_check runs in EVERY node on the node's own (disposable) world.

Harness protocol
    reset()                      -> world
    enabled(world)               -> [(event, cost)]   canonical order, default first
    apply(world, event)          -> observation       (comparable with ==, codec-encodable)
    step_check(world, event, obs)-> None | (expected, observed, msg)
    node_check(world, history)   -> None | (expected, observed, msg)     (may destroy the world)
    abstract(world)              -> hashable          (for counting distinct abstract states only)
    close(world)                 -> None              (release resources)
"""


class Divergence(Exception):
    pass


class Stats(object):
    def __init__(self):
        self.nodes = 0
        self.leaves = 0
        self.edges = 0
        self.events_executed = 0
        self.max_depth = 0
        self.pruned_by_bound = 0
        self.violating_nodes = 0


def _visit(h, hist, obs):
    """Rebuild the world, replay hist[:-1] (checking observations), execute hist[-1]."""
    world = h.reset()
    n = len(hist)
    for k in range(n - 1):
        o = h.apply(world, hist[k])
        if o != obs[k]:
            h.close(world)
            raise Divergence('replay diverged at step %d of %r: recorded %r, got %r'
                             % (k, hist, obs[k], o))
    if n:
        o = h.apply(world, hist[-1])
        return world, o
    return world, None


def explore(h, bound, acc, case_of, group_prefix='', stats=None, node_check=True, count_nontrivial=None):
    """Explore all histories of harness h with accumulated deviation cost <= bound (None: unbounded).

    case_of(history) -> replayable case dict.  Violations are recorded in acc; a violating node is
    not expanded (its descendants would repeat the same failure).
    """
    st = stats or Stats()
    stack = [((), (), 0)]
    while stack:
        hist, obs, dev = stack.pop()
        world, o = _visit(h, hist, obs)
        st.nodes += 1
        st.events_executed += len(hist)
        if hist:
            st.edges += 1
            obs = obs + (o,)
        st.max_depth = max(st.max_depth, len(hist))
        acc.states += 1
        acc.evals += 1
        bad = None
        if hist:
            acc.transitions += 1
            r = h.step_check(world, hist[-1], o)
            if r is not None:
                bad = ('step', r)
        if bad is None:
            en = h.enabled(world)
            acc.abstract_state(h.abstract(world))
            if count_nontrivial is not None and count_nontrivial(world, hist):
                acc.nontrivial += 1
            if node_check:
                r = h.node_check(world, hist)   # may destroy world; nothing below uses it
                acc.evals += 1
                if r is not None:
                    bad = ('node', r)
        h.close(world)
        del world
        if bad is not None:
            st.violating_nodes += 1
            kind, (exp, got, msg) = bad
            acc.violation(group_prefix + msg.split(':')[0], case_of(list(hist)), exp, got,
                          '%s after history %r' % (msg, list(hist)))
            continue
        if not en:
            st.leaves += 1
            acc.outcome(obs)
            continue
        children = []
        for ev, cost in en:
            d = dev + cost
            if bound is not None and d > bound:
                st.pruned_by_bound += 1
                continue
            children.append((hist + (ev,), obs, d))
        if not children:
            st.leaves += 1
            acc.outcome(obs)
        for c in reversed(children):
            stack.append(c)
    return st


def replay(h, history, node_check=True):
    """Run one history in a fresh world with the step oracle on every event and the node oracle at
    the end.  Returns None if everything holds, else (where, expected, observed, msg)."""
    world = h.reset()
    try:
        for k, ev in enumerate(history):
            if isinstance(ev, list):
                ev = tuple(ev)
            o = h.apply(world, ev)
            r = h.step_check(world, ev, o)
            if r is not None:
                return ('step %d %r' % (k, ev),) + tuple(r)
        if node_check:
            r = h.node_check(world, tuple(history))
            if r is not None:
                return ('node',) + tuple(r)
    finally:
        h.close(world)
    return None


def count_nodes(n_events_per_iter, k):
    """Number of interleaving prefixes of k sequences of n events (for reporting only)."""
    import math
    total = 0

    def rec(rem, acc_count):
        pass
    # closed form: number of tuples (a1..ak), 0<=ai<=n, weighted by multinomial
    from itertools import product
    for tup in product(range(n_events_per_iter + 1), repeat=k):
        s = sum(tup)
        m = math.factorial(s)
        for a in tup:
            m //= math.factorial(a)
        total += m
    return total
