"""setup_cmd: nothing to build (petl is imported from /repo's working tree); verify the environment."""
import importlib
import os
import sys


def main():
    import petl
    src = os.path.realpath(os.path.dirname(petl.__file__))
    print('python %s; petl from %s' % (sys.version.split()[0], src))
    if not src.startswith('/repo/'):
        print('WARNING: petl is not imported from /repo', file=sys.stderr)
    from . import env
    d = env.scratch_root()
    assert os.path.isdir(d)
    n = 0
    for i in range(1, 21):
        name = 'mc.checks.c%02d' % i
        try:
            importlib.import_module(name)
            n += 1
        except ModuleNotFoundError as e:
            if e.name != name:
                raise
    print('selftest ok: %d check modules import' % n)
    return 0
