"""C02 — pipelines are lazy: nothing is read at construction, O(k) afterwards.

E2 over programs: every streaming operator of the catalogue, every pipeline of them up to depth 2
(depth 3 in thorough) on instrumented sources of two lengths, followed by every consumer, for every k.
Oracle: (1) after construction every source has handed out 0 data rows; (2) k output rows pull at most
k + 16 per stage (+ declared read-ahead) rows when every stage keeps all rows; (3) the number of rows
pulled for k output rows is the same for a 128-row and a 4096-row source.  File extractors: bytes
handed out by the raw file for k rows are the same for a short and a long file.
"""
import io
import itertools
import os
import shutil

import petl as etl

from .. import catalogue as C
from .. import env
from ..sources import CountingTable

ID = 'C02'
LEVEL = 'model_checking'
ENGINE = 'E2 exhaustive enumeration of operator pipelines x consumers x k x source lengths'
RULE = ('programs = every composable pipeline of streaming catalogue operators up to the depth bound (composable: '
        'runs without exception on a plain 6-row table) x consumer {islice, head, rowslice, look, see} x k in 0..8 x '
        'N in {128, 4096}; non-trivial = the pipeline delivered k >= 1 rows without exhausting the shorter source')
ASSUMPTIONS = ['two source lengths (128, 4096) and k <= 8 stand for "all lengths / all k"',
               'slack of 16 rows per stage is "a small constant"',
               'filters are only required to be length-independent (clause 3), not k+c (clause 2)']

N1, N2 = 128, 4096
KS = list(range(0, 9))
KS2 = (0, 1, 2, 5, 8)     # depth >= 2
SLACK = 16
CONSUMERS = ('islice', 'head', 'rowslice', 'look', 'see', 'slice', 'index', 'look(simple)', 'look(minimal)', 'lookstr',
             'repr(config)')
READAHEAD = {'unpackdict(sample)': 2, 'unpackdict(sample1)': 1, 'unpackdict(sample0)': 0, 'fromdicts(list,sample)': 3}

_STREAM = None


def stream_ops():
    return [o for o in C.OPS if o.stream is not None and 'eager' not in o.tags]


def setup(tier, seed):
    global _STREAM
    import logging
    logging.getLogger('petl.io.db').setLevel(logging.ERROR)     # "cursor is not recommended" warnings
    _STREAM = stream_ops()


def consume(view, consumer, k):
    """Obtain the first k data rows through the given consumer; returns number of items obtained."""
    if consumer == 'islice':
        return len(list(itertools.islice(iter(view), k + 1)))     # header + k rows
    if consumer == 'head':
        return len(list(etl.head(view, k)))
    if consumer == 'rowslice':
        return len(list(etl.rowslice(view, k)))
    if consumer == 'slice':
        return len(list(view[:k + 1]))                              # container slice syntax
    if consumer == 'index':
        try:
            view[k]                                                 # k-th item (0 = header)
        except IndexError:
            return 0
        return k + 1
    if consumer == 'look':
        if k == 0:
            return 0
        return len(repr(etl.look(view, limit=k))) and k + 1
    if consumer == 'see':
        if k == 0:
            return 0
        return len(repr(etl.see(view, limit=k))) and k + 1
    if consumer in ('look(simple)', 'look(minimal)'):
        if k == 0:
            return 0
        return len(repr(etl.look(view, limit=k, style=consumer[5:-1]))) and k + 1
    if consumer == 'lookstr':
        if k == 0:
            return 0
        return len(str(etl.lookstr(view, limit=k))) and k + 1
    if consumer == 'repr(config)':
        # repr() of a table renders it through look() with the configured style and limit
        if k == 0:
            return 0
        import petl.config
        saved = (petl.config.look_style, petl.config.look_limit)
        petl.config.look_style, petl.config.look_limit = ('minimal' if k % 2 else 'simple'), k
        try:
            return len(repr(view if isinstance(view, etl.Table) else etl.wrap(view))) and k + 1
        finally:
            petl.config.look_style, petl.config.look_limit = saved
    raise ValueError(consumer)


class Built(object):
    pass


def build(names, N, ctx, plain=False):
    """Build the pipeline names[0] -> names[1] -> ...; the streamed input of the first stage has N rows."""
    srcs = []

    def mk(kind, n, exempt=False):
        s = C.table(kind, n) if plain else CountingTable(kind, n)
        if not exempt:
            srcs.append(s)
        return s
    first = C.BY_NAME[names[0]]
    # the build side of a hash join / hash set operation is materialised by design as soon as an iterator
    # (even a header read) is requested: it is outside the guarantee (DESIGN.md C02)
    fs = first.stream if first.stream is not None else 0
    ins = [mk(kd, N if i == fs else 3, exempt=(i != fs and first.name.startswith('hash')))
           for i, kd in enumerate(first.kinds)]
    main = ins[fs]
    v = first.build(ins, ctx)
    for nm in names[1:]:
        o = C.BY_NAME[nm]
        ins = [v if i == o.stream else mk(kd, 3, exempt=o.name.startswith('hash')) for i, kd in enumerate(o.kinds)]
        v = o.build(ins, ctx)
    b = Built()
    b.view, b.main, b.srcs = v, main, srcs
    return b


def composable(names, ctx):
    try:
        for nm in names[:-1]:
            if 'container' in C.BY_NAME[nm].tags:
                return False    # values/dicts/... are not tables: only meaningful as the last stage
        b = build(names, 6, ctx, plain=True)
        for _ in itertools.islice(b.view, 12):
            pass
        return True
    except Exception:
        return False


def check_pipeline(names, ctx, ks, consumers):
    """Returns list of (signature, detail-dict) failures for one pipeline."""
    bad = []
    passall = all('passall' in C.BY_NAME[n].tags for n in names)
    if passall and len(names) > 1:
        # 'keeps every row' is declared for the operator's own input kind; in a pipeline the cells may have
        # changed type (e.g. after convertnumbers), so confirm it on a plain 24-row input
        try:
            b = build(names, 24, ctx, plain=True)
            passall = sum(1 for _ in itertools.islice(b.view, 1, None)) >= 24
        except Exception:
            passall = False
    ahead = sum(READAHEAD.get(n, 0) for n in names)
    nontrivial = 0
    evals = 0
    if 'container' in C.BY_NAME[names[-1]].tags:
        consumers = [c for c in consumers if c in ('islice', 'slice', 'index')]
    # availability: does the shorter source deliver k rows at all (selective filters may not)?
    avail = {}
    for k in ks:
        try:
            b = build(names, N1, ctx)
            avail[k] = consume(b.view, 'islice', k) >= k + 1
        except Exception:
            avail[k] = True     # reported below, by the consumer loop
    for consumer in consumers:
        for k in ks:
            pulls = []
            for N in (N1, N2):
                b = build(names, N, ctx)
                c0 = [s.datarows for s in b.srcs]
                evals += 1
                # a stage below skip() sees a data row as its header: header reads may then pull one row each
                # and a data-dependent header (unpackdict sampling) costs its declared read-ahead
                hdrshift = sum(3 for nm in names if nm.startswith('skip(')) + ahead   # 1 row + an upstream look-ahead of <= 2
                if sum(c0) > hdrshift:
                    bad.append(('data rows read at construction', {'consumer': consumer, 'k': k, 'N': N,
                                                                    'pulled': c0}))
                    break
                try:
                    got = consume(b.view, consumer, k)
                except Exception as e:
                    bad.append(('raises on counting source', {'consumer': consumer, 'k': k, 'N': N,
                                                              'exc': type(e).__name__}))
                    break
                pulls.append((b.main.datarows, got))
            if len(pulls) < 2:
                continue
            (p1, g1), (p2, g2) = pulls
            if not avail[k]:
                continue    # selective filter: the shorter source does not hold k matching rows at all
            if p1 >= N1 and not passall:
                continue    # a selective stage let nothing through: rows came from elsewhere (e.g. a second input)
            if k >= 1:
                nontrivial += 1
            if p1 != p2:
                bad.append(('pull count depends on source length', {'consumer': consumer, 'k': k,
                                                                     'pulls': {'N=%d' % N1: p1, 'N=%d' % N2: p2}}))
            elif passall and p1 > k + SLACK * len(names) + ahead + 1:
                bad.append(('pulls exceed k + constant', {'consumer': consumer, 'k': k, 'pulled': p1,
                                                           'allowed': k + SLACK * len(names) + ahead + 1}))
    return bad, nontrivial, evals


def construct_ops():
    """Every non-streaming view of the catalogue (sort-backed operators, tail, transpose, crossjoin, recast,
    pivot, counters ...): the statement's first clause — construction reads no data row — covers them too."""
    return [o for o in C.OPS if o.stream is None and o.kinds and not (o.tags & {'eager', 'io', 'ctx', 'c02only'})]


def check_construction(names, ctx):
    bad = []
    ahead = sum(READAHEAD.get(n, 0) for n in names)
    hdrshift = sum(3 for nm in names if nm.startswith('skip(')) + ahead   # 1 row + an upstream look-ahead of <= 2
    pulls = []
    for N in (N1, N2):
        try:
            b = build(names, N, ctx)
        except Exception as e:
            bad.append(('raises at construction on counting source', {'N': N, 'exc': type(e).__name__}))
            break
        c0 = [s.datarows for s in b.srcs]
        pulls.append(sum(c0))
        if sum(c0) > hdrshift:
            bad.append(('data rows read at construction', {'k': 0, 'N': N, 'pulled': c0}))
            break
    return bad


# ---- file extractors: bytes handed out by the raw file -----------------------------------------

class CountingRaw(io.FileIO):
    def __init__(self, path, counter):
        io.FileIO.__init__(self, path, 'rb')
        self._counter = counter

    def read(self, size=-1):
        b = io.FileIO.read(self, size)
        self._counter[0] += len(b)
        return b

    def readall(self):
        b = io.FileIO.readall(self)
        self._counter[0] += len(b)
        return b

    def readinto(self, buf):
        n = io.FileIO.readinto(self, buf)
        self._counter[0] += n or 0
        return n


class CountingSource(object):
    def __init__(self, path):
        self.path = path
        self.counter = [0]
        self.opens = 0

    def open(self, mode='rb'):
        assert mode == 'rb'
        self.opens += 1
        return CountingRaw(self.path, self.counter)


EXTRACTORS = {
    'fromcsv': (lambda p: etl.tocsv, lambda s: etl.fromcsv(s)),
    'fromtsv': (lambda p: etl.totsv, lambda s: etl.fromtsv(s)),
    'fromcsv(header)': (lambda p: etl.tocsv, lambda s: etl.fromcsv(s, header=['a', 'b', 'c'])),
    'frompickle': (lambda p: etl.topickle, lambda s: etl.frompickle(s)),
    'fromtext': (lambda p: (lambda t, path: etl.totext(t, path, template='{k}|{v}|{x}\n', prologue='k|v|x\n')),
                 lambda s: etl.fromtext(s)),
    'fromtext(strip)': (lambda p: (lambda t, path: etl.totext(t, path, template='{k}|{v}|{x}\n')),
                        lambda s: etl.fromtext(s, strip=False, header=None)),
}
FILE_N1, FILE_N2 = 3000, 30000


def extractor_files(ctx, name):
    writer = EXTRACTORS[name][0](None)
    paths = []
    for N in (FILE_N1, FILE_N2):
        p = os.path.join(ctx, '%s-%d.dat' % (name.replace('(', '_').replace(')', ''), N))
        if not os.path.exists(p):
            writer(C.table('g', N), p)
        paths.append(p)
    return paths


def check_extractor(name, second, ctx, ks, consumers):
    bad = []
    nontrivial = evals = 0
    paths = extractor_files(ctx, name)
    mkview = EXTRACTORS[name][1]
    for consumer in consumers:
        for k in ks:
            res = []
            gots = []
            for p in paths:
                src = CountingSource(p)
                v = mkview(src)
                if second is not None:
                    o = C.BY_NAME[second]
                    ins = [v if i == o.stream else CountingTable(kd, 3) for i, kd in enumerate(o.kinds)]
                    v = o.build(ins, ctx)
                evals += 1
                c0 = src.counter[0]
                # header rows may be consulted at construction (convertall & co): at most one I/O buffer
                if c0 > 2 * 8192 or (second is None and (c0 or src.opens)):
                    bad.append(('file data read at construction', {'consumer': consumer, 'k': k,
                                                                    'bytes': c0, 'opens': src.opens}))
                    break
                try:
                    got = consume(v, consumer, k)
                except Exception as e:
                    bad.append(('raises on counting source', {'consumer': consumer, 'k': k,
                                                              'exc': type(e).__name__}))
                    break
                res.append(src.counter[0])
                gots.append(got)
            if len(res) < 2:
                continue
            if second is not None and gots[0] < k + 1:
                continue    # selective filter: fewer than k rows exist in the shorter file
            if k >= 1:
                nontrivial += 1
            if res[0] != res[1]:
                bad.append(('bytes read depend on file length', {'consumer': consumer, 'k': k,
                                                                  'bytes': {'short': res[0], 'long': res[1]}}))
            elif res[0] >= os.path.getsize(paths[0]):
                bad.append(('whole file read for k rows', {'consumer': consumer, 'k': k, 'bytes': res[0]}))
    return bad, nontrivial, evals


def extractor_composable(name, second, ctx):
    try:
        p = extractor_files(ctx, name)[0]
        v = EXTRACTORS[name][1](p)
        o = C.BY_NAME[second]
        ins = [etl.head(v, 6) if i == o.stream else C.table(kd, 3) for i, kd in enumerate(o.kinds)]
        if 'container' in o.tags:
            return False
        for _ in itertools.islice(o.build(ins, ctx), 12):
            pass
        return True
    except Exception:
        return False


# ---- generator-fed extractors ---------------------------------------------------------------------

class CountingDicts(object):
    """A one-shot generator of N dicts that counts how many it has handed out."""

    def __init__(self, n):
        self.n = n
        self.pulled = 0

    def gen(self):
        for i in range(self.n):
            self.pulled += 1
            yield dict(zip(C.HEADERS['g'], C.row('g', i)))


class FakeCursor(object):
    """Minimal DB-API cursor over N generated rows that counts the rows fetched.  `lazy`: the description is
    only populated by the first fetch (server-side cursors, as the fromdb docstring recommends for streaming)."""

    DESC = tuple((f, None, None, None, None, None, None) for f in C.HEADERS['g'])

    def __init__(self, cd, lazy):
        self.cd, self.lazy, self.i, self.description = cd, lazy, 0, None

    def execute(self, query, *args, **kwargs):
        self.i = 0
        self.description = None if self.lazy else self.DESC
        return self

    def __iter__(self):
        return self

    def __next__(self):
        if self.i >= self.cd.n:
            raise StopIteration
        self.description = self.DESC
        self.cd.pulled += 1
        self.i += 1
        return C.row('g', self.i - 1)

    def fetchall(self):
        out = []
        while True:
            try:
                out.append(next(self))
            except StopIteration:
                return out

    def fetchone(self):
        try:
            return next(self)
        except StopIteration:
            return None

    def fetchmany(self, size=1):
        out = []
        for _ in range(size):
            r = self.fetchone()
            if r is None:
                break
            out.append(r)
        return out

    def executemany(self, query, seq):
        raise NotImplementedError

    def close(self):
        pass


class FakeConnection(object):
    def __init__(self, cd, lazy):
        self.cd, self.lazy = cd, lazy

    def cursor(self):
        return FakeCursor(self.cd, self.lazy)

    def commit(self):
        pass

    def rollback(self):
        pass


GENSOURCES = {
    'fromdb(connection)': (lambda cd: etl.fromdb(FakeConnection(cd, False), 'SELECT * FROM t'), 1),
    'fromdb(connection,lazy description)': (lambda cd: etl.fromdb(FakeConnection(cd, True), 'SELECT * FROM t'), 1),
    'fromdb(cursor factory,lazy description)': (lambda cd: etl.fromdb(lambda: FakeCursor(cd, True), 'SELECT * FROM t'), 1),
    'fromdb(cursor)': (lambda cd: etl.fromdb(FakeCursor(cd, False), 'SELECT * FROM t'), 1),
    # name: (factory(counting dicts) -> view, declared read-ahead)
    'fromdicts(generator,sample=3)': (lambda cd: etl.fromdicts(cd.gen(), sample=3), 3),
    'fromdicts(generator,sample=1)': (lambda cd: etl.fromdicts(cd.gen(), sample=1), 1),
    'fromdicts(generator,header)': (lambda cd: etl.fromdicts(cd.gen(), header=['k', 'v', 'x']), 0),
    'fromdicts(generator,header,sample=2)': (lambda cd: etl.fromdicts(cd.gen(), header=['k', 'v', 'x'], sample=2), 2),
}


def check_gensource(name, second, ctx, ks, consumers):
    bad = []
    nontrivial = evals = 0
    mk, ahead = GENSOURCES[name]
    for consumer in consumers:
        for k in ks:
            res = []
            for N in (N1, N2):
                cd = CountingDicts(N)
                try:
                    v = mk(cd)
                    if second is not None:
                        o = C.BY_NAME[second]
                        v = o.build([v if i == o.stream else CountingTable(kd, 3) for i, kd in enumerate(o.kinds)], ctx)
                except Exception as e:
                    bad.append(('raises at construction', {'consumer': consumer, 'k': k, 'exc': type(e).__name__}))
                    break
                evals += 1
                if cd.pulled > ahead:
                    bad.append(('data read at construction', {'consumer': consumer, 'k': k, 'N': N, 'pulled': cd.pulled}))
                    break
                try:
                    got = consume(v, consumer, k)
                except Exception as e:
                    bad.append(('raises on counting source', {'consumer': consumer, 'k': k, 'exc': type(e).__name__}))
                    break
                res.append((cd.pulled, got))
            if len(res) < 2:
                continue
            (p1, g1), (p2, g2) = res
            if second is not None and g1 < k + 1:
                continue
            if k >= 1:
                nontrivial += 1
            if p1 != p2:
                bad.append(('pull count depends on source length', {'consumer': consumer, 'k': k,
                                                                     'pulls': {'N=%d' % N1: p1, 'N=%d' % N2: p2}}))
            elif second is None and p1 > k + ahead + SLACK:
                bad.append(('pulls exceed k + constant', {'consumer': consumer, 'k': k, 'pulled': p1}))
    return bad, nontrivial, evals


def gensource_composable(name, second, ctx):
    try:
        o = C.BY_NAME[second]
        if 'container' in o.tags or len(o.kinds) != 1:
            return False
        v = GENSOURCES[name][0](CountingDicts(6))
        for _ in itertools.islice(o.build([v], ctx), 12):
            pass
        return True
    except Exception:
        return False


# ---- work items ---------------------------------------------------------------------------------

def _reps():
    """One representative per view implementation for the depth-3 sweep."""
    seen, out = set(), []
    for o in _STREAM:
        if 'passall' not in o.tags or len(o.kinds) != 1 or o.kinds[0] != 'g':
            continue
        key = o.name.split('(')[0]
        if key in seen:
            continue
        seen.add(key)
        out.append(o.name)
    return out


def items(tier, seed):
    out = []
    names = [o.name for o in _STREAM]
    for nm in names:
        out.append({'kind': 'pipe', 'first': nm, 'depth': 2})
    for nm in EXTRACTORS:
        out.append({'kind': 'extract', 'name': nm})
    for o in construct_ops():
        out.append({'kind': 'construct', 'first': o.name})
    for nm in GENSOURCES:
        out.append({'kind': 'gensource', 'name': nm})
    if tier == 'thorough':
        reps = _reps()
        for a in reps:
            for b in reps:
                out.append({'kind': 'pipe3', 'first': a, 'second': b})
    k = seed % len(out)
    return out[k:] + out[:k]


def cost(item):
    return {'pipe': 5, 'extract': 20, 'pipe3': 1, 'construct': 2, 'gensource': 10}[item['kind']]


def bounds(tier, seed):
    return {'streaming_call_forms': len(_STREAM), 'depth': 2 if tier == 'quick' else 3, 'k': KS,
            'k_depth2': list(KS2), 'source_lengths': [N1, N2], 'consumers': list(CONSUMERS), 'slack_per_stage': SLACK,
            'extractors': sorted(EXTRACTORS), 'construction_only_views': len(construct_ops()), 'file_rows': [FILE_N1, FILE_N2],
            'depth3_representatives': len(_reps()) if tier == 'thorough' else 0}


def _ctx():
    d = os.path.join(env.worker_dir(), 'c02')
    os.makedirs(d, exist_ok=True)
    return d


def _report(acc, names, bad, kind='pipe'):
    for sig, detail in bad:
        case = {'kind': kind, 'names': list(names)}
        case.update(detail)
        acc.violation('%s | %s' % (names[-1] if kind == 'pipe' else names[0], sig), case, None, detail,
                      '%s: pipeline %s' % (sig, ' -> '.join(str(n) for n in names)))


def run_item(item, acc):
    ctx = _ctx()
    if item['kind'] == 'pipe':
        first = item['first']
        # depth 1: all consumers, all k
        bad, nt, ev = check_pipeline([first], ctx, KS, CONSUMERS)
        acc.evals += ev
        acc.transitions += ev
        acc.states += 1
        acc.nontrivial += nt
        acc.counters['pipelines:depth1'] += 1
        acc.outcome((first, len(bad)))
        _report(acc, [first], bad)
        if bad:
            return
        acc.sample({'pipeline': [first], 'consumers': list(CONSUMERS), 'k': KS}, 1)
        for o2 in _STREAM:
            names = [first, o2.name]
            if not composable(names, ctx):
                acc.counters['pipelines:not-composable'] += 1
                continue
            bad, nt, ev = check_pipeline(names, ctx, KS2, ('islice', 'look', 'slice'))
            acc.evals += ev
            acc.transitions += ev
            acc.states += 1
            acc.nontrivial += nt
            acc.counters['pipelines:depth2'] += 1
            acc.outcome((first, o2.name, nt))
            _report(acc, names, bad)
    elif item['kind'] == 'gensource':
        name = item['name']
        bad, nt, ev = check_gensource(name, None, ctx, KS, ('islice', 'head', 'look', 'slice'))
        acc.evals += ev
        acc.transitions += ev
        acc.states += 1
        acc.nontrivial += nt
        acc.counters['generator sources'] += 1
        acc.outcome((name, len(bad)))
        _report(acc, [name, None], bad, kind='gensource')
        for o2 in _STREAM:
            if not gensource_composable(name, o2.name, ctx):
                continue
            bad, nt, ev = check_gensource(name, o2.name, ctx, (0, 1, 3, 8), ('islice',))
            acc.evals += ev
            acc.transitions += ev
            acc.states += 1
            acc.nontrivial += nt
            acc.counters['pipelines:generator source+op'] += 1
            acc.outcome((name, o2.name, nt))
            _report(acc, [name, o2.name], bad, kind='gensource')
    elif item['kind'] == 'construct':
        first = item['first']
        bad = check_construction([first], ctx)
        acc.evals += 2
        acc.transitions += 2
        acc.states += 1
        acc.counters['construct:depth1'] += 1
        acc.outcome((first, 'construct', len(bad)))
        _report(acc, [first], bad)
        if bad or 'hdrdep' in C.BY_NAME[first].tags:
            return      # a data-dependent header legitimately costs data when a later stage asks for it
        for o2 in _STREAM:
            if len(o2.kinds) != 1:
                continue
            names = [first, o2.name]
            if not composable(names, ctx):
                acc.counters['pipelines:not-composable'] += 1
                continue
            bad = check_construction(names, ctx)
            acc.evals += 2
            acc.transitions += 2
            acc.states += 1
            acc.nontrivial += 1
            acc.counters['construct:depth2'] += 1
            acc.outcome((first, o2.name, 'construct', len(bad)))
            _report(acc, names, bad)
    elif item['kind'] == 'pipe3':
        a, b = item['first'], item['second']
        if not composable([a, b], ctx):
            return
        for c in _reps():
            names = [a, b, c]
            if not composable(names, ctx):
                acc.counters['pipelines:not-composable'] += 1
                continue
            bad, nt, ev = check_pipeline(names, ctx, (0, 1, 3, 8), ('islice',))
            acc.evals += ev
            acc.transitions += ev
            acc.states += 1
            acc.nontrivial += nt
            acc.counters['pipelines:depth3'] += 1
            acc.outcome((a, b, c, nt))
            _report(acc, names, bad)
    else:
        name = item['name']
        bad, nt, ev = check_extractor(name, None, ctx, KS, CONSUMERS)
        acc.evals += ev
        acc.transitions += ev
        acc.states += 1
        acc.nontrivial += nt
        acc.counters['extractors'] += 1
        acc.outcome((name, len(bad)))
        _report(acc, [name, None], bad, kind='extract')
        acc.sample({'extractor': name, 'file_rows': [FILE_N1, FILE_N2]}, 1)
        for o2 in _STREAM:
            if len(o2.kinds) != 1:
                continue
            if not extractor_composable(name, o2.name, ctx):
                acc.counters['pipelines:not-composable'] += 1
                continue
            bad, nt, ev = check_extractor(name, o2.name, ctx, (0, 1, 3, 8), ('islice',))
            acc.evals += ev
            acc.transitions += ev
            acc.states += 1
            acc.nontrivial += nt
            acc.counters['pipelines:extractor+op'] += 1
            acc.outcome((name, o2.name, nt))
            _report(acc, [name, o2.name], bad, kind='extract')


def replay(case):
    ctx = _ctx()
    k = case.get('k', 1)
    consumer = case.get('consumer', 'islice')
    if case.get('consumer') is None and 'N' in case and case.get('k', 0) == 0 and C.BY_NAME[case['names'][0]].stream is None:
        bad = check_construction(case['names'], ctx)
        return (None, bad, 'laziness violated') if bad else None
    if case['kind'] == 'gensource':
        bad, _, _ = check_gensource(case['names'][0], case['names'][1], ctx, (k,), (consumer,))
        return (None, bad, 'laziness violated') if bad else None
    if case['kind'] == 'extract':
        name, second = case['names'][0], case['names'][1]
        bad, _, _ = check_extractor(name, second, ctx, (k,), (consumer,))
    else:
        bad, _, _ = check_pipeline(case['names'], ctx, (k,), (consumer,))
    return (None, bad, 'laziness violated') if bad else None
