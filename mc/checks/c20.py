"""C20 — tables with a header and no data rows are handled by every operator.

E2 over programs: every call form of the shared catalogue plus a local list (None-keyed / compound-keyed
join and set-operation forms, one-column tables, presorted forms, a few accessors the catalogue lacks)
x every assignment of {header-only, m-row} to the operator's table inputs with at least one header-only
x m in {1,2} (quick) / {1,2,3,4} (thorough) x four source container forms x two consecutive passes; plus
every depth-2 pipeline op2(op1(header-only table)) of unary call forms and every binary call form fed with
op1(header-only table) on either input.  Oracle: no exception; header as for non-empty input
(or the documented header when it depends on data); data rows per the zero-row definition.  Every direct
state is also run with the header-only input given as a zero-row VIEW of the same kind (16 field-agnostic
views: pass-through views over a header-only table and views that drop every row of a 2-row table).

Rendering accessors (look, lookall, lookstr, lookallstr, Table.look, repr, str, see, Table.see,
_repr_html_) are enumerated over their whole option space: style in {grid, simple, minimal} given by
argument and/or by petl.config.look_style, index_header by argument / config, truncate, width (argument /
config), limit (default / 1 / None, config) x four header shapes (3 fields, 1 field, 1-character names,
non-text names) x four container forms, and over every header-only VIEW op1(header-only table).
Oracle: no exception; text equals the reference rendering of the header lines (refs/vis.py) and equals the
rendering of the same table with one data row minus everything that belongs to the row.
"""
import collections
import itertools
import operator
import re
import shutil
import tempfile
from collections import OrderedDict

import petl as etl

from .. import catalogue as C
from .. import env
from ..refs import vis as V
from ..refs import zero as Z
from ..sources import freeze

ID = 'C20'
LEVEL = 'model_checking'
ENGINE = 'E2 small-scope enumeration over operator programs with header-only inputs'
RULE = ('program = catalogue/local call form, or pipeline op2(op1(.)) of two unary call forms, or binary call form with '
        'op1(.) as one input; state = (program, '
        'assignment of {header-only, m data rows} to its table inputs with >=1 header-only, m, source container '
        'form tuple / list / iterable-only object / petl wrapper); each state is built and iterated twice on '
        'the real petl.  Oracle: never raises; header equals the header of the same call on non-empty inputs (a '
        'documented header for data-dependent ones); data rows equal the zero-row instance of the reference '
        'definition as a multiset (none; the other side\'s rows for outer joins/complements/antijoin/cat/stack/'
        'mergesort; one row for key-less simple aggregates; 0 or 1 rows for key-less multi-aggregates).  A state '
        'is non-trivial when it is a binary operator with exactly one header-only side, or a container form other '
        'than the plain tuple table, or its header-only input is a zero-row view (cat/head/tail/rowslice/sort/'
        'distinct/cache over a header-only table; head(0)/tail(0)/rowslice/select(False)/rowlenselect over a 2-row '
        'table), or a pipeline that is applicable (runs on 2-row input).  Rendering states = '
        '(rendering function, options by argument, petl.config values, header shape, container form | first-stage '
        'view); petl.config is set inside try/finally and restored; a rendering state is applicable when the same '
        'call works on the table with one data row; oracle: no exception, text == reference header lines == '
        'one-row rendering minus the row part')
ASSUMPTIONS = [
    'header-only = a header row and zero data rows; a table without any row at all is outside the statement',
    'excluded: fromdicts without header= on empty input (no header can exist); valuecount (0/0); '
    'randomtable/dummytable/empty (no table input); addcolumn(long) (c02only)',
    'petl/transform/intervals.py: every public operator has a call form; each is probed on 2-row inputs and only '
    'those failing there with ImportError (intervaltree missing: interval joins, intervalsubtract, interval '
    'lookups) are excluded - collapsedintervals (all forms) needs no package and is enumerated; the excluded '
    'names are listed in bounds.excluded and join the space as soon as the package is importable (exception-'
    'freeness and header only, their rows could not be validated without it)',
    'no-raise only (rows not compared): limits/stats/parsecounts/parsecounter (min or mean of nothing is not '
    'defined), fromxml (no header row survives the round trip); skip(1) must give an entirely empty table; merge with one non-empty side: header and row count only',
    'field arguments of every call form name fields that exist in the header',
    'renderings: data cells of the one-row comparison table are one-digit ints (never wider than a field name); '
    'calls that fail with data rows too (e.g. _repr_html_(truncate=) on non-text field names) are not applicable; '
    'display()/displayall() need IPython and are represented by _repr_html_',
]

FORMS = ('tuple', 'list', 'iter', 'wrap')
EXCLUDED = {'fromdicts(list,noheader)': 'fromdicts without header on empty input is out of scope',
            'fromdicts(gen,sample1)': 'fromdicts without header on empty input is out of scope',
            'fromdicts(gen)': 'fromdicts without header on empty input is out of scope'}


class IterTable(object):
    """A table that is only iterable (no len, no indexing); every pass is a fresh generator."""

    def __init__(self, rows):
        self._rows = tuple(rows)

    def __iter__(self):
        return (r for r in self._rows)


# table kinds the shared catalogue does not have (interval operators): header, row(i)
LOCAL_KINDS = {
    'iv': (('k', 'start', 'stop', 'v'), lambda i: ('xy'[i % 2], 1 + 2 * i, 4 + 2 * i, 'p%d' % i)),
    'ivb': (('k', 'start', 'stop', 'w'), lambda i: ('xy'[i % 2], 2 + 3 * i, 5 + 3 * i, 'q%d' % i)),
    'iv2': (('start', 'stop'), lambda i: (1 + 2 * i, 4 + 2 * i)),
    'ivr': (('begin', 'end', 'k'), lambda i: (1 + 2 * i, 4 + 2 * i, 'xy'[i % 2])),
}


def kind_header(kind):
    return LOCAL_KINDS[kind][0] if kind in LOCAL_KINDS else C.HEADERS[kind]


def plain_table(kind, n):
    if kind in LOCAL_KINDS:
        hdr, row = LOCAL_KINDS[kind]
        return (hdr,) + tuple(row(i) for i in range(n))
    return C.table(kind, n)


def mk(kind, n, form):
    t = plain_table(kind, n)
    if form == 'tuple':
        return t
    if form == 'list':
        return [list(r) for r in t]
    if form == 'iter':
        return IterTable(t)
    if form == 'wrap':
        return etl.wrap([list(r) for r in t])
    raise KeyError(form)


# ---------------------------------------------------------------------------------------------
# local call forms (not in the shared catalogue)
# ---------------------------------------------------------------------------------------------

LOCAL = []
LOCAL_BY_NAME = {}


def L(name, kinds, fn, tags=(), zero='none'):
    o = C.Op(name, kinds, fn, tags, zero)
    assert name not in LOCAL_BY_NAME and name not in C.BY_NAME, name
    LOCAL.append(o)
    LOCAL_BY_NAME[name] = o
    return o


def _srt(t):
    """Input for presorted=True forms: rows ordered by the first field (text keys in kinds g/g2/same).
    A table without data rows is passed through untouched so that the container form is kept."""
    rows = [tuple(r) for r in t]
    if len(rows) <= 2:
        return t
    return [rows[0]] + sorted(rows[1:], key=lambda r: r[0])


def _srtrow(t):
    rows = [tuple(r) for r in t]
    if len(rows) <= 2:
        return t
    return [rows[0]] + sorted(rows[1:], key=lambda r: (r[0], r[1], r[2]))


def _jz(lo, ro, key='k', first=False):
    return lambda ts: Z.join(ts[0], ts[1], key, key, leftouter=lo, rightouter=ro, first_only=first)


_JOINS = [('join', etl.join, _jz(False, False)), ('leftjoin', etl.leftjoin, _jz(True, False)),
          ('rightjoin', etl.rightjoin, _jz(False, True)), ('outerjoin', etl.outerjoin, _jz(True, True)),
          ('lookupjoin', etl.lookupjoin, _jz(True, False, first=True)),
          ('hashjoin', etl.hashjoin, _jz(False, False)), ('hashleftjoin', etl.hashleftjoin, _jz(True, False)),
          ('hashrightjoin', etl.hashrightjoin, _jz(False, True)),
          ('hashlookupjoin', etl.hashlookupjoin, _jz(True, False, first=True))]
_ANTI = [('antijoin', etl.antijoin), ('hashantijoin', etl.hashantijoin)]


def _local_ops():
    def az(key):
        return lambda ts: Z.antijoin(ts[0], ts[1], key, key)

    # -- keys that are None (kind 'fill': k is None on odd rows, v mostly None) on either side
    for nm, f, z in _JOINS:
        L('%s(Nonekey,left)' % nm, ['fill', 'g2'], (lambda f: lambda a, b: f(a, b, key='k'))(f), zero=z)
        L('%s(Nonekey,right)' % nm, ['g2', 'fill'], (lambda f: lambda a, b: f(a, b, key='k'))(f), zero=z)
    for nm, f in _ANTI:
        L('%s(Nonekey,left)' % nm, ['fill', 'g2'], (lambda f: lambda a, b: f(a, b, key='k'))(f), zero=az('k'))
        L('%s(Nonekey,right)' % nm, ['g2', 'fill'], (lambda f: lambda a, b: f(a, b, key='k'))(f), zero=az('k'))
    for nm, f, z in [('leftjoin', etl.leftjoin, _jz(True, False)), ('outerjoin', etl.outerjoin, _jz(True, True)),
                     ('rightjoin', etl.rightjoin, _jz(False, True)),
                     ('lookupjoin', etl.lookupjoin, _jz(True, False, first=True))]:
        L('%s(Nonekey,left,b1)' % nm, ['fill', 'g2'],
          (lambda f: lambda a, b: f(a, b, key='k', buffersize=1))(f), zero=z)
    L('antijoin(Nonekey,left,b1)', ['fill', 'g2'], lambda a, b: etl.antijoin(a, b, key='k', buffersize=1),
      zero=az('k'))
    # -- compound keys (fields k, v shared by kinds fill / same)
    ck = ('k', 'v')
    for nm, f, _ in _JOINS:
        z = {'join': _jz(False, False, ck), 'leftjoin': _jz(True, False, ck), 'rightjoin': _jz(False, True, ck),
             'outerjoin': _jz(True, True, ck), 'lookupjoin': _jz(True, False, ck, True),
             'hashjoin': _jz(False, False, ck), 'hashleftjoin': _jz(True, False, ck),
             'hashrightjoin': _jz(False, True, ck), 'hashlookupjoin': _jz(True, False, ck, True)}[nm]
        L('%s(compound,left)' % nm, ['fill', 'same'], (lambda f: lambda a, b: f(a, b, key=('k', 'v')))(f), zero=z)
        L('%s(compound,right)' % nm, ['same', 'fill'], (lambda f: lambda a, b: f(a, b, key=('k', 'v')))(f), zero=z)
    for nm, f in _ANTI:
        L('%s(compound,left)' % nm, ['fill', 'same'], (lambda f: lambda a, b: f(a, b, key=('k', 'v')))(f),
          zero=az(ck))
    # -- set operations over rows that contain None
    cz = lambda strict=False: (lambda ts: Z.complement(ts[0], ts[1], strict))
    iz = lambda ts: Z.intersection(ts[0], ts[1])
    for side, kinds in (('left', ['fill', 'same']), ('right', ['same', 'fill'])):
        L('complement(None,%s)' % side, kinds, lambda a, b: etl.complement(a, b), zero=cz())
        L('complement(None,%s,strict)' % side, kinds, lambda a, b: etl.complement(a, b, strict=True), zero=cz(True))
        L('hashcomplement(None,%s)' % side, kinds, lambda a, b: etl.hashcomplement(a, b), zero=cz())
        L('intersection(None,%s)' % side, kinds, lambda a, b: etl.intersection(a, b), zero=iz)
        L('hashintersection(None,%s)' % side, kinds, lambda a, b: etl.hashintersection(a, b), zero=iz)
        L('diff[0](None,%s)' % side, kinds, lambda a, b: etl.diff(a, b)[0],
          zero=lambda ts: Z.complement(ts[1], ts[0]))
        L('diff[1](None,%s)' % side, kinds, lambda a, b: etl.diff(a, b)[1], zero=cz())
        L('mergesort(None,%s)' % side, kinds, lambda a, b: etl.mergesort(a, b, key='k'),
          zero=lambda ts: Z.union_all(*ts))
        L('cat(None,%s)' % side, kinds, lambda a, b: etl.cat(a, b), zero=lambda ts: Z.cat(*ts))
    # -- unary operators over rows that contain None
    for nm, fn, z in [
        ('sort(None)', lambda t: etl.sort(t, 'k'), lambda ts: Z.datarows(ts[0])),
        ('duplicates(None rows)', lambda t: etl.duplicates(t, 'k'), 'none'),
        ('unique(None rows)', lambda t: etl.unique(t, 'k'), 'none'),
        ('distinct(None rows,count)', lambda t: etl.distinct(t, 'k', count='n'), 'none'),
        ('aggregate(None rows)', lambda t: etl.aggregate(t, 'k', len), 'none'),
        ('selectnone(all)', lambda t: etl.selectnone(t, 'v'), 'none'),
    ]:
        L(nm, ['fill'], fn, zero=z)
    # -- presorted forms (inputs ordered by this module with plain Python)
    for nm, f, z in [('join', etl.join, _jz(False, False)), ('leftjoin', etl.leftjoin, _jz(True, False)),
                     ('rightjoin', etl.rightjoin, _jz(False, True)), ('outerjoin', etl.outerjoin, _jz(True, True)),
                     ('lookupjoin', etl.lookupjoin, _jz(True, False, first=True))]:
        L('%s(presorted)' % nm, ['g', 'g2'],
          (lambda f: lambda a, b: f(_srt(a), _srt(b), key='k', presorted=True))(f), zero=z)
    L('antijoin(presorted)', ['g', 'g2'], lambda a, b: etl.antijoin(_srt(a), _srt(b), key='k', presorted=True),
      zero=az('k'))
    L('complement(presorted)', ['g', 'same'],
      lambda a, b: etl.complement(_srtrow(a), _srtrow(b), presorted=True), zero=cz())
    L('intersection(presorted)', ['g', 'same'],
      lambda a, b: etl.intersection(_srtrow(a), _srtrow(b), presorted=True), zero=iz)
    for nm, fn in [
        ('duplicates(presorted)', lambda t: etl.duplicates(_srt(t), 'k', presorted=True)),
        ('unique(presorted)', lambda t: etl.unique(_srt(t), 'k', presorted=True)),
        ('distinct(presorted)', lambda t: etl.distinct(_srt(t), 'k', presorted=True)),
        ('distinct(presorted,count)', lambda t: etl.distinct(_srt(t), 'k', count='n', presorted=True)),
        ('conflicts(presorted)', lambda t: etl.conflicts(_srt(t), 'k', presorted=True)),
        ('aggregate(presorted)', lambda t: etl.aggregate(_srt(t), 'k', len, presorted=True)),
        ('aggregate(multi,presorted)',
         lambda t: etl.aggregate(_srt(t), 'k', OrderedDict([('n', len)]), presorted=True)),
        ('rowreduce(presorted)',
         lambda t: etl.rowreduce(_srt(t), 'k', C._reducer, header=['k', 'sum'], presorted=True)),
        ('mergeduplicates(presorted)', lambda t: etl.mergeduplicates(_srt(t), 'k', presorted=True)),
        ('fold(presorted)', lambda t: etl.fold(_srt(t), 'k', operator.add, 'v', presorted=True)),
        ('groupselectfirst(presorted)', lambda t: etl.groupselectfirst(_srt(t), 'k', presorted=True)),
        ('groupselectmin(presorted)', lambda t: etl.groupselectmin(_srt(t), 'k', 'v', presorted=True)),
        ('unjoin(key,presorted)[0]', lambda t: etl.unjoin(_srt(t), 'v', key='k', presorted=True)[0]),
        ('unjoin(key,presorted)[1]', lambda t: etl.unjoin(_srt(t), 'v', key='k', presorted=True)[1]),
        ('rowgroupmap(presorted)',
         lambda t: etl.rowgroupmap(_srt(t), 'k', C._groupmapper, header=['k', 'n'], presorted=True)),
    ]:
        L(nm, ['g'], fn)
    # -- key-less / callable-key aggregation forms
    L('aggregate(key=None,list)', ['g'], lambda t: etl.aggregate(t, None, list, 'v'), zero=lambda ts: [([],)])
    L('aggregate(key=None,multi list)', ['g'], lambda t: etl.aggregate(t, None, [('n', len), ('s', 'v', sum)]),
      zero='skip')
    L('aggregate(callable key,presorted)', ['g'],
      lambda t: etl.aggregate(_srt(t), lambda r: r[0], len, presorted=True))
    L('rowreduce(callable key,presorted)', ['g'],
      lambda t: etl.rowreduce(_srt(t), lambda r: r[0], C._reducer, header=['k', 'sum'], presorted=True))
    L('fold(no value)', ['g'], lambda t: etl.fold(t, 'k', lambda a, r: a + r[1], value=None, presorted=False))
    # -- three inputs
    L('cat(3)', ['g', 'g2', 'same'], lambda a, b, c: etl.cat(a, b, c), zero=lambda ts: Z.cat(*ts))
    L('stack(3)', ['g', 'g2', 'same'], lambda a, b, c: etl.stack(a, b, c), zero=lambda ts: Z.union_all(*ts))
    L('crossjoin(3)', ['g', 'g2', 'same'], lambda a, b, c: etl.crossjoin(a, b, c),
      zero=lambda ts: Z.crossjoin(*ts))
    L('annex(3)', ['g', 'g2', 'same'], lambda a, b, c: etl.annex(a, b, c),
      zero=lambda ts: [Z.pad(x, 3) + Z.pad(y, 3) + Z.pad(z, 3) for x, y, z in itertools.zip_longest(
          Z.datarows(ts[0]), Z.datarows(ts[1]), Z.datarows(ts[2]), fillvalue=())])
    L('mergesort(3)', ['g', 'same', 'same'], lambda a, b, c: etl.mergesort(a, b, c, key='k'),
      zero=lambda ts: Z.union_all(*ts))
    # -- accessors the catalogue lacks
    L('selectop', ['g'], lambda t: etl.selectop(t, 'v', 0, operator.gt))
    L('listoftuples', ['g'], lambda t: etl.listoftuples(t), ('eager',), zero='skip')
    L('tupleoflists', ['g'], lambda t: etl.tupleoflists(t), ('eager',), zero='skip')
    L('lookstr', ['g'], lambda t: repr(etl.lookstr(t)), ('eager',), zero='skip')
    L('lookallstr', ['g'], lambda t: repr(etl.lookallstr(t)), ('eager',), zero='skip')
    L('records(missing)', ['g'], lambda t: etl.records(t, missing='-'), ('container',))
    L('lookup(k,v)', ['g'], lambda t: etl.lookup(t, 'k', 'v'), ('eager',), zero='skip')
    L('lookup(compound)', ['g'], lambda t: etl.lookup(t, ('k', 'v'), 'x'), ('eager',), zero='skip')
    L('lookupone(nonstrict)', ['g'], lambda t: etl.lookupone(t, 'k', strict=False), ('eager',), zero='skip')
    L('isunique(compound)', ['g'], lambda t: etl.isunique(t, ('k', 'v')), ('eager',), zero='skip')
    L('issorted(reverse,strict)', ['g'], lambda t: etl.issorted(t, 'k', reverse=True, strict=True), ('eager',),
      zero='skip')
    L('nrows(view)', ['g'], lambda t: etl.nrows(etl.sort(t, 'k')), ('eager',), zero='skip')
    # -- one-column tables (w = 1)
    one = ['col1']
    two = ['col1', 'col1']
    ua = lambda ts: Z.union_all(*ts)
    for nm, fn, z in [
        ('cut', lambda t: etl.cut(t, 'v'), 'none'), ('cat', lambda t: etl.cat(t), 'none'),
        ('addfield', lambda t: etl.addfield(t, 'n', lambda r: r['v']), 'none'),
        ('addrownumbers', lambda t: etl.addrownumbers(t), 'none'),
        ('rowslice', lambda t: etl.rowslice(t, 1, 3), 'none'), ('head', lambda t: etl.head(t, 2), 'none'),
        ('tail', lambda t: etl.tail(t, 2), 'none'), ('convert', lambda t: etl.convert(t, 'v', str), 'none'),
        ('convertall', lambda t: etl.convertall(t, str), 'none'),
        ('select', lambda t: etl.select(t, lambda r: r.v > 1), 'none'),
        ('selectgt', lambda t: etl.selectgt(t, 'v', 0), 'none'),
        ('selectusingcontext', lambda t: etl.selectusingcontext(t, lambda p, c, n: True), 'none'),
        ('addfieldusingcontext', lambda t: etl.addfieldusingcontext(t, 'c', C._ctxquery), 'none'),
        ('sort(v)', lambda t: etl.sort(t, 'v'), 'none'), ('sort()', lambda t: etl.sort(t), 'none'),
        ('sort(b1)', lambda t: etl.sort(t, 'v', buffersize=1), 'none'),
        ('duplicates(v)', lambda t: etl.duplicates(t, 'v'), 'none'),
        ('duplicates()', lambda t: etl.duplicates(t), 'none'),
        ('unique(v)', lambda t: etl.unique(t, 'v'), 'none'), ('distinct()', lambda t: etl.distinct(t), 'none'),
        ('distinct(v)', lambda t: etl.distinct(t, 'v'), 'none'),
        ('distinct(count)', lambda t: etl.distinct(t, count='n'), 'none'),
        ('conflicts(v)', lambda t: etl.conflicts(t, 'v'), 'none'),
        ('aggregate(v,len)', lambda t: etl.aggregate(t, 'v', len), 'none'),
        ('aggregate(None,len)', lambda t: etl.aggregate(t, None, len), lambda ts: [(0,)]),
        ('aggregate(None,sum)', lambda t: etl.aggregate(t, None, sum, 'v'), lambda ts: [(0,)]),
        ('aggregate(multi)', lambda t: etl.aggregate(t, 'v', OrderedDict([('n', len)])), 'none'),
        ('rowreduce', lambda t: etl.rowreduce(t, 'v', lambda k, g: [k, sum(1 for _ in g)], header=['v', 'n']),
         'none'),
        ('groupselectfirst', lambda t: etl.groupselectfirst(t, 'v'), 'none'),
        ('groupselectmax', lambda t: etl.groupselectmax(t, 'v', 'v'), 'none'),
        ('mergeduplicates', lambda t: etl.mergeduplicates(t, 'v'), 'none'),
        ('melt(key)', lambda t: etl.melt(t, 'v'), 'none'),
        ('melt(variables)', lambda t: etl.melt(t, variables=['v']), 'none'),
        ('filldown', lambda t: etl.filldown(t), 'none'), ('filldown(v)', lambda t: etl.filldown(t, 'v'), 'none'),
        ('fillright', lambda t: etl.fillright(t), 'none'), ('fillleft', lambda t: etl.fillleft(t), 'none'),
        ('rename', lambda t: etl.rename(t, 'v', 'w'), 'none'),
        ('setheader', lambda t: etl.setheader(t, ['a']), 'none'),
        ('extendheader', lambda t: etl.extendheader(t, ['e']), 'none'),
        ('pushheader', lambda t: etl.pushheader(t, ['a']), lambda ts: [('v',)]),
        ('prefixheader', lambda t: etl.prefixheader(t, 'p_'), 'none'),
        ('sortheader', lambda t: etl.sortheader(t), 'none'),
        ('replace', lambda t: etl.replace(t, 'v', 1, 9), 'none'),
        ('valuecounts', lambda t: etl.valuecounts(t, 'v'), 'none'),
        ('rowlenselect', lambda t: etl.rowlenselect(t, 1), 'none'),
        ('skipcomments', lambda t: etl.skipcomments(t, '#'), 'none'),
        ('movefield', lambda t: etl.movefield(t, 'v', 0), 'none'),
        ('unflatten(field)', lambda t: etl.unflatten(t, 'v', 2), 'none'),
        ('fieldmap', lambda t: etl.fieldmap(t, OrderedDict([('V', 'v')])), 'none'),
        ('rowmap', lambda t: etl.rowmap(t, lambda r: [r[0]], header=['v']), 'none'),
        ('wrap', lambda t: etl.wrap(t), 'none'), ('cache', lambda t: C.etl_cache(t), 'none'),
    ]:
        L('w1:' + nm, one, fn, zero=z)
    for nm, fn in [('values', lambda t: etl.values(t, 'v')), ('data', lambda t: etl.data(t)),
                   ('dicts', lambda t: etl.dicts(t)), ('records', lambda t: etl.records(t)),
                   ('namedtuples', lambda t: etl.namedtuples(t)), ('flatten', lambda t: etl.flatten(t))]:
        L('w1:' + nm, one, fn, ('container',))
    for nm, fn in [('lookup', lambda t: etl.lookup(t, 'v')), ('lookupone', lambda t: etl.lookupone(t, 'v')),
                   ('dictlookup', lambda t: etl.dictlookup(t, 'v')), ('columns', lambda t: etl.columns(t)),
                   ('nrows', lambda t: etl.nrows(t)), ('isunique', lambda t: etl.isunique(t, 'v')),
                   ('issorted', lambda t: etl.issorted(t, 'v')), ('look', lambda t: repr(etl.look(t))),
                   ('see', lambda t: repr(etl.see(t))), ('listoflists', lambda t: etl.listoflists(t)),
                   ('facet', lambda t: etl.facet(t, 'v')), ('valuecounter', lambda t: etl.valuecounter(t, 'v')),
                   ('header', lambda t: etl.header(t)), ('fieldnames', lambda t: etl.fieldnames(t))]:
        L('w1:' + nm, one, fn, ('eager',), zero='skip')
    jw = lambda lo, ro, first=False: (lambda ts: Z.join(ts[0], ts[1], 'v', 'v', lo, ro, first_only=first))
    for nm, f, z in [('join', etl.join, jw(False, False)), ('leftjoin', etl.leftjoin, jw(True, False)),
                     ('rightjoin', etl.rightjoin, jw(False, True)), ('outerjoin', etl.outerjoin, jw(True, True)),
                     ('lookupjoin', etl.lookupjoin, jw(True, False, True)),
                     ('hashjoin', etl.hashjoin, jw(False, False)), ('hashleftjoin', etl.hashleftjoin, jw(True, False)),
                     ('hashrightjoin', etl.hashrightjoin, jw(False, True)),
                     ('hashlookupjoin', etl.hashlookupjoin, jw(True, False, True))]:
        L('w1:%s(key)' % nm, two, (lambda f: lambda a, b: f(a, b, key='v'))(f), zero=z)
        L('w1:%s(natural)' % nm, two, (lambda f: lambda a, b: f(a, b))(f), zero=z)
    for nm, f in _ANTI:
        L('w1:%s' % nm, two, (lambda f: lambda a, b: f(a, b, key='v'))(f),
          zero=lambda ts: Z.antijoin(ts[0], ts[1], 'v', 'v'))
    for nm, fn, z in [
        ('cat(2)', lambda a, b: etl.cat(a, b), ua), ('stack(2)', lambda a, b: etl.stack(a, b), ua),
        ('mergesort', lambda a, b: etl.mergesort(a, b, key='v'), ua),
        ('mergesort(lex)', lambda a, b: etl.mergesort(a, b), ua),
        ('crossjoin', lambda a, b: etl.crossjoin(a, b), lambda ts: Z.crossjoin(*ts)),
        ('annex', lambda a, b: etl.annex(a, b),
         lambda ts: [Z.pad(x, 1) + Z.pad(y, 1) for x, y in itertools.zip_longest(
             Z.datarows(ts[0]), Z.datarows(ts[1]), fillvalue=())]),
        ('complement', lambda a, b: etl.complement(a, b), cz()),
        ('complement(strict)', lambda a, b: etl.complement(a, b, strict=True), cz(True)),
        ('hashcomplement', lambda a, b: etl.hashcomplement(a, b), cz()),
        ('recordcomplement', lambda a, b: etl.recordcomplement(a, b), cz()),
        ('intersection', lambda a, b: etl.intersection(a, b), iz),
        ('hashintersection', lambda a, b: etl.hashintersection(a, b), iz),
        ('diff[0]', lambda a, b: etl.diff(a, b)[0], lambda ts: Z.complement(ts[1], ts[0])),
        ('diff[1]', lambda a, b: etl.diff(a, b)[1], cz()),
    ]:
        L('w1:' + nm, two, fn, zero=z)


_local_ops()


def _interval_ops():
    """Every public operator of petl/transform/intervals.py.  Tag 'optional': the call form joins the space
    only if it works on non-empty input in this environment (most of them import the optional package
    intervaltree lazily; collapsedintervals does not need it) - see optional_status()."""
    opt = ('optional',)
    two = ['iv', 'ivb']
    # collapsedintervals is a generator function: it yields intervals, no header row ('container')
    L('collapsedintervals', ['iv'], lambda t: etl.collapsedintervals(t), opt + ('container',))
    L('collapsedintervals(two fields)', ['iv2'], lambda t: etl.collapsedintervals(t), opt + ('container',))
    L('collapsedintervals(start=,stop=)', ['ivr'],
      lambda t: etl.collapsedintervals(t, start='begin', stop='end'), opt + ('container',))
    L('collapsedintervals(positional)', ['ivr'], lambda t: etl.collapsedintervals(t, 'begin', 'end'),
      opt + ('container',))
    L('collapsedintervals(key)', ['iv'], lambda t: etl.collapsedintervals(t, key='k'), opt + ('container',))
    L('collapsedintervals(key,start=,stop=)', ['ivr'],
      lambda t: etl.collapsedintervals(t, start='begin', stop='end', key='k'), opt + ('container',))
    L('Table.collapsedintervals', ['iv'], lambda t: etl.wrap(t).collapsedintervals(), opt + ('container',))
    L('Table.collapsedintervals(key)', ['iv'], lambda t: etl.wrap(t).collapsedintervals(key='k'),
      opt + ('container',))
    # operators that need intervaltree: exception-freeness and the usual header only (their zero-row rows
    # could not be validated here without the package)
    for nm, fn in [
        ('intervaljoin', lambda a, b: etl.intervaljoin(a, b)),
        ('intervaljoin(key)', lambda a, b: etl.intervaljoin(a, b, lkey='k', rkey='k')),
        ('intervaljoin(include_stop)', lambda a, b: etl.intervaljoin(a, b, include_stop=True)),
        ('intervalleftjoin', lambda a, b: etl.intervalleftjoin(a, b)),
        ('intervalleftjoin(key)', lambda a, b: etl.intervalleftjoin(a, b, lkey='k', rkey='k')),
        ('intervalantijoin', lambda a, b: etl.intervalantijoin(a, b)),
        ('intervalantijoin(key)', lambda a, b: etl.intervalantijoin(a, b, lkey='k', rkey='k')),
        ('intervaljoinvalues', lambda a, b: etl.intervaljoinvalues(a, b, value='w')),
        ('intervalsubtract', lambda a, b: etl.intervalsubtract(a, b)),
        ('intervalsubtract(key)', lambda a, b: etl.intervalsubtract(a, b, lkey='k', rkey='k')),
    ]:
        L(nm, two, fn, opt, zero='skip')
    for nm, fn in [
        ('intervallookup', lambda t: etl.intervallookup(t)),
        ('intervallookup(value)', lambda t: etl.intervallookup(t, value='v')),
        ('intervallookupone', lambda t: etl.intervallookupone(t, strict=False)),
        ('intervalrecordlookup', lambda t: etl.intervalrecordlookup(t)),
        ('intervalrecordlookupone', lambda t: etl.intervalrecordlookupone(t, strict=False)),
        ('facetintervallookup', lambda t: etl.facetintervallookup(t, 'k')),
        ('facetintervallookupone', lambda t: etl.facetintervallookupone(t, 'k', strict=False)),
        ('facetintervalrecordlookup', lambda t: etl.facetintervalrecordlookup(t, 'k')),
        ('facetintervalrecordlookupone',
         lambda t: etl.facetintervalrecordlookupone(t, 'k', 'start', 'stop', strict=False)),
    ]:
        L(nm, ['iv'], fn, opt + ('eager',), zero='skip')


_interval_ops()

_OPTIONAL = {}


def optional_status():
    """name -> None (works here) | reason it is excluded.  Probed on 2-row inputs: a call form tagged
    'optional' that fails with an ImportError there needs a package that is not installed."""
    if not _OPTIONAL:
        for o in LOCAL:
            if 'optional' not in o.tags:
                continue
            try:
                v = o.build([mk(kd, 2, 'tuple') for kd in o.kinds])
                if 'eager' not in o.tags:
                    for _ in v:
                        pass
                _OPTIONAL[o.name] = None
            except ImportError as e:
                _OPTIONAL[o.name] = 'needs an optional package that is not installed (%s)' % e
            except Exception:
                _OPTIONAL[o.name] = None      # kept: a failure on non-empty input is reported by baseline()
    return _OPTIONAL


def by_name(name):
    o = C.BY_NAME.get(name)
    return o if o is not None else LOCAL_BY_NAME[name]


def all_ops():
    st = optional_status()
    return [o for o in C.OPS + LOCAL if 'c02only' not in o.tags and o.kinds and o.name not in EXCLUDED
            and st.get(o.name) is None]


def base(name):
    """Operator name without the call-form decoration (used for the violation group)."""
    if name.startswith('w1:'):
        name = name[3:]
    if name.startswith('Table.'):
        name = name[6:]
    return re.split(r'[(]', name)[0]


# ---------------------------------------------------------------------------------------------
# expectations: local overrides of catalogue zero classes (reason given), data-dependent headers, eager values
# ---------------------------------------------------------------------------------------------

def _merge_pred(ts, rows):
    """merge(a, b, key='k') = mergeduplicates(cat(a, b), 'k'): one output row per distinct key."""
    want = len(Z.distinct_keys([('k',)] + [(r[0],) for r in Z.union_all(*ts)], 'k'))
    if len(rows) != want:
        return 'expected one row per distinct key (%d), got %d rows' % (want, len(rows))
    return None


def _multiagg_pred(ts, rows):
    if len(rows) > 1:
        return 'key-less multi-aggregate over zero rows must give 0 or 1 rows, got %d' % len(rows)
    return None


ROWS_OVERRIDE = {
    # catalogue says 'skip' where a definition exists; and recorddiff[0] has the wrong field order there:
    # added = recordcomplement(b, a) keeps b's field order (see the recorddiff docstring)
    'recorddiff[0]': lambda ts: Z.datarows(ts[1]),
    'addcolumn': lambda ts: [(None, None, None, c) for c in (10, 20, 30)],
    'mergesort': lambda ts: Z.union_all(*ts),
    'mergesort(b1)': lambda ts: Z.union_all(*ts),
    'mergesort(presorted)': lambda ts: Z.union_all(*ts),
    'valuecounts': 'none', 'valuecounts(2)': 'none', 'typecounts': 'none',
    'transpose': lambda ts: [(h,) for h in Z.header(ts[0])[1:]],
    'skip(1)': 'noheader', 'fromxml': 'noraise',
    'merge': ('pred', _merge_pred),
    'aggregate(multi,key=None)': ('pred', _multiagg_pred),
    'aggregate(key=None,multi list)': ('pred', _multiagg_pred),
    'parsecounts': 'noraise',
}

HEADER_ZERO = {   # headers that depend on data: the documented header when there is no data
    'unpackdict(sample)': lambda ts: ('k', 'x'),
    'recast': lambda ts: ('k',),
    'recast(key)': lambda ts: ('k',),
    'transpose': lambda ts: (Z.header(ts[0])[0],),
    'pivot': lambda ts: ('k',),
    'unflatten': lambda ts: ('f0', 'f1'),
    'valuecounts': lambda ts: ('k', 'count', 'frequency'),
}


def _empty(ts, r):
    return None if len(r) == 0 else 'expected an empty result'


def _is(v):
    return lambda ts, r: None if (r == v and type(r) is type(v)) else 'expected %r' % (v,)


def _isstr(ts, r):
    return None if isinstance(r, str) else 'expected text'


def _hdr_table_only(ts, r):
    rows = [tuple(x) for x in r]
    return None if len(rows) == 1 else 'expected a table with a header and no data rows'


def _kvals(t, i=0):
    return set(r[i] for r in Z.datarows(t))


EAGER = {
    'lookup': _empty, 'lookupone': _empty, 'dictlookup': _empty, 'dictlookupone': _empty,
    'recordlookup': _empty, 'recordlookupone': _empty, 'facetcolumns': _empty, 'facet': _empty,
    'lookup(k,v)': _empty, 'lookup(compound)': _empty, 'lookupone(nonstrict)': _empty,
    'w1:lookup': _empty, 'w1:lookupone': _empty, 'w1:dictlookup': _empty, 'w1:facet': _empty,
    'columns': lambda ts, r: None if dict(r) == dict((h, []) for h in Z.header(ts[0])) else 'expected empty columns',
    'w1:columns': lambda ts, r: None if dict(r) == {'v': []} else 'expected empty columns',
    'isunique': _is(True), 'isunique(compound)': _is(True), 'w1:isunique': _is(True),
    'issorted': _is(True), 'issorted(None)': _is(True), 'issorted(reverse,strict)': _is(True),
    'w1:issorted': _is(True),
    'nrows': _is(0), 'nrows(view)': _is(0), 'w1:nrows': _is(0),
    'valuecounter': _empty, 'typecounter': _empty, 'stringpatterncounter': _empty, 'w1:valuecounter': _empty,
    'header': lambda ts, r: None if tuple(r) == Z.header(ts[0]) else 'expected the header',
    'w1:header': lambda ts, r: None if tuple(r) == ('v',) else 'expected the header',
    'fieldnames': lambda ts, r: None if tuple(r) == Z.header(ts[0]) else 'expected the field names',
    'w1:fieldnames': lambda ts, r: None if tuple(r) == ('v',) else 'expected the field names',
    'listoflists': lambda ts, r: None if r == [list(Z.header(ts[0]))] else 'expected [header]',
    'w1:listoflists': lambda ts, r: None if r == [['v']] else 'expected [header]',
    'tupleoftuples': lambda ts, r: None if r == (Z.header(ts[0]),) else 'expected (header,)',
    'listoftuples': lambda ts, r: None if r == [Z.header(ts[0])] else 'expected [header]',
    'tupleoflists': lambda ts, r: None if r == (list(Z.header(ts[0])),) else 'expected (header,)',
    'look': _isstr, 'lookall': _isstr, 'see': _isstr, 'lookstr': _isstr, 'lookallstr': _isstr,
    'w1:look': _isstr, 'w1:see': _isstr,
    'typeset': _is(set()),
    'diffvalues': lambda ts, r: None if tuple(r) == (_kvals(ts[1]) - _kvals(ts[0]), _kvals(ts[0]) - _kvals(ts[1]))
    else 'expected (values only in b, values only in a)',
    'rowgroupby': _is([]),
    'stringpatterns': _hdr_table_only, 'rowlengths': _hdr_table_only,
}
EAGER_SAME_AS_NONEMPTY = {'diffheaders'}   # depends on the headers only


# ---------------------------------------------------------------------------------------------
# evaluation of one state
# ---------------------------------------------------------------------------------------------

def _ctxdir():
    return tempfile.mkdtemp(prefix='c20-', dir=env.worker_dir())


def evaluate(build, eager):
    """Build and fully iterate twice.  Returns ('value', v) | ('items', pass1, pass2) | ('exc', type, msg, stage)."""
    stage = 'construction'
    try:
        v = build()
        if eager:
            return ('value', v)
        stage = 'first pass'
        p1 = [freeze(x) for x in v]
        stage = 'second pass'
        p2 = [freeze(x) for x in v]
        return ('items', p1, p2)
    except Exception as e:
        return ('exc', type(e).__name__, re.sub(r' at 0x[0-9a-fA-F]+', '', str(e))[:160], stage)


def run_op(op, tables, eager=None):
    ctx = _ctxdir() if 'ctx' in op.tags else None
    try:
        return evaluate(lambda: op.build(tables, ctx=ctx), 'eager' in op.tags if eager is None else eager)
    finally:
        if ctx:
            shutil.rmtree(ctx, ignore_errors=True)


_BASE = {}


def baseline(op, m):
    """The same call on non-empty inputs (m rows each, plain tuple tables): header / eager value oracle."""
    k = (op.name, m)
    if k not in _BASE:
        r = run_op(op, [mk(kd, m, 'tuple') for kd in op.kinds])
        if r[0] == 'exc':
            raise RuntimeError('call form %s raises on %d-row inputs: %r' % (op.name, m, r))
        _BASE[k] = r
    return _BASE[k]


def rows_expectation(op):
    z = ROWS_OVERRIDE.get(op.name, op.zero)
    return z


# Zero-row VIEWS of any table kind, built with operators that take no field arguments: pass-through views over
# a header-only table (src rows 0) and views that drop every row of a non-empty table (src rows 2).
GENERIC_STAGES = OrderedDict([
    ('cat', (0, lambda t: etl.cat(t))),
    ('stack', (0, lambda t: etl.stack(t))),
    ('head(5)', (0, lambda t: etl.head(t, 5))),
    ('tail(5)', (0, lambda t: etl.tail(t, 5))),
    ('rowslice(0,None)', (0, lambda t: etl.rowslice(t, 0, None))),
    ('sort()', (0, lambda t: etl.sort(t))),
    ('sort(b1)', (0, lambda t: etl.sort(t, buffersize=1))),
    ('distinct()', (0, lambda t: etl.distinct(t))),
    ('skipcomments', (0, lambda t: etl.skipcomments(t, '#'))),
    ('cache', (0, lambda t: C.etl_cache(t))),
    ('head(0) of 2 rows', (2, lambda t: etl.head(t, 0))),
    ('tail(0) of 2 rows', (2, lambda t: etl.tail(t, 0))),
    ('rowslice(0,0) of 2 rows', (2, lambda t: etl.rowslice(t, 0, 0))),
    ('rowslice(2,None) of 2 rows', (2, lambda t: etl.rowslice(t, 2, None))),
    ('select(False) of 2 rows', (2, lambda t: etl.select(t, lambda r: False))),
    ('rowlenselect(99) of 2 rows', (2, lambda t: etl.rowlenselect(t, 99))),
])


def check_state(op, ns, form, m, via=None):
    """-> list of (signature, expected, observed, message); empty when the state is fine.
    via = (stage name, input position): that (header-only) input is the zero-row view GENERIC_STAGES[name]."""
    tables = [mk(kd, n, form) for kd, n in zip(op.kinds, ns)]
    plain = [plain_table(kd, n) for kd, n in zip(op.kinds, ns)]
    if via is not None:
        src, stage = GENERIC_STAGES[via[0]]
        tables[via[1]] = stage(mk(op.kinds[via[1]], src, form))
    r = run_op(op, tables)
    if r[0] == 'exc':
        return [('raises', 'no exception', r[1:], '%s raised %s during %s on a header-only input%s: %s'
                 % (op.name, r[1], r[3], '' if via is None else ' (the view %s)' % via[0], r[2]))]
    bad = []
    if 'eager' in op.tags:
        v = r[1]
        if op.name in EAGER_SAME_AS_NONEMPTY:
            b = baseline(op, m)[1]
            if freeze(b) != freeze(v):
                bad.append(('wrong value', freeze(b), freeze(v), '%s: value differs from the non-empty call' % op.name))
        elif op.name in EAGER and (all(n == 0 for n in ns) or op.name == 'diffvalues'):
            try:
                why = EAGER[op.name](plain, v)
            except Exception as e:   # result object of an unexpected kind
                why = 'result not inspectable: %s' % type(e).__name__
            if why:
                bad.append(('wrong value', why, repr(v)[:200], '%s on header-only input: %s' % (op.name, why)))
        return bad
    p1, p2 = r[1], r[2]
    if p1 != p2:
        bad.append(('second pass differs', p1, p2, '%s: second pass over the same view differs' % op.name))
    z = rows_expectation(op)
    if 'container' in op.tags:
        if all(n == 0 for n in ns) and p1:
            bad.append(('wrong rows', [], p1, '%s yields items for a header-only table' % op.name))
        return bad
    if z == 'noraise':
        return bad
    if z == 'noheader':
        if p1:
            bad.append(('wrong rows', [], p1, '%s: expected an entirely empty table' % op.name))
        return bad
    if not p1:
        bad.append(('no header', 'a header row', [], '%s yields nothing at all (not even a header)' % op.name))
        return bad
    hdr, rows = p1[0], p1[1:]
    if op.name in HEADER_ZERO:
        want = freeze(HEADER_ZERO[op.name](plain))
    elif 'hdrdep' in op.tags:
        want = None
    else:
        want = baseline(op, m)[1][0]
    if want is not None and hdr != want:
        bad.append(('wrong header', want, hdr, '%s: header on header-only input differs from its usual header'
                    % op.name))
    if z == 'skip':
        return bad
    if isinstance(z, tuple) and z[0] == 'pred':
        why = z[1](plain, rows)
        if why:
            bad.append(('wrong rows', why, rows, '%s: %s' % (op.name, why)))
        return bad
    exp = [] if z == 'none' else [freeze(tuple(x)) for x in z(plain)]
    if collections.Counter(exp) != collections.Counter(rows):
        bad.append(('wrong rows', sorted(exp, key=repr), sorted(rows, key=repr),
                    '%s: data rows differ from the zero-row definition' % op.name))
    return bad


# ---- depth-2 pipelines ------------------------------------------------------------------------

def unary_ops():
    return [o for o in all_ops() if len(o.kinds) == 1]


def stage1_ops():
    """First stages: unary call forms that yield a header-only TABLE for a header-only input."""
    out = []
    for o in unary_ops():
        if o.tags & {'eager', 'container', 'hdrdep'}:
            continue
        if rows_expectation(o) != 'none':
            continue
        out.append(o)
    return out


def pipe_build(o1, o2, table, ctxs):
    def build():
        mid = o1.build([table], ctx=ctxs[0])
        return o2.build([mid], ctx=ctxs[1])
    return build


def run_pipe(o1, o2, n, form):
    ctxs = [_ctxdir() if 'ctx' in o.tags else None for o in (o1, o2)]
    try:
        return evaluate(pipe_build(o1, o2, mk(o1.kinds[0], n, form), ctxs), 'eager' in o2.tags)
    finally:
        for c in ctxs:
            if c:
                shutil.rmtree(c, ignore_errors=True)


PIPE_ROWS_DEPEND_ON_HEADER = {'validate'}   # reports header problems as rows, whatever the data


def check_pipe(o1, o2, form, m=2):
    """-> (applicable, problems).  A pipeline is applicable when it runs on an m-row input."""
    full = run_pipe(o1, o2, m, 'tuple')
    if full[0] == 'exc':
        return False, []
    r = run_pipe(o1, o2, 0, form)
    name = '%s after %s' % (o2.name, o1.name)
    if r[0] == 'exc':
        return True, [('raises', 'no exception', r[1:], 'pipeline %s raised %s during %s on a header-only input: %s'
                       % (name, r[1], r[3], r[2]))]
    bad = []
    if 'eager' in o2.tags:
        return True, bad
    p1, p2 = r[1], r[2]
    if p1 != p2:
        bad.append(('second pass differs', p1, p2, 'pipeline %s: second pass differs' % name))
    z = rows_expectation(o2)
    if 'container' in o2.tags:
        if p1:
            bad.append(('wrong rows', [], p1, 'pipeline %s yields items for a header-only table' % name))
        return True, bad
    if z in ('noraise', 'noheader'):
        return True, bad
    if not p1:
        return True, [('no header', 'a header row', [], 'pipeline %s yields nothing at all' % name)]
    if 'hdrdep' not in o2.tags and full[1] and p1[0] != full[1][0]:
        bad.append(('wrong header', full[1][0], p1[0], 'pipeline %s: header differs from the non-empty run' % name))
    if z == 'none' and p1[1:] and o2.name not in PIPE_ROWS_DEPEND_ON_HEADER:
        bad.append(('wrong rows', [], p1[1:], 'pipeline %s yields data rows from nothing' % name))
    return True, bad


def binary_ops():
    return [o for o in all_ops() if len(o.kinds) == 2]


def run_pipe2(o1, o2, pos, ns, form):
    """o2 with input `pos` replaced by the view o1(table of ns[pos] rows); the other input is a plain table."""
    ctxs = [_ctxdir() if 'ctx' in o.tags else None for o in (o1, o2)]

    def build():
        tables = [mk(kd, n, form) for kd, n in zip(o2.kinds, ns)]
        tables[pos] = o1.build([tables[pos]], ctx=ctxs[0])
        return o2.build(tables, ctx=ctxs[1])
    try:
        return evaluate(build, 'eager' in o2.tags)
    finally:
        for c in ctxs:
            if c:
                shutil.rmtree(c, ignore_errors=True)


def check_pipe2(o1, o2, pos, ns, form, m=2):
    """-> (applicable, problems) for the binary call form o2 fed with o1(header-only) at input `pos`."""
    full = run_pipe2(o1, o2, pos, (m, m), 'tuple')
    if full[0] == 'exc':
        return False, []
    r = run_pipe2(o1, o2, pos, ns, form)
    name = '%s with input %d = %s' % (o2.name, pos, o1.name)
    if r[0] == 'exc':
        return True, [('raises', 'no exception', r[1:], 'pipeline %s raised %s during %s on a header-only input: %s'
                       % (name, r[1], r[3], r[2]))]
    bad = []
    if 'eager' in o2.tags or 'container' in o2.tags:
        return True, bad
    p1, p2 = r[1], r[2]
    if p1 != p2:
        bad.append(('second pass differs', p1, p2, 'pipeline %s: second pass differs' % name))
    z = rows_expectation(o2)
    if z in ('noraise', 'noheader'):
        return True, bad
    if not p1:
        return True, [('no header', 'a header row', [], 'pipeline %s yields nothing at all' % name)]
    if 'hdrdep' not in o2.tags and full[1] and p1[0] != full[1][0]:
        bad.append(('wrong header', full[1][0], p1[0], 'pipeline %s: header differs from the non-empty run' % name))
    if z == 'none':
        exp = []
    elif callable(z) and baseline(o1, m)[1][0] == freeze(kind_header(o1.kinds[0])):
        # the first stage keeps the header, so the catalogue's zero-row definition applies unchanged
        exp = [freeze(tuple(x)) for x in z([plain_table(kd, n) for kd, n in zip(o2.kinds, ns)])]
    else:
        return True, bad
    if collections.Counter(exp) != collections.Counter(p1[1:]):
        bad.append(('wrong rows', sorted(exp, key=repr), sorted(p1[1:], key=repr),
                    'pipeline %s: data rows differ from the zero-row definition' % name))
    return True, bad


# ---------------------------------------------------------------------------------------------
# rendering accessors: look / lookall / lookstr / lookallstr / see / repr / str / _repr_html_ under every
# presentation style and option, given by argument and by petl.config
# ---------------------------------------------------------------------------------------------

VIS_HEADERS = OrderedDict([
    ('w3', ('foo', 'bar', 'bz9')),
    ('w1', ('foo',)),
    ('k', ('k', 'v', 'x')),               # one-character names: every column is as narrow as it can be
    ('nontext', (10, None, 'x y')),       # field names that are not text
])
STYLES = ('grid', 'simple', 'minimal')
LOOK_FNS = ('look', 'lookall', 'lookstr', 'lookallstr', 'Table.look')
VIS_FNS = LOOK_FNS + ('repr', 'str', 'see', 'Table.see', 'html')
_CONFIG_KEYS = ('look_style', 'look_limit', 'look_index_header', 'look_vrepr', 'look_width', 'see_limit',
                'see_index_header', 'see_vrepr', 'display_limit', 'display_index_header', 'display_vrepr')


def vis_table(hname, n, form):
    """Header + n rows of one-digit ints: no cell is rendered wider than its field name, so the header lines
    of the n-row rendering are what the header-only rendering must consist of."""
    hdr = VIS_HEADERS[hname]
    t = (hdr,) + tuple(tuple((i + j) % 10 for j in range(len(hdr))) for i in range(n))
    if form == 'tuple':
        return t
    if form == 'list':
        return [list(r) for r in t]
    if form == 'iter':
        return IterTable(t)
    if form == 'wrap':
        return etl.wrap([list(r) for r in t])
    raise KeyError(form)


def vis_configs(fn, reduced=False):
    """Every configuration of one rendering function: options given by argument (None = not given) and the
    petl.config defaults they fall back to.  reduced: the style x route sub-space used for pipelines."""
    out = []
    if fn in LOOK_FNS:
        limits = ('default',) if fn in ('lookall', 'lookallstr') else ('default', 1, None)
        if reduced:
            for st in STYLES:
                out.append({'style': st, 'cfg_style': 'grid'})
                out.append({'style': None, 'cfg_style': st})
            return out
        for st, cst, ih, cih, tr, wd, lim in itertools.product(
                (None,) + STYLES, STYLES, (None, True), (False, True), (None, 2), (None, 7), limits):
            out.append({'style': st, 'cfg_style': cst, 'ih': ih, 'cfg_ih': cih, 'truncate': tr, 'width': wd,
                        'limit': lim})
    elif fn in ('repr', 'str'):
        if reduced:
            return [{'cfg_style': st} for st in STYLES]
        for cst, cih, cwd, clim in itertools.product(STYLES, (False, True), (None, 7), (5, 1)):
            out.append({'cfg_style': cst, 'cfg_ih': cih, 'cfg_width': cwd, 'cfg_limit': clim})
    elif fn in ('see', 'Table.see'):
        if reduced:
            return [{}]
        for ih, cih, lim in itertools.product((None, True), (False, True), ('default', 1, None)):
            out.append({'ih': ih, 'cfg_ih': cih, 'limit': lim})
    elif fn == 'html':
        if reduced:
            return [{}]
        for ih, cih, tr, lim in itertools.product((None, True), (False, True), (None, 2), ('default', 1, None)):
            out.append({'ih': ih, 'cfg_ih': cih, 'truncate': tr, 'limit': lim})
    return out


def vis_render(fn, cfg, table):
    """Call the real accessor under the configuration; petl.config is restored afterwards."""
    saved = dict((k, getattr(etl.config, k)) for k in _CONFIG_KEYS)
    try:
        etl.config.look_style = cfg.get('cfg_style', 'grid')
        for k in ('look_index_header', 'see_index_header', 'display_index_header'):
            setattr(etl.config, k, cfg.get('cfg_ih', False))
        etl.config.look_width = cfg.get('cfg_width')
        etl.config.look_limit = cfg.get('cfg_limit', 5)
        kw = {}
        if cfg.get('ih') is not None:
            kw['index_header'] = cfg['ih']
        if cfg.get('limit', 'default') != 'default':
            kw['limit'] = cfg['limit']
        if fn in LOOK_FNS:
            for k in ('style', 'truncate', 'width'):
                if cfg.get(k) is not None:
                    kw[k] = cfg[k]
            if fn == 'Table.look':
                return str(etl.wrap(table).look(**kw))
            return str(getattr(etl, fn)(table, **kw))
        if fn == 'repr':
            return repr(etl.wrap(table))
        if fn == 'str':
            return str(etl.wrap(table))
        if fn == 'see':
            return str(etl.see(table, **kw))
        if fn == 'Table.see':
            return str(etl.wrap(table).see(**kw))
        if fn == 'html':
            if cfg.get('truncate') is not None:
                kw['truncate'] = cfg['truncate']
            return etl.wrap(table)._repr_html_(**kw)
        raise KeyError(fn)
    finally:
        for k, v in saved.items():
            setattr(etl.config, k, v)


def vis_effective(fn, cfg):
    style = cfg.get('style') or cfg.get('cfg_style', 'grid')
    ih = cfg['ih'] if cfg.get('ih') is not None else cfg.get('cfg_ih', False)
    width = cfg['width'] if cfg.get('width') is not None else cfg.get('cfg_width')
    return style, bool(ih), cfg.get('truncate'), width


def vis_expected(fn, cfg, hdr):
    """Reference rendering of the header-only table (None: no reference, differential oracle only)."""
    style, ih, truncate, width = vis_effective(fn, cfg)
    if fn in LOOK_FNS or fn in ('repr', 'str'):
        return V.look_text([hdr], style, repr, ih, truncate, width)
    if fn in ('see', 'Table.see'):
        return V.see_text([hdr], repr, ih)
    return None


def vis_header_part(fn, cfg, text):
    """What remains of the rendering of a table WITH rows when everything belonging to a data row is removed."""
    if fn == 'html':
        a, b = text.index('<tbody>\n') + len('<tbody>\n'), text.index('</tbody>')
        return text[:a] + text[b:]
    if fn in ('see', 'Table.see'):
        return ''.join(line[:line.index(': ') + 2] + '\n' for line in text.splitlines())
    return V.header_lines_of(text, vis_effective(fn, cfg)[0])


def vis_group(fn):
    """One group per renderer: look, lookall, lookstr, lookallstr, Table.look, repr and str share Look."""
    if fn in LOOK_FNS or fn in ('repr', 'str'):
        return 'look (text rendering: look/lookall/lookstr/lookallstr/repr/str)'
    return {'html': '_repr_html_'}.get(fn, 'see')


def _safe(f):
    try:
        return ('ok', f())
    except Exception as e:
        return ('exc', type(e).__name__, re.sub(r' at 0x[0-9a-fA-F]+', '', str(e))[:160])


_VIS_BASE = {}


def check_vis(fn, cfg, table, hdr, full_table, what):
    """-> problems for one rendering state (None: not applicable).  table: the header-only input;
    full_table(): the same input with one data row (applicability + differential oracle)."""
    f = None
    if full_table is not None:
        # with limit=1 a second row would add the overflow marker; one row never overflows
        f = _safe(lambda: vis_render(fn, cfg, full_table()))
        if f[0] == 'exc':
            return None     # the call does not work for this header even with data: outside the statement
    r = _safe(lambda: vis_render(fn, cfg, table))
    if r[0] == 'exc':
        return [('raises', 'no exception', r[1:], '%s raised %s on %s: %s' % (fn, r[1], what, r[2]))]
    bad = []
    text = r[1]
    exp = vis_expected(fn, cfg, hdr)
    if exp is not None and text != exp:
        bad.append(('wrong rendering', exp, text,
                    '%s of %s is not the header lines of the documented layout' % (fn, what)))
    if f is not None and not bad:
        want = vis_header_part(fn, cfg, f[1])
        if text != want:
            bad.append(('rendering differs from the non-empty one', want, text,
                        '%s of %s is not the rendering of the same table with one data row minus the row lines'
                        % (fn, what)))
    return bad


def vis_direct_state(fn, cfg, hname, form):
    hdr = VIS_HEADERS[hname]
    return check_vis(fn, cfg, vis_table(hname, 0, form), hdr, lambda: vis_table(hname, 1, form),
                     'a header-only table (%s, %s form)' % (hname, form))


def vis_pipe_state(fn, cfg, o1, form):
    """Rendering of the header-only VIEW o1(header-only table); -> (applicable, problems)."""
    ctx = _ctxdir() if 'ctx' in o1.tags else None
    try:
        try:
            mid = o1.build([mk(o1.kinds[0], 0, form)], ctx=ctx)
            rows = [tuple(r) for r in mid]
        except Exception:
            return False, []          # reported by the direct item of o1
        if len(rows) != 1:
            return False, []
        bad = check_vis(fn, cfg, mid, rows[0], None, 'the header-only view %s(header-only table)' % o1.name)
        if bad and bad[0][0] == 'raises' and _safe(lambda: vis_render(
                fn, cfg, o1.build([mk(o1.kinds[0], 1, form)], ctx=ctx)))[0] == 'exc':
            return False, []      # rendering this view fails with data rows too
        return True, bad
    finally:
        if ctx:
            shutil.rmtree(ctx, ignore_errors=True)


_VIS_BAD = set()


def vis_setup():
    """(function, effective style) pairs whose direct case fails are not repeated over every pipeline."""
    _VIS_BAD.clear()
    for fn in VIS_FNS:
        for cfg in vis_configs(fn, reduced=True):
            try:
                if vis_direct_state(fn, cfg, 'w3', 'tuple') or vis_direct_state(fn, cfg, 'w3', 'iter'):
                    _VIS_BAD.add((fn, vis_effective(fn, cfg)[0]))
            except Exception:
                _VIS_BAD.add((fn, vis_effective(fn, cfg)[0]))


def run_vis_item(item, acc):
    kind, fn, tier = item
    fn, _, part = fn.partition('/')
    if kind == 'vis':
        for cfg in vis_configs(fn):
            if part and cfg['cfg_style'] != part:
                continue
            for hname in VIS_HEADERS:
                for form in FORMS:
                    bad = vis_direct_state(fn, cfg, hname, form)
                    acc.transitions += 1
                    if bad is None:
                        acc.counters['renderings:not applicable (raises on a one-row table too)'] += 1
                        continue
                    acc.states += 1
                    acc.transitions += 1
                    acc.evals += 2
                    acc.nontrivial += 1
                    acc.counters['states:rendering'] += 1
                    acc.outcome((fn, sorted(cfg.items(), key=repr), hname, tuple(b[0] for b in bad)))
                    for sig, exp, obs, msg in bad:
                        acc.violation('%s | %s' % (vis_group(fn), sig),
                                      {'kind': 'vis', 'fn': fn, 'cfg': cfg, 'header': hname, 'form': form,
                                       'sig': sig}, exp, obs, msg)
        acc.sample({'rendering': fn, 'configurations': len(vis_configs(fn)), 'headers': list(VIS_HEADERS),
                    'forms': list(FORMS)}, 1)
        return
    forms = ('tuple',) if tier == 'quick' else ('tuple', 'iter')
    for cfg in vis_configs(fn, reduced=True):
        if (fn, vis_effective(fn, cfg)[0]) in _VIS_BAD:
            acc.counters['pipelines:skipped (rendering fails directly)'] += 1
            continue
        for o1 in stage1_ops():
            if o1.name in _DIRECT_BAD:
                continue
            for form in forms:
                applicable, bad = vis_pipe_state(fn, cfg, o1, form)
                acc.transitions += 1
                if not applicable:
                    continue
                acc.states += 1
                acc.transitions += 1
                acc.evals += 1
                acc.nontrivial += 1
                acc.counters['states:rendering of a header-only view'] += 1
                acc.outcome((fn, sorted(cfg.items(), key=repr), o1.name, tuple(b[0] for b in bad)))
                for sig, exp, obs, msg in bad:
                    acc.violation('pipeline: %s over a header-only view | %s' % (vis_group(fn), sig),
                                  {'kind': 'vispipe', 'fn': fn, 'cfg': cfg, 'op1': o1.name, 'form': form,
                                   'sig': sig}, exp, obs, msg)


# ---------------------------------------------------------------------------------------------
# runner interface
# ---------------------------------------------------------------------------------------------

_DIRECT_BAD = set()


def setup(tier, seed):
    """Operators whose direct header-only case already fails are reported once by the direct items and are
    not used as pipeline stages (one defect -> one group)."""
    _DIRECT_BAD.clear()
    for o in unary_ops() + binary_ops():
        try:
            for ns in assignments(len(o.kinds), 2):
                if check_state(o, ns, 'tuple', 2) or check_state(o, ns, 'iter', 2):
                    _DIRECT_BAD.add(o.name)
                    break
        except Exception:
            _DIRECT_BAD.add(o.name)
    vis_setup()


def ms(tier):
    return (1, 2) if tier == 'quick' else (1, 2, 3, 4)


def items(tier, seed):
    ops = all_ops()
    out = [('op', o.name, tier) for o in ops]
    s1 = [o for o in stage1_ops() if o.name not in _DIRECT_BAD]
    out += [('pipe', o.name, tier) for o in s1]
    out += [('pipe2', o.name, tier) for o in binary_ops() if o.name not in _DIRECT_BAD]
    for fn in VIS_FNS:      # the large configuration spaces are split by configured style (better packing)
        out += [('vis', '%s/%s' % (fn, st), tier) for st in STYLES] if fn in LOOK_FNS else [('vis', fn, tier)]
    out += [('vispipe', fn, tier) for fn in VIS_FNS]
    k = seed % len(out)
    return out[k:] + out[:k]


def cost(item):
    if item[0] in ('vis', 'vispipe'):
        return 150 if item[1].split('/')[0] in LOOK_FNS else 40
    o = by_name(item[1])
    c = {'pipe': 30, 'pipe2': 60}.get(item[0], len(o.kinds) ** 2)
    if o.tags & {'ctx', 'io'}:
        c *= 3
    return c


def bounds(tier, seed):
    return {'call_forms': len(all_ops()), 'catalogue_forms': len([o for o in all_ops() if o.name in C.BY_NAME]),
            'local_forms': len(LOCAL), 'pipeline_first_stages': len(stage1_ops()),
            'pipeline_second_stages': len(unary_ops()), 'rows_on_non_empty_side': list(ms(tier)),
            'container_forms': list(FORMS), 'passes': 2,
            'excluded': dict(list(EXCLUDED.items()) + [(k, v) for k, v in optional_status().items() if v]),
            'optional_call_forms_that_work_here': sorted(k for k, v in optional_status().items() if v is None),
            'stages_not_pipelined_because_direct_case_fails': sorted(_DIRECT_BAD),
            'zero_row_views_used_as_inputs': list(GENERIC_STAGES),
            'rendering_functions': list(VIS_FNS), 'rendering_styles': list(STYLES),
            'rendering_configurations': dict((fn, len(vis_configs(fn))) for fn in VIS_FNS),
            'rendering_headers': dict((k, list(map(str, v))) for k, v in VIS_HEADERS.items()),
            'renderings_not_pipelined_because_direct_case_fails': sorted(map(str, _VIS_BAD))}


def assignments(k, m):
    return [ns for ns in itertools.product((0, m), repeat=k) if not all(ns)]


def run_item(item, acc):
    kind, name, tier = item
    if kind in ('vis', 'vispipe'):
        return run_vis_item(item, acc)
    op = by_name(name)
    if kind == 'op':
        seen = set()
        for m in ms(tier):
            for ns in assignments(len(op.kinds), m):
                for form in FORMS:
                    if (ns, form) in seen:      # the all-header-only assignment does not depend on m
                        continue
                    seen.add((ns, form))
                    acc.states += 1
                    acc.transitions += 2 if not (op.tags & {'eager'}) else 1
                    acc.evals += 1
                    if (len(ns) > 1 and any(ns)) or form != 'tuple':
                        acc.nontrivial += 1
                    acc.counters['states:direct'] += 1
                    bad = check_state(op, ns, form, m)
                    acc.outcome((name, ns, tuple(b[0] for b in bad)))
                    for sig, exp, obs, msg in bad:
                        acc.violation('%s | %s' % (base(name), sig),
                                      {'kind': 'op', 'op': name, 'ns': list(ns), 'form': form, 'm': m, 'sig': sig},
                                      exp, obs, msg)
        # the same states with the header-only input given as a zero-row view
        if name not in _DIRECT_BAD:
            for ns in assignments(len(op.kinds), 2):
                for pos, n in enumerate(ns):
                    if n != 0:
                        continue
                    for gname in GENERIC_STAGES:
                        for form in (('tuple',) if tier == 'quick' else ('tuple', 'iter')):
                            acc.states += 1
                            acc.transitions += 2 if not (op.tags & {'eager'}) else 1
                            acc.evals += 1
                            acc.nontrivial += 1
                            acc.counters['states:direct, input is a zero-row view'] += 1
                            bad = check_state(op, ns, form, 2, via=(gname, pos))
                            acc.outcome((name, ns, gname, pos, tuple(b[0] for b in bad)))
                            for sig, exp, obs, msg in bad:
                                acc.violation('%s on a zero-row view | %s' % (base(name), sig),
                                              {'kind': 'op', 'op': name, 'ns': list(ns), 'form': form, 'm': 2,
                                               'via': [gname, pos], 'sig': sig}, exp, obs, msg)
        acc.sample({'op': name, 'assignments': [list(a) for a in assignments(len(op.kinds), 2)],
                    'forms': list(FORMS), 'zero_row_views': list(GENERIC_STAGES)}, 1)
        return
    forms = ('tuple',) if tier == 'quick' else ('tuple', 'iter')
    if kind == 'pipe2':
        # binary call form `op` fed with o1(header-only table) at either input
        for pos in (0, 1):
            for o1 in stage1_ops():
                if o1.name in _DIRECT_BAD or o1.kinds[0] != op.kinds[pos]:
                    continue
                for other in (0, 2):
                    ns = [other, other]
                    ns[pos] = 0
                    stop = False
                    for form in forms:
                        applicable, bad = check_pipe2(o1, op, pos, tuple(ns), form)
                        acc.transitions += 1
                        if not applicable:
                            acc.counters['pipelines:not applicable (raises on 2-row input)'] += 1
                            stop = True
                            break
                        acc.states += 1
                        acc.transitions += 2
                        acc.evals += 1
                        acc.nontrivial += 1
                        acc.counters['states:pipeline(binary)'] += 1
                        acc.outcome((name, o1.name, pos, other, tuple(b[0] for b in bad)))
                        for sig, exp, obs, msg in bad:
                            acc.violation('pipeline: %s over a header-only view | %s' % (base(name), sig),
                                          {'kind': 'pipe2', 'op1': o1.name, 'op2': name, 'pos': pos, 'ns': ns,
                                           'form': form, 'sig': sig}, exp, obs, msg)
                    if stop:
                        break
        return
    # pipelines with first stage `op`
    for o2 in unary_ops():
        if o2.name in _DIRECT_BAD:
            acc.counters['pipelines:skipped (second stage fails directly)'] += 1
            continue
        for form in forms:
            applicable, bad = check_pipe(op, o2, form)
            acc.transitions += 1
            if not applicable:
                acc.counters['pipelines:not applicable (raises on 2-row input)'] += 1
                break
            acc.states += 1
            acc.transitions += 2
            acc.evals += 1
            acc.nontrivial += 1
            acc.counters['states:pipeline'] += 1
            acc.outcome((name, o2.name, tuple(b[0] for b in bad)))
            for sig, exp, obs, msg in bad:
                acc.violation('pipeline: %s over a header-only view | %s' % (base(o2.name), sig),
                              {'kind': 'pipe', 'op1': name, 'op2': o2.name, 'form': form, 'sig': sig},
                              exp, obs, msg)


def replay(case):
    if case['kind'] == 'vis':
        bad = vis_direct_state(case['fn'], case['cfg'], case['header'], case['form'])
    elif case['kind'] == 'vispipe':
        bad = vis_pipe_state(case['fn'], case['cfg'], by_name(case['op1']), case['form'])[1]
    elif case['kind'] == 'op':
        via = tuple(case['via']) if case.get('via') else None
        bad = check_state(by_name(case['op']), tuple(case['ns']), case['form'], case['m'], via=via)
    elif case['kind'] == 'pipe2':
        bad = check_pipe2(by_name(case['op1']), by_name(case['op2']), case['pos'], tuple(case['ns']),
                          case['form'])[1]
    else:
        bad = check_pipe(by_name(case['op1']), by_name(case['op2']), case['form'])[1]
    bad = [b for b in bad if b[0] == case['sig']]
    if not bad:
        return None
    sig, exp, obs, msg = bad[0]
    return (exp, obs, msg)


def vacuity(cov, tier):
    c = cov['per_case_counters']
    out = []
    if c.get('states:direct', 0) < len(all_ops()):
        out.append('fewer direct states than call forms')
    if c.get('states:pipeline', 0) < 1000:
        out.append('fewer than 1000 applicable pipelines')
    if c.get('states:rendering', 0) < 1000:
        out.append('fewer than 1000 rendering states')
    return out


def _cls_opbase(group, case, params):
    """Known-finding classifier: the failing operator (second stage for pipelines) is one of params['ops']
    and the failure signature is params['sig'] (default 'raises')."""
    name = case.get('op') or case.get('op2') or case.get('fn') or ''
    return base(name) in params.get('ops', []) and case.get('sig') == params.get('sig', 'raises')


CLASSIFIERS = {'operator_and_signature': _cls_opbase}
