"""C08 - set operations obey multiset algebra; hash variants agree.

Enumerates ALL ordered pairs (a, b) of rectangular tables up to a row bound over a small mixed-type cell
alphabet and runs every set operation in every call form on the real petl code.  Oracle:
collections.Counter arithmetic on the input rows (mc/refs/setops.py), the reassembly law
complement(a, b) + intersection(a, b) == a, and "in a's order" for the hash variants.
"""
import datetime
import itertools
from collections import Counter

import petl as etl
from petl.util.materialise import cache as etl_cache

from .. import refmodel as ref
from .. import spaces
from ..refs import setops as rs

ID = 'C08'
LEVEL = 'model_checking'
ENGINE = 'E2 small-scope enumeration against a Counter reference'
RULE = ('all ordered pairs (a, b) of rectangular tables: width 1 over K6 = {None, i1, i2, s1, float(i1), s2} and '
        'width 2 over K3 x K3 = {None, i1, s1}^2, every row count up to the bound on each side (empty sides '
        'included), plus all width-1 x width-2 pairs, plus width 3 (columns over {None, i1} x {i1, s1} x {None, s1}, '
        '<= 2 rows a side) so that all 6 column permutations of b - including the non-self-inverse 3-cycles - are '
        'enumerated for the record variants; plus hash-twin alphabets (cells over {-1, -2, 0, 2**61-1}: different '
        'values with equal hashes, width 1 and 2) and header-cell alphabets (cells drawn from the field names of '
        'a / of b, so data rows can equal the same, renamed or permuted header row of either side), text/bytes '
        'alphabets (one column mixing u"x", b"x", u"y", b"y", None and a number, width 1 and 2) and unordered-cell '
        'alphabets (two complex numbers, a naive and an aware datetime: unequal, hashable, no order between them; '
        'only tables with <= 1 row a side, because a side holding two mutually unordered rows has no sort order); '
        'x complement/intersection/diff/hashcomplement/'
        'hashintersection/recordcomplement/recorddiff x strict on/off x buffersize in {None, 1} x presorted=True '
        '(only on pairs that are already lexically sorted under the reference order) x b header same/renamed x '
        'every column permutation of b for the record variants x row-container type of each side independently '
        '(tuple of tuples / list of lists / etl.wrap(list of lists) / etl.sort(list of lists) on an already sorted '
        'side), crossed with every call form incl. presorted on/off (form set "cont", on the <= 2-3-row blocks over '
        'the reduced alphabets) x operand kind of each side independently: additionally etl.sort(t, reverse=True), '
        'etl.sort(t, <last field>), etl.sort(t, buffersize=1), cache(t) and a generator-backed Table, every '
        'combination with at least one of them (65), under every call form incl. the hash variants, without '
        'presorted for the re-ordering kinds (form set "kind"); x chunk size supplied through '
        'petl.config.sort_buffersize = 1..max(n, m) with NO buffersize argument, the config kept set while the '
        'view is built and while it is read (form set "cfg"); x transient-failure histories (form set "flaky"): '
        'one side\'s source fails once at each position (header, each row, exhaustion) during pass 1 of '
        'complement / intersection / diff / recordcomplement / recorddiff with buffersize 1..rows of that side '
        '(its sort spills, cache=True), then passes 2 and 3 on the same view(s) must be the multiset reference. states = (pair, call form, operand combination) '
        'points; a pair is '
        'non-trivial when both sides are non-empty, some row of a occurs in b and some row of a does not. '
        'Excluded: non-rectangular tables (statement), unhashable cells (hash variants cannot take them), '
        'record variants on tables whose field sets differ (documented precondition); the order of the '
        'sort-based outputs is not compared (the statement fixes only the multiset).')
ASSUMPTIONS = ['cell domain limited to one or two representatives per type class (None, int, float equal to an int, str)',
               'tables have <= 3 rows per side (<= 4 for width 1 in thorough) and <= 2 columns; the largest size '
               'classes (3 x 3 rows, 4 + 3 rows) are enumerated completely over a reduced alphabet (see bounds.blocks)',
               'row identity is Python == on tuples (1 and 1.0 are the same cell value)']

HDR = {1: ('x',), 2: ('x', 'y'), 3: ('x', 'y', 'z')}
RENAMED = {1: ('p',), 2: ('p', 'q'), 3: ('p', 'q', 'r')}

HASH_TWINS = (-1, -2, 0, 2 ** 61 - 1)
UNORDERED = (1j, 2j, datetime.datetime(2020, 1, 2, 3, 4), datetime.datetime(2020, 1, 2, 3, 4, tzinfo=datetime.timezone.utc))

# row-container axis: how each input table is handed to petl (the property is about rows as values)
#   'tuple' tuple of tuples; 'list' list of lists; 'wrap' etl.wrap(list of lists) (a petl Table, list rows);
#   'sortview' etl.sort(list of lists) (a petl view, tuple rows) - only used on a side that is already sorted
#   under the reference order, where the stable sort leaves the row sequence unchanged
CONTAINERS = ('tuple', 'list', 'wrap', 'sortview')
PLAIN = ('tuple', 'tuple')
# operand-kind axis (form set 'kind'): the operand is itself a petl view over the list of lists; the set
# operation is called WITHOUT presorted for the re-ordering kinds, so it has to establish the order itself
#   'sort-rev'  etl.sort(t, reverse=True)   descending lexical sort view
#   'sort-key'  etl.sort(t, <last field>)   sort view with a key (another order than the lexical one for width >= 2)
#   'sort-buf1' etl.sort(t, buffersize=1)   lexical sort view served from chunk files
#   'cache'     petl.util.materialise.cache(t)
#   'gen'       a Table whose __iter__ returns a generator producing fresh list rows
EXTRA_KINDS = ('sort-rev', 'sort-key', 'sort-buf1', 'cache', 'gen')
ALL_KINDS = CONTAINERS + EXTRA_KINDS
REORDERING = ('sort-rev', 'sort-key', 'sort-buf1')      # the operand's row sequence differs from the enumerated one


class GenTable(etl.Table):
    """A generator-backed table view: every iter() starts a new generator that builds the rows on the fly."""

    def __init__(self, rows):
        self.rows = rows

    def __iter__(self):
        return (list(r) for r in self.rows)


def seen_rows(rows, kind):
    """The row sequence of an operand of the given kind, computed with the reference order (not with petl)."""
    rows = [tuple(r) for r in rows]
    if kind == 'sort-rev':
        return ref.stable_sort(rows, None, reverse=True)
    if kind == 'sort-key':
        return ref.stable_sort(rows, [len(rows[0]) - 1]) if rows else rows
    if kind == 'sort-buf1':
        return ref.stable_sort(rows)
    return rows

_ROWS = {}      # space name -> list of rows (the row alphabet)
_SEED = 0


def _alphabets(seed):
    k6 = spaces.K6(seed)
    k3 = spaces.K3(seed)
    return {'w1': [(v,) for v in k6],
            'w2': [(u, v) for u in k3 for v in k3],
            'w1s': [(v,) for v in k3],
            'w2s': [(u, v) for u in (k3[0], k3[1]) for v in (k3[0], k3[2])],
            'w3': [(u, v, w) for u in (k3[0], k3[1]) for v in (k3[1], k3[2]) for w in (k3[0], k3[2])],
            # different cells with EQUAL hashes: hash(-1) == hash(-2), hash(0) == hash(2**61 - 1) (CPython, 64 bit),
            # so that different rows collide in any hash-keyed structure
            'w1h': [(v,) for v in HASH_TWINS],
            'w2h': [(u, v) for u in HASH_TWINS[:2] for v in HASH_TWINS[2:]],
            # cells drawn from the field names: a data row can be EQUAL to the header row of a / of b
            # (same, renamed or column-permuted header)
            # one column mixing text and bytes cells (plus None and a number): bytes < text, equal spellings differ
            'w1tb': [(v,) for v in (u'x', b'x', u'y', b'y', None, k3[1])],
            'w2tb': [(u, v) for u in (u'x', b'x') for v in (u'y', b'y')],
            # hashable cells that are unequal and have NO order between them (same type, '<' raises): two complex
            # numbers, a naive and an aware datetime.  Only tables with at most one row a side are enumerated over
            # them: with two such rows on one side there is no sort order the merge could rely on
            'w1u': [(v,) for v in UNORDERED],
            'w2u': [(k3[1], v) for v in UNORDERED],
            'w1n': [(v,) for v in (HDR[1][0], RENAMED[1][0], None)],
            'w2n': [HDR[2], (HDR[2][1], HDR[2][0]), RENAMED[2], (HDR[2][0], None)]}


def setup(tier, seed):
    global _SEED
    _SEED = seed
    _ROWS.clear()
    _ROWS.update(_alphabets(seed))


# ---------------------------------------------------------------------------------------------
# call forms.  A form is (op, strict, buffersize, presorted, bvar)
#   bvar: 'same' (b carries a's header), 'renamed' (other field names; only meaningful where the
#   documentation says names are ignored), 'perm:<i,j>' (b's columns permuted; record variants)
# ---------------------------------------------------------------------------------------------

def _perms(w):
    return [','.join(map(str, p)) for p in itertools.permutations(range(w))]


def base_forms(wa, wb):
    f = []
    for strict in (False, True):
        f.append(('complement', strict, None, False, 'same'))
    f.append(('intersection', False, None, False, 'same'))
    for strict in (False, True):
        f.append(('hashcomplement', strict, None, False, 'same'))
    f.append(('hashintersection', False, None, False, 'same'))
    for strict in (False, True):
        f.append(('diff', strict, None, False, 'same'))
    f.append(('complement', False, None, False, 'renamed'))
    f.append(('intersection', False, None, False, 'renamed'))
    f.append(('hashcomplement', False, None, False, 'renamed'))
    f.append(('hashintersection', False, None, False, 'renamed'))
    f.append(('diff', False, None, False, 'renamed'))
    if wa == wb:
        for p in _perms(wa):
            for strict in (False, True):
                f.append(('recordcomplement', strict, None, False, 'perm:' + p))
                f.append(('recorddiff', strict, None, False, 'perm:' + p))
    return f


def presorted_forms():
    f = []
    for strict in (False, True):
        f.append(('complement', strict, None, True, 'same'))
        f.append(('diff', strict, None, True, 'same'))
    f.append(('intersection', False, None, True, 'same'))
    return f


def buf_forms(wa, wb):
    f = []
    for strict in (False, True):
        f.append(('complement', strict, 1, False, 'same'))
    f.append(('intersection', False, 1, False, 'same'))
    f.append(('diff', False, 1, False, 'same'))
    if wa == wb:
        p = _perms(wa)[-1]
        f.append(('recordcomplement', False, 1, False, 'perm:' + p))
        f.append(('recorddiff', True, 1, False, 'perm:' + p))
    return f


def cfg_forms(wa, wb, n, m):
    """No buffersize argument; petl.config.sort_buffersize = c for every c in 1..max(n, m), kept set while the
    view is built and while it is read (buffersize field 'cfg:<c>')."""
    f = []
    for c in range(1, max(n, m) + 1):
        bs = 'cfg:%d' % c
        for strict in (False, True):
            f.append(('complement', strict, bs, False, 'same'))
        f.append(('intersection', False, bs, False, 'same'))
        f.append(('diff', False, bs, False, 'same'))
        if wa == wb:
            p = _perms(wa)[-1]
            f.append(('recordcomplement', False, bs, False, 'perm:' + p))
            f.append(('recorddiff', True, bs, False, 'perm:' + p))
    return f


def form_name(form):
    op, strict, bs, pre, bvar = form
    return op + ('(strict)' if strict else '')


# ---------------------------------------------------------------------------------------------
# running the real code
# ---------------------------------------------------------------------------------------------

def make_b(form, a, b):
    """The b table actually handed to petl for this form: (header, rows)."""
    bvar = form[4]
    ahdr, bhdr, brows = a[0], b[0], b[1]
    if bvar == 'same':
        return (bhdr, brows)
    if bvar == 'renamed':
        return (RENAMED[len(bhdr)], brows)
    p = [int(i) for i in bvar.split(':')[1].split(',')]
    return (tuple(bhdr[i] for i in p), tuple(tuple(r[i] for i in p) for r in brows))


def _tbl(t, container='tuple'):
    if container == 'tuple':
        return (tuple(t[0]),) + tuple(tuple(r) for r in t[1])
    lol = [list(t[0])] + [list(r) for r in t[1]]
    if container == 'list':
        return lol
    if container == 'wrap':
        return etl.wrap(lol)
    if container == 'sortview':
        return etl.sort(lol)
    if container == 'sort-rev':
        return etl.sort(lol, reverse=True)
    if container == 'sort-key':
        return etl.sort(lol, key=lol[0][-1])
    if container == 'sort-buf1':
        return etl.sort(lol, buffersize=1)
    if container == 'cache':
        return etl_cache(lol)
    if container == 'gen':
        return GenTable(lol)
    raise ValueError(container)


def _read(view):
    it = iter(view)
    hdr = tuple(next(it))
    return (hdr, [tuple(r) for r in it])


def observe(form, a, bgiven, cont=PLAIN):
    """Run the form on the real code.  Returns ('ok', out) / ('ok2', added, subtracted) / ('raises', name, msg).
    buffersize 'cfg:<c>': no buffersize argument, petl.config.sort_buffersize = c during construction and reading."""
    if isinstance(form[2], str) and form[2].startswith('cfg:'):
        saved = etl.config.sort_buffersize
        try:
            etl.config.sort_buffersize = int(form[2][4:])
            return _observe((form[0], form[1], None, form[3], form[4]), a, bgiven, cont)
        finally:
            etl.config.sort_buffersize = saved
    return _observe(form, a, bgiven, cont)


def _observe(form, a, bgiven, cont=PLAIN):
    op, strict, bs, pre, bvar = form
    try:
        ta, tb = _tbl(a, cont[0]), _tbl(bgiven, cont[1])
        if op == 'complement':
            return ('ok', _read(etl.complement(ta, tb, presorted=pre, buffersize=bs, strict=strict)))
        if op == 'intersection':
            return ('ok', _read(etl.intersection(ta, tb, presorted=pre, buffersize=bs)))
        if op == 'hashcomplement':
            return ('ok', _read(etl.hashcomplement(ta, tb, strict=strict)))
        if op == 'hashintersection':
            return ('ok', _read(etl.hashintersection(ta, tb)))
        if op == 'recordcomplement':
            return ('ok', _read(etl.recordcomplement(ta, tb, buffersize=bs, strict=strict)))
        if op == 'diff':
            x, y = etl.diff(ta, tb, presorted=pre, buffersize=bs, strict=strict)
            return ('ok2', _read(x), _read(y))
        if op == 'recorddiff':
            x, y = etl.recorddiff(ta, tb, buffersize=bs, strict=strict)
            return ('ok2', _read(x), _read(y))
    except Exception as e:
        return ('raises', type(e).__name__, str(e)[:200])
    raise ValueError(op)


# ---------------------------------------------------------------------------------------------
# the oracle
# ---------------------------------------------------------------------------------------------

def expected(form, a, bgiven):
    """Reference result: list of (label, header, Counter) - one entry, or two for the diff forms."""
    op, strict = form[0], form[1]
    ahdr, arows = tuple(a[0]), [tuple(r) for r in a[1]]
    bhdr, brows = tuple(bgiven[0]), [tuple(r) for r in bgiven[1]]
    if op in ('complement', 'hashcomplement'):
        return [('a-b', ahdr, rs.complement(arows, brows, strict))]
    if op in ('intersection', 'hashintersection'):
        return [('a&b', ahdr, rs.intersection(arows, brows))]
    if op == 'diff':
        return [('added b-a', bhdr, rs.complement(brows, arows, strict)),
                ('subtracted a-b', ahdr, rs.complement(arows, brows, strict))]
    if op == 'recordcomplement':
        return [('a-b', ahdr, rs.complement(arows, rs.align(ahdr, bhdr, brows), strict))]
    if op == 'recorddiff':
        return [('added b-a', bhdr, rs.complement(brows, rs.align(bhdr, ahdr, arows), strict)),
                ('subtracted a-b', ahdr, rs.complement(arows, rs.align(ahdr, bhdr, brows), strict))]
    raise ValueError(op)


def judge(form, a, bgiven, obs=None, cont=PLAIN):
    """All failures of one form on one pair: list of (signature, expected, observed, message)."""
    if obs is None:
        obs = observe(form, a, bgiven, cont)
    name = form_name(form)
    if obs[0] == 'raises':
        return [('raises', 'a table', '%s: %s' % (obs[1], obs[2]),
                 '%s raised %s on rectangular tables' % (name, obs[1]))]
    exp = expected(form, a, bgiven)
    outs = obs[1:]
    bad = []
    for (label, ehdr, ecnt), (ohdr, orows) in zip(exp, outs):
        if ohdr != ehdr:
            bad.append(('header', ehdr, ohdr, '%s [%s]: header %r, expected %r' % (name, label, ohdr, ehdr)))
        if Counter(orows) != ecnt:
            bad.append(('multiset differs from Counter algebra', rs.show(ecnt), rs.show(Counter(orows)),
                        '%s [%s]: rows differ from the multiset definition' % (name, label)))
        elif form[0] in ('hashcomplement', 'hashintersection'):
            if not rs.is_subsequence(orows, seen_rows(a[1], cont[0])):
                bad.append(("not in a's order", 'a subsequence of a', orows,
                            "%s: output rows are not in a's order" % name))
    return bad


class Boom(Exception):
    pass


class FlakyTable(object):
    """A source that fails ONCE: the first time position `fail_at` is reached (0 = header, i = i-th data row,
    len = at exhaustion) Boom is raised instead; every later read is clean."""

    def __init__(self, table, fail_at):
        self.table = table
        self.fail_at = fail_at
        self.failed = False

    def __iter__(self):
        return self._gen()

    def _gen(self):
        for pos, item in enumerate(self.table):
            if pos == self.fail_at and not self.failed:
                self.failed = True
                raise Boom('transient failure at item %d' % pos)
            yield item
        if self.fail_at == len(self.table) and not self.failed:
            self.failed = True
            raise Boom('transient failure at exhaustion')


FLAKY_OPS = ('complement', 'intersection', 'diff', 'recordcomplement', 'recorddiff')


def flaky_history(op, a, b, side, fail_at, bs):
    """Build op(a, b, buffersize=bs) (cache left at True) with one side's source failing once at fail_at, read
    the view(s) three times.  Returns [pass1, pass2, pass3], each ('ok', ...)/('ok2', ...)/('raises', ...)."""
    ta, tb = _tbl(a), _tbl(b)
    if side == 'a':
        ta = FlakyTable(ta, fail_at)
    else:
        tb = FlakyTable(tb, fail_at)

    def read_all(views):
        outs = []
        for v in views:
            try:
                outs.append(_read(v))
            except Exception as e:
                return ('raises', type(e).__name__, str(e)[:120])
        return ('ok',) + tuple(outs) if len(outs) == 1 else ('ok2',) + tuple(outs)

    try:
        if op == 'complement':
            views = [etl.complement(ta, tb, buffersize=bs)]
        elif op == 'intersection':
            views = [etl.intersection(ta, tb, buffersize=bs)]
        elif op == 'recordcomplement':
            views = [etl.recordcomplement(ta, tb, buffersize=bs)]
        elif op == 'diff':
            views = list(etl.diff(ta, tb, buffersize=bs))
        elif op == 'recorddiff':
            views = list(etl.recorddiff(ta, tb, buffersize=bs))
        else:
            raise ValueError(op)
    except Boom:
        return None         # the failure hit a header read at construction: no view to read again
    return [read_all(views) for _ in range(3)]


def judge_flaky(op, a, b, side, fail_at, bs, hist=None):
    """Passes 2 and 3 (and pass 1 when it completes) must be the multiset reference."""
    if hist is None:
        hist = flaky_history(op, a, b, side, fail_at, bs)
    if hist is None:
        return []
    form = (op, False, bs, False, 'same')
    bad = []
    for i, obs in enumerate(hist):
        if i == 0 and obs[0] == 'raises':
            continue                    # the transient failure itself (or its consequence) - not judged
        for s, e, o, msg in judge(form, a, b, obs):
            bad.append(('a later pass after a transient source failure: %s' % s, e, o,
                        '%s: pass %d on the same view after one side failed once during pass 1 - %s' % (op, i + 1, msg)))
            return bad
    return bad


def run_flaky_pair(a, b, acc):
    na, nb = len(a[1]), len(b[1])
    for side, nside in (('a', na), ('b', nb)):
        for bs in range(1, nside + 1):              # buffersize <= rows of the failing side: its sort spills
            for fail_at in range(0, nside + 2):
                for op in FLAKY_OPS:
                    hist = flaky_history(op, a, b, side, fail_at, bs)
                    acc.states += 1
                    acc.counters['flaky-histories'] += 1
                    if hist is None:
                        acc.counters['flaky-failed-at-construction'] += 1
                        continue
                    acc.transitions += 3
                    acc.evals += 2 if hist[0][0] == 'raises' else 3
                    if hist[0][0] == 'raises':
                        acc.counters['flaky-pass1-raised:' + op] += 1
                        if nontrivial(a, b):
                            acc.nontrivial += 1
                    for s, e, o, msg in judge_flaky(op, a, b, side, fail_at, bs, hist):
                        acc.violation('%s | %s' % (op, s),
                                      {'kind': 'flaky', 'op': op, 'side': side, 'fail_at': fail_at, 'buffersize': bs,
                                       'a': [tuple(a[0])] + [tuple(r) for r in a[1]],
                                       'b': [tuple(b[0])] + [tuple(r) for r in b[1]], 'sig': s}, e, o, msg)


F_COMPLEMENT = ('complement', False, None, False, 'same')
F_INTERSECTION = ('intersection', False, None, False, 'same')


F_COMPLEMENT_PRE = ('complement', False, None, True, 'same')
F_INTERSECTION_PRE = ('intersection', False, None, True, 'same')


def reassembly(a, bgiven, oc=None, oi=None, cont=PLAIN, pre=False):
    """complement(a, b) (non-strict) together with intersection(a, b) must give back a."""
    if oc is None:
        oc = observe(F_COMPLEMENT_PRE if pre else F_COMPLEMENT, a, bgiven, cont)
    if oi is None:
        oi = observe(F_INTERSECTION_PRE if pre else F_INTERSECTION, a, bgiven, cont)
    if oc[0] != 'ok' or oi[0] != 'ok':
        return []   # reported by judge() as 'raises'
    got = Counter(oc[1][1]) + Counter(oi[1][1])
    want = Counter(tuple(r) for r in a[1])
    if got != want:
        return [('do not reassemble a', rs.show(want), rs.show(got),
                 'complement(a, b) + intersection(a, b) != a')]
    return []


def nontrivial(a, b):
    if not a[1] or not b[1]:
        return False
    sb = set(b[1])
    hit = any(r in sb for r in a[1])
    miss = any(r not in sb for r in a[1])
    return hit and miss


def is_sorted(rows):
    return ref.is_sorted([tuple(r) for r in rows])


# ---------------------------------------------------------------------------------------------
# work partition
# ---------------------------------------------------------------------------------------------

_SEL = {
    'all': lambda n, m: True,
    'n+m<=5': lambda n, m: n + m <= 5,
    'n+m==6': lambda n, m: n + m == 6,
    'n+m<=3': lambda n, m: n + m <= 3,
    '4 rows on one side, n+m<=6': lambda n, m: (n == 4 or m == 4) and n + m <= 6,
    '4 rows on one side, n+m==7': lambda n, m: (n == 4 or m == 4) and n + m == 7,
}


def _plan(tier):
    """(space a, space b, max n, max m, formset, size-class selector) blocks; 'base' includes the presorted forms."""
    if tier == 'quick':
        return [('w1', 'w1', 3, 3, 'base', 'n+m<=5'),
                ('w1s', 'w1s', 3, 3, 'base', 'n+m==6'),     # the 3 x 3 block over the 3-value alphabet
                ('w1', 'w1', 2, 2, 'buf', 'all'),
                ('w2', 'w2', 2, 2, 'base', 'all'),
                ('w2', 'w2', 2, 2, 'buf', 'all'),
                ('w1s', 'w2', 2, 2, 'base', 'all'),
                ('w2', 'w1s', 2, 2, 'base', 'all'),
                ('w3', 'w3', 2, 2, 'base', 'n+m<=3'),       # width 3: all 6 column permutations of b
                ('w1s', 'w1s', 2, 2, 'cont', 'all'),        # row-container axis (15 non-plain combinations)
                ('w2s', 'w2s', 2, 2, 'cont', 'n+m<=3'),
                ('w1s', 'w1s', 2, 2, 'cfg', 'all'),         # chunk size via petl.config.sort_buffersize
                ('w2s', 'w2s', 2, 2, 'cfg', 'n+m<=3'),
                ('w1s', 'w1s', 2, 2, 'flaky', 'n+m<=3'),    # transient source failure, then passes 2 and 3
                ('w1tb', 'w1tb', 2, 2, 'base', 'all'),      # text and bytes cells in one column
                ('w2tb', 'w2tb', 2, 2, 'base', 'n+m<=3'),
                ('w1u', 'w1u', 1, 1, 'base', 'all'),        # unequal cells without an order between them
                ('w2u', 'w2u', 1, 1, 'base', 'all'),
                ('w1h', 'w1h', 2, 2, 'base', 'all'),        # hash-equal but different cells
                ('w2h', 'w2h', 2, 2, 'base', 'all'),
                ('w1n', 'w1n', 2, 2, 'base', 'all'),        # data rows that equal a header row
                ('w2n', 'w2n', 2, 2, 'base', 'all'),
                ('w1s', 'w1s', 2, 2, 'kind', 'n+m<=3'),     # operand-kind axis (65 combinations with a view kind)
                ('w2s', 'w2s', 2, 2, 'kind', 'n+m<=3')]
    return [('w1', 'w1', 3, 3, 'base', 'all'),
            ('w1', 'w1', 3, 3, 'buf', 'n+m<=5'),
            ('w1s', 'w1s', 3, 3, 'buf', 'n+m==6'),
            ('w2', 'w2', 3, 3, 'base', 'n+m<=5'),
            ('w2s', 'w2s', 3, 3, 'base', 'n+m==6'),      # the 3 x 3 block of width 2 over {None, i1} x {None, s1}
            ('w2', 'w2', 2, 2, 'buf', 'all'),
            ('w1s', 'w2', 2, 2, 'base', 'all'),
            ('w2', 'w1s', 2, 2, 'base', 'all'),
            ('w1s', 'w2', 2, 2, 'buf', 'all'),
            ('w1', 'w1', 4, 4, 'base', '4 rows on one side, n+m<=6'),
            ('w1s', 'w1s', 4, 4, 'base', '4 rows on one side, n+m==7'),
            ('w3', 'w3', 2, 2, 'base', 'all'),
            ('w1s', 'w1s', 3, 3, 'cont', 'all'),
            ('w2s', 'w2s', 2, 2, 'cont', 'all'),
            ('w1s', 'w1s', 2, 2, 'kind', 'all'),
            ('w2s', 'w2s', 2, 2, 'kind', 'all'),
            ('w1s', 'w1s', 3, 3, 'cfg', 'all'),
            ('w2s', 'w2s', 2, 2, 'cfg', 'all'),
            ('w1s', 'w1s', 2, 2, 'flaky', 'all'),
            ('w2s', 'w2s', 2, 2, 'flaky', 'n+m<=3'),
            ('w1tb', 'w1tb', 3, 3, 'base', 'n+m<=5'),
            ('w2tb', 'w2tb', 2, 2, 'base', 'all'),
            ('w1tb', 'w1tb', 2, 2, 'buf', 'all'),
            ('w1u', 'w1u', 1, 1, 'base', 'all'),
            ('w2u', 'w2u', 1, 1, 'base', 'all'),
            ('w1h', 'w1h', 3, 3, 'base', 'all'),
            ('w2h', 'w2h', 3, 3, 'base', 'n+m<=5'),
            ('w1n', 'w1n', 3, 3, 'base', 'all'),
            ('w2n', 'w2n', 3, 3, 'base', 'n+m<=5')]


def items(tier, seed):
    """Work items ordered by total row count (so the first case of a violation group is a smallest one)."""
    out = []
    plan = _plan(tier)
    for tot in range(0, 9):
        for sa, sb, maxn, maxm, fs, sel in plan:
            ra, rb = len(_ROWS[sa]), len(_ROWS[sb])
            target = {'base': 1500, 'buf': 350, 'cont': 100, 'kind': 16, 'cfg': 120, 'flaky': 12}[fs]
            if sa == 'w3':
                target = 700
            for n in range(0, maxn + 1):
                m = tot - n
                if m < 0 or m > maxm or not _SEL[sel](n, m):
                    continue
                na, nb = ra ** n, rb ** m
                step = max(1, target // nb)
                for lo in range(0, na, step):
                    out.append((sa, sb, n, m, lo, min(na, lo + step), fs))
    return out


def bounds(tier, seed):
    its = items(tier, seed)
    pairs = {}
    for sa, sb, n, m, lo, hi, fs in its:
        k = '%s x %s [%s]' % (sa, sb, fs)
        pairs[k] = pairs.get(k, 0) + (hi - lo) * len(_ROWS[sb]) ** m
    return {'blocks': [list(map(str, b)) for b in _plan(tier)], 'pairs_per_block': pairs,
            'row_containers': list(CONTAINERS), 'container_combinations_in_cont_blocks': len(CONTAINERS) ** 2 - 1,
            'operand_kinds': list(ALL_KINDS),
            'kind_combinations_in_kind_blocks': len(ALL_KINDS) ** 2 - len(CONTAINERS) ** 2,
            'column_permutations': {w: _perms(w) for w in (1, 2, 3)},
            'alphabets': {k: [list(map(repr, r)) for r in v] for k, v in _ROWS.items()}}


def _tables(space, n, lo=0, hi=None):
    rows = spaces.rotate(_ROWS[space], _SEED)
    it = itertools.product(rows, repeat=n)
    return itertools.islice(it, lo, hi)


def _width(space):
    return len(_ROWS[space][0])


def _enc_cell(v):
    return ('__complex__', v.real, v.imag) if isinstance(v, complex) else v


def _dec_cell(v):
    if isinstance(v, (list, tuple)) and len(v) == 3 and v[0] == '__complex__':
        return complex(v[1], v[2])
    return v


def case_of(form, a, bgiven, law=None, sig=None, cont=PLAIN):
    c = {'op': form[0], 'strict': form[1], 'buffersize': form[2], 'presorted': form[3], 'bvar': form[4],
         'rows_a': cont[0], 'rows_b': cont[1],
         'a': [tuple(a[0])] + [tuple(_enc_cell(v) for v in r) for r in a[1]],
         'b': [tuple(bgiven[0])] + [tuple(_enc_cell(v) for v in r) for r in bgiven[1]]}
    if law:
        c['law'] = law
    if sig:
        c['sig'] = sig
    return c


def container_combos(fs, asorted, bsorted):
    """Operand combinations of one pair: plain tuples for the 'base'/'buf' form sets; every other combination
    of the four row containers for 'cont'; every combination with at least one view kind for 'kind'
    ('sortview' only on a side whose rows are already in reference order)."""
    if fs not in ('cont', 'kind'):
        return [PLAIN]
    kinds = CONTAINERS if fs == 'cont' else ALL_KINDS
    out = []
    for ca in kinds:
        if ca == 'sortview' and not asorted:
            continue
        for cb in kinds:
            if cb == 'sortview' and not bsorted:
                continue
            if fs == 'cont' and (ca, cb) != PLAIN:
                out.append((ca, cb))
            if fs == 'kind' and (ca in EXTRA_KINDS or cb in EXTRA_KINDS):
                out.append((ca, cb))
    return out


def group_of(name, sig, cont):
    if cont[0] in EXTRA_KINDS or cont[1] in EXTRA_KINDS:
        return '%s | %s [operand is a petl view]' % (name, sig)
    return '%s | %s%s' % (name, sig, '' if cont == PLAIN else ' [rows not plain tuples]')


def run_item(item, acc):
    sa, sb, n, m, lo, hi, fs = item
    wa, wb = _width(sa), _width(sb)
    if fs == 'flaky':
        for arows in _tables(sa, n, lo, hi):
            for brows in _tables(sb, m):
                run_flaky_pair((HDR[wa], tuple(arows)), (HDR[wb], tuple(brows)), acc)
                acc.outcome(('flaky', len(arows), len(brows)))
        return
    forms = {'buf': buf_forms(wa, wb), 'cfg': cfg_forms(wa, wb, n, m)}.get(fs) or base_forms(wa, wb)
    pre = [] if fs in ('buf', 'cfg') else presorted_forms()
    ahdr, bhdr = HDR[wa], HDR[wb]
    btables = [tuple(t) for t in _tables(sb, m)]
    bsorted = [is_sorted(t) for t in btables]
    for arows in _tables(sa, n, lo, hi):
        a = (ahdr, tuple(arows))
        asorted = is_sorted(arows)
        for bi, brows in enumerate(btables):
            b = (bhdr, brows)
            nt = nontrivial(a, b)
            sig = []
            for cont in container_combos(fs, asorted, bsorted[bi]):
                # presorted=True is only legitimate when both operands deliver their rows in reference order
                both = asorted and bsorted[bi] and cont[0] not in REORDERING and cont[1] not in REORDERING
                todo = forms + pre if both else forms
                keep = {}
                for form in todo:
                    bgiven = make_b(form, a, b)
                    obs = observe(form, a, bgiven, cont)
                    acc.states += 1
                    acc.transitions += 1 if obs[0] != 'ok2' else 2
                    acc.evals += 1
                    name = form_name(form)
                    acc.counters['op:' + name] += 1
                    if nt:
                        acc.nontrivial += 1
                        acc.counters['nt:' + name] += 1
                        acc.counters['nt-rows:%s/%s' % cont] += 1
                        if form[4].startswith('perm:'):
                            acc.counters['nt-perm:w%d:%s' % (wa, form[4][5:])] += 1
                    if fs == 'cfg':
                        acc.counters['config-forms'] += 1
                        if nt:
                            acc.counters['nt-config-forms'] += 1
                    if form[3]:
                        acc.counters['presorted-forms'] += 1
                        if nt:
                            acc.counters['nt-presorted-rows:%s/%s' % cont] += 1
                    for s, e, o, msg in judge(form, a, bgiven, obs, cont):
                        acc.violation(group_of(name, s, cont), case_of(form, a, bgiven, sig=s, cont=cont), e, o,
                                      msg + ('' if cont == PLAIN else ' (rows of a: %s, rows of b: %s)' % cont))
                    if obs[0] == 'ok':
                        sig.append(len(obs[1][1]))
                    if form in (F_COMPLEMENT, F_INTERSECTION, F_COMPLEMENT_PRE, F_INTERSECTION_PRE):
                        keep[form] = obs
                if fs not in ('buf', 'cfg'):
                    laws = [(False, F_COMPLEMENT, F_INTERSECTION)]
                    if both:
                        laws.append((True, F_COMPLEMENT_PRE, F_INTERSECTION_PRE))
                    for ispre, fc, fi in laws:
                        acc.evals += 1
                        for s, e, o, msg in reassembly(a, b, keep[fc], keep[fi]):
                            acc.violation(group_of('complement+intersection' + ('(presorted)' if ispre else ''), s, cont),
                                          case_of(fc, a, b, law='reassembly', cont=cont), e, o, msg)
            acc.outcome(tuple(sig))
            if nt and n == m:
                acc.sample({'a': a, 'b': b, 'a-b': rs.show(rs.complement(a[1], b[1])),
                            'a&b': rs.show(rs.intersection(a[1], b[1]))}, 1)


def replay(case):
    if case.get('kind') == 'flaky':
        a = (tuple(case['a'][0]), tuple(tuple(r) for r in case['a'][1:]))
        b = (tuple(case['b'][0]), tuple(tuple(r) for r in case['b'][1:]))
        bad = [x for x in judge_flaky(case['op'], a, b, case['side'], case['fail_at'], case['buffersize'])
               if x[0] == case['sig']]
        return (bad[0][1], bad[0][2], bad[0][3]) if bad else None
    form = (case['op'], case['strict'], case['buffersize'], case['presorted'], case['bvar'])
    a = (tuple(case['a'][0]), tuple(tuple(_dec_cell(v) for v in r) for r in case['a'][1:]))
    b = (tuple(case['b'][0]), tuple(tuple(_dec_cell(v) for v in r) for r in case['b'][1:]))
    cont = (case.get('rows_a', 'tuple'), case.get('rows_b', 'tuple'))
    if case.get('law') == 'reassembly':
        bad = reassembly(a, b, cont=cont, pre=bool(case['presorted']))
    else:
        bad = judge(form, a, b, cont=cont)
        if case.get('sig'):
            bad = [x for x in bad if x[0] == case['sig']]
    if not bad:
        return None
    s, e, o, msg = bad[0]
    return (e, o, msg)


def vacuity(cov, tier):
    c = cov['per_case_counters']
    problems = []
    for name in ('complement', 'complement(strict)', 'intersection', 'hashcomplement', 'hashcomplement(strict)',
                 'hashintersection', 'diff', 'diff(strict)', 'recordcomplement', 'recordcomplement(strict)',
                 'recorddiff', 'recorddiff(strict)'):
        if not c.get('nt:' + name):
            problems.append('no non-trivial case for ' + name)
    if not c.get('presorted-forms'):
        problems.append('presorted forms never ran')
    if not c.get('nt-config-forms'):
        problems.append('no non-trivial case under petl.config.sort_buffersize')
    for op in FLAKY_OPS:
        if not c.get('flaky-pass1-raised:' + op):
            problems.append('no transient-failure history for ' + op)
    for ca in CONTAINERS:
        for cb in CONTAINERS:
            for kind in ('nt-rows', 'nt-presorted-rows'):
                if not c.get('%s:%s/%s' % (kind, ca, cb)):
                    problems.append('no non-trivial case for %s %s/%s' % (kind, ca, cb))
    for ca in ALL_KINDS:
        for cb in ALL_KINDS:
            if not c.get('nt-rows:%s/%s' % (ca, cb)):
                problems.append('no non-trivial case for operand kinds %s/%s' % (ca, cb))
    for w in (1, 2, 3):
        for perm in _perms(w):
            if not c.get('nt-perm:w%d:%s' % (w, perm)):
                problems.append('no non-trivial record-variant case for width %d permutation %s' % (w, perm))
    return problems
