"""C07 — hash joins and lookups agree with the sort-merge joins.

E2: the C06 table-pair space (all key values hashable; rectangular tables only for hashantijoin) x the five
hash joins x cache on/off x three consecutive passes over the SAME view object (pass >= 2 is served from the
cached build-side dictionary).  Oracle: (1) nested-loop relational reference (header, type-faithful multiset),
(2) the rows projected onto the streamed side's columns are that side's rows in input order, (3) every pass
equals the first, (4) header and multiset equal those of the sort-merge counterpart run on the same inputs.
Lookups: every table of <=4 (5) rows over K6 x the six lookup functions x key single/compound x value forms x
strict; oracle: reference dictionary (all rows / values per key in table order; *one = first); strict=True
raises DuplicateKeyError iff a key repeats, otherwise returns the same dictionary; x dictionary= omitted /
empty dict / pre-filled dict / copy-on-read persistent-style mapping.
Further axes: the field-NAMING schemes of C06 (substring / prefix / str()-equal field names) for all hash joins;
ragged key-sorted inputs with the counterpart called presorted=True; edit-between-passes histories over editable
list sources for hashjoin/hashleftjoin/hashrightjoin x cache (cache=False: every pass current; cache=True: probe
side current, build side current or cached).
"""
import collections.abc
import itertools
import pickle

import petl as etl
from petl.errors import DuplicateKeyError

from .. import spaces
from ..refs import joins as J

ID = 'C07'
LEVEL = 'model_checking'
ENGINE = 'E2 small-scope enumeration against a nested-loop relational / dictionary reference + differential'
RULE = ('joins: the C06 pair space (every pair of tables whose key vectors are ALL tuples of length 0..3 over '
        'K4={None,i1,i2,s1}; thorough also K6 with float(i1)==i1; variants key= / lkey,rkey / natural / compound / '
        'compound with swapped right columns / CALL STYLE (documented arguments given positionally in the documented '
        'order, method syntax of a wrapped table, both; hash operator and counterpart alike) / tuple-valued cells in a single key field (K4 + (i1,), (i1,i2), (None,s1), '
        '()) with key=, missing=text, lkey/rkey by name and index / ragged shapes x missing (not hashantijoin, which does not square '
        'up) / prefixes / missing=text / right table with key fields only) x hashjoin hashleftjoin hashrightjoin '
        'hashantijoin hashlookupjoin x cache in {True, False} where the operator has the argument x passes 1,2,3 '
        'over the same view; every (variant, arguments, operator, cache, pair) point is one state, every pass one '
        'transition; per state: header + type-faithful row multiset vs the relational reference, streamed-side '
        'projection vs that side\'s rows in input order, pass 2,3 == pass 1, and header + multiset vs the '
        'sort-merge counterpart (skipped only where the counterpart lacks the argument: join has no `missing`, '
        'so ragged x missing=text is not compared for hashjoin); the C06 field-NAMING schemes (key / non-key names '
        'that are substrings, prefixes, superstrings, equal after str(), right field named like the left key) for all '
        'five hash joins, and the C06 key-argument FORM schemes (index instead of name incl. index 0 with further '
        'shared fields, one-element tuple/list, empty-string field name, mixed index/name compound keys); ragged '
        'key-sorted inputs with the counterpart called with presorted=True.  '
        'edit-between-passes: hashjoin hashleftjoin hashrightjoin over editable list sources, ALL histories '
        '(contents before, contents after) with each side ranging over every key vector of length 0..2 over '
        '{None,i1} (thorough +s1), x cache: pass, replace contents of either/both sides, pass, pass; cache=False: '
        'every pass is the relational result on the CURRENT contents; cache=True: probe side current, build side '
        'current or the one cached at pass 1.  transient source failure: all five hash joins x cache x every pair of '
        'tables with <=2 (thorough 3) rows over {None,i1,s1} x failing side in {left, right} x EVERY fail position '
        '(header, each data row, exhaustion): the source raises once, the first time a reader reaches that item, '
        'and is healthy afterwards; history pass, pass, pass over the same view: at most one pass may raise, every '
        'pass that completes must be the relational result (so a lookup cached half-filled is visible).  '
        'Non-trivial join case: both sides have rows, '
        'some pair matches, some row has no partner.  lookups: every rectangular table with <=4 rows (thorough 5) '
        'whose key column ranges over K6 (compound: two key columns, <=3 rows), plus <=3 rows with tuple-valued key '
        'cells (K4 + four tuples) and tuple-valued value cells (single and compound key) x lookup lookupone dictlookup '
        'dictlookupone recordlookup recordlookupone x value default / one field / two fields x strict x dictionary= '
        'in {omitted, empty dict, dict pre-filled with foreign keys (must stay), copy-on-read persistent-style '
        'mapping (pickle round trip on set/get, as shelve without writeback)}; selector FORMS: every table <=3 rows '
        'over {None,i1,s1} (thorough K4) under 4 headers (plain, and with the key / a middle / the last field named '
        "'') x key selector as name, index 0/1, one-element tuple/list (compound: names, indices, mixed, reversed) x "
        'value selector as default, name, index 0/1/2, empty name, one-element tuple/list, pairs of names/indices/'
        'mixed x all six functions x strict x dictionary= omitted / copy-on-read; tables WITHOUT a row-identity column '
        '(whole-row duplicates possible): every one-column key-only table <=4 rows (thorough 5) over K4, every '
        'two-column table <=3 rows over {None,i1,s1} x {None,x,y}, every three-column table <=3 rows with a constant '
        'middle field, with keys = one field / all fields / all fields reordered, x all six functions x strict '
        '(DuplicateKeyError iff a KEY repeats, also when the repeating rows are equal); '
        'non-trivial: >=2 rows.  Excluded: unhashable keys (by the statement), tables without header row, '
        'ragged tables for the lookups and anti-joins (the documentation defines no result), presorted (no such '
        'argument).')
ASSUMPTIONS = ['tables have at most 3 data rows per side (joins) / 5 rows (lookups); keys from a 3-6 value alphabet '
               '(None, two ints, a float equal to one int, two strings)',
               'sources fail at most once per history (transient-failure axis), at a single position',
               'sources change only in the edit-between-passes histories (one edit, whole-contents replacement, '
               'tables <=2 rows); richer histories are C11',
               'a pre-filled dictionary= only holds keys that do not occur in the table (behaviour on colliding '
               'pre-existing keys is not documented)',
               'dictionary key identity (1 vs 1.0 as the stored key object) and dictionary insertion order are '
               'not observed; values and cells are compared type-faithfully']

_S = {}
PASSES = 3


def build_space(tier, seed):
    V = J.pair_space(tier, seed)
    V.pop('presorted')
    V.pop('buffersize')          # the hash joins sort nothing
    for name, v in V.items():
        ops = list(J.HASH_OPS)
        if name == 'missing':
            ops = [o for o in ops if o in J.TAKES_MISSING]
        if name == 'prefix':
            ops = [o for o in ops if o in J.TAKES_PREFIX]
        if name in ('ragged', 'ragged-presorted'):
            ops = [o for o in ops if o in J.SQUARES_UP]
        v['ops'] = ops
    return V


# ---------------------------------------------------------------------------------------------
# lookups: space
# ---------------------------------------------------------------------------------------------

LOOKUP_FORMS = []      # (function name, value form, strict)
for _v in (None, 'v', ('id', 'v')):
    LOOKUP_FORMS.append(('lookup', _v, None))
for _v in (None, 'v', ('id', 'v')):
    for _s in (False, True):
        LOOKUP_FORMS.append(('lookupone', _v, _s))
LOOKUP_FORMS.append(('dictlookup', None, None))
LOOKUP_FORMS += [('dictlookupone', None, False), ('dictlookupone', None, True)]
LOOKUP_FORMS.append(('recordlookup', None, None))
LOOKUP_FORMS += [('recordlookupone', None, False), ('recordlookupone', None, True)]


def lookup_tables(tier, seed):
    """[(key spec, table)] simplest first."""
    K6, K4 = spaces.K6(seed), spaces.K4(seed)
    r = spaces.reps(seed)
    out = []
    for kv in J.key_tuples(K6, 4 if tier == 'quick' else 5):
        rows = [(k, 'id%d' % i, 'v%d' % i) for i, k in enumerate(kv)]
        out.append(('k', [('k', 'id', 'v')] + rows))
    # value cells that are None / falsy / repeated: a lookup that tests the stored VALUE instead of key
    # membership (dict.get(k) is None, `not d.get(k)`) is only visible with such values
    K3 = spaces.K3(seed)
    vcells = list(itertools.product(K3, [None, 0, 'x']))
    for kv in J.key_tuples(vcells, 3):
        rows = [(k[0], None if i % 2 else 'id%d' % i, k[1]) for i, k in enumerate(kv)]
        out.append(('k', [('k', 'id', 'v')] + rows))
    # tuple-valued cells (hashable) as single keys and as values: a tuple cell must not be taken for a compound
    # key / a multi-field value
    KT = K4 + [(r['i1'],), (r['i1'], r['i2']), (None, r['s1']), ()]
    for kv in J.key_tuples(KT, 3):
        rows = [(k, 'id%d' % i, ('v', i) if i % 2 else ()) for i, k in enumerate(kv)]
        out.append(('k', [('k', 'id', 'v')] + rows))
    tcells = list(itertools.product([r['i1'], (r['i1'],), ()], [(r['s1'],), (), 'x']))
    for kv in J.key_tuples(tcells, 3):
        rows = [(k[0], 'id%d' % i, k[1]) for i, k in enumerate(kv)]
        out.append(('k', [('k', 'id', 'v')] + rows))
    for kv in J.key_tuples(list(itertools.product([r['i1'], (r['i1'],)], [None, (r['i1'],)])), 3):
        rows = [(k[0], 'id%d' % i, k[1], 'v%d' % i) for i, k in enumerate(kv)]
        out.append((('k', 'j'), [('k', 'id', 'j', 'v')] + rows))
    if tier == 'quick':
        cells = list(itertools.product(K4, [None, r['i1']]))
    else:
        cells = list(itertools.product(K6, [None, r['i1'], float(r['i1'])]))
    for kv in J.key_tuples(cells, 3):
        rows = [(k[0], 'id%d' % i, k[1], 'v%d' % i) for i, k in enumerate(kv)]
        out.append((('k', 'j'), [('k', 'id', 'j', 'v')] + rows))
    return out


SEL_HEADERS = [('k', 'id', 'v'), ('', 'id', 'v'), ('k', '', 'v'), ('k', 'id', '')]
SEL_CHEADERS = [('k', 'id', 'j', 'v'), ('', 'id', 'j', 'v'), ('k', 'id', '', 'v'), ('k', '', 'j', 'v')]
SEL_MODES = (None, 'copying')


def selector_space(tier, seed):
    """[(table, key selector, [value selectors])]: wherever a selector may be a field name OR an index, every
    accepted form: name, index (0, 1, 2 ...), the empty-string field name, one-element tuple / list, tuples mixing
    names and indices."""
    K3, K4 = spaces.K3(seed), spaces.K4(seed)
    r = spaces.reps(seed)
    out = []
    for kv in J.key_tuples(K3 if tier == 'quick' else K4, 3):
        rows = [(k, 'id%d' % i, 'v%d' % i) for i, k in enumerate(kv)]
        for h in SEL_HEADERS:
            keys = [h[0], 0, (h[0],), [0], h[1], 1]
            values = [None, h[2], 2, 0, 1, h[1], (h[2],), [2], (h[1], h[2]), (1, 2), (0, h[2])]
            for key in keys:
                out.append(([h] + rows, key, values))
    # tables WITHOUT a row-identity column, so that rows can be equal as a whole: one-column (key-only) tables,
    # two- and three-column tables with repeated whole rows, keys covering every field.  "A key repeats" is about
    # keys, not about rows differing: strict must raise for a duplicated record too, *one keeps the first
    for kv in J.key_tuples(K4, 4 if tier == 'quick' else 5):
        t = [('k',)] + [(k,) for k in kv]
        for key in ('k', 0, ('k',)):
            out.append((t, key, [None, 'k', 0, ('k',)]))
    for kv in J.key_tuples(list(itertools.product(K3, [None, 'x', 'y'])), 3):
        t = [('k', 'v')] + [tuple(c) for c in kv]
        for key in ('k', ('k', 'v'), (1, 0), 'v'):
            out.append((t, key, [None, 'v', ('k', 'v'), 'k']))
    for kv in J.key_tuples(list(itertools.product([None, r['i1']], [None, 'x'])), 3):
        t = [('k', 'id', 'v')] + [(c[0], 'c', c[1]) for c in kv]
        for key in ('k', ('k', 'id', 'v'), ('k', 'v'), (2, 1, 0)):
            out.append((t, key, [None, 'v', ('id', 'v')]))
    cells = list(itertools.product([None, r['i1']], repeat=2))
    for kv in J.key_tuples(cells, 2):
        rows = [(k[0], 'id%d' % i, k[1], 'v%d' % i) for i, k in enumerate(kv)]
        for h in SEL_CHEADERS:
            keys = [(h[0], h[2]), (0, 2), (h[0], 2), [0, h[2]], (2, 0), (h[2], h[0])]
            values = [None, h[3], 3, 0, (3,), (h[1], h[3]), (1, 3)]
            for key in keys:
                out.append(([h] + rows, key, values))
    return out


def setup(tier, seed):
    _S.clear()
    _S['space'] = build_space(tier, seed)
    _S['lookups'] = lookup_tables(tier, seed)
    _S['names'] = J.name_schemes(tier, seed) + J.keyform_schemes(tier, seed)
    _S['namedata'] = J.name_data(tier, seed)
    _S['edit'] = edit_tables(tier, seed)
    _S['selectors'] = selector_space(tier, seed)
    _S['fail'] = fail_tables(tier, seed)


def bounds(tier, seed):
    b = {}
    for name, v in _S['space'].items():
        ncfg = sum(2 if o in J.TAKES_CACHE else 1 for o in v['ops'])
        b[name] = {'left_tables': len(v['L']), 'right_tables': len(v['R']), 'argument_forms': len(v['kw']),
                   'operators': len(v['ops']), 'states': len(v['L']) * len(v['R']) * len(v['kw']) * ncfg,
                   'passes': PASSES}
    lv, rv = _S['namedata']
    b['field-naming'] = {'schemes': len(_S['names']), 'left_key_vectors': len(lv), 'right_key_vectors': len(rv),
                         'operators': len(J.HASH_OPS)}
    b['edit-between-passes'] = {'contents_per_side': len(_S['edit']), 'histories': len(_S['edit']) ** 4,
                                'operators': len(EDIT_OPS), 'cache': 2, 'passes': 3}
    b['transient-source-failure'] = {'contents_per_side': len(_S['fail']), 'pairs': len(_S['fail']) ** 2,
                                     'failing_side': 2, 'positions': 'header, every row, exhaustion',
                                     'operators': len(J.HASH_OPS), 'passes': 3}
    b['lookup-selector-forms'] = {'table_x_key_selector': len(_S['selectors']),
                                  'calls': sum((2 * 3 * len(v) + 6) * len(SEL_MODES) for _, _, v in _S['selectors'])}
    b['lookup_dictionary_modes'] = [str(m) for m in DICT_MODES]
    b['lookups'] = {'tables': len(_S['lookups']), 'call_forms': len(LOOKUP_FORMS),
                    'cases': len(_S['lookups']) * len(LOOKUP_FORMS) * len(DICT_MODES)}
    b['key_alphabet'] = [repr(x) for x in spaces.K6(seed)]
    return b


TARGET = 600      # (pair, kwargs) points per work item, ~2 ms each


def items(tier, seed):
    out = []
    for name, v in _S['space'].items():
        per_left = len(v['R']) * len(v['kw'])
        size = max(1, TARGET // max(1, per_left))
        for lo in range(0, len(v['L']), size):
            out.append(('join', name, lo, min(len(v['L']), lo + size)))
    lv, rv = _S['namedata']
    size = max(1, TARGET // (len(lv) * len(rv) * len(_S['names'][0]['kw'])))
    for lo in range(0, len(_S['names']), size):
        out.append(('names', 'field-naming', lo, min(len(_S['names']), lo + size)))
    npairs = len(_S['edit']) ** 2
    size = max(1, 6000 // (npairs * len(EDIT_OPS) * 2))
    for lo in range(0, npairs, size):
        out.append(('edit', 'edit-between-passes', lo, min(npairs, lo + size)))
    n = len(_S['fail']) ** 2
    for lo in range(0, n, 40):
        out.append(('fail', 'transient-source-failure', lo, min(n, lo + 40)))
    n = len(_S['selectors'])
    for lo in range(0, n, 250):
        out.append(('selectors', 'lookup-selector-forms', lo, min(n, lo + 250)))
    n = len(_S['lookups'])
    size = 500
    for lo in range(0, n, size):
        out.append(('lookup', 'lookups', lo, min(n, lo + size)))
    return out


# ---------------------------------------------------------------------------------------------
# one hash-join case
# ---------------------------------------------------------------------------------------------

def _rows(tbl):
    return [tuple(r) for r in tbl]


def _exc(e):
    """Safe rendering of an exception (DuplicateKeyError.__str__ itself fails for tuple keys)."""
    try:
        return '%s: %s' % (type(e).__name__, str(e)[:200])
    except Exception:
        return '%s: %r' % (type(e).__name__, getattr(e, 'args', ()))


def _sig_rows(missing, extra):
    return ('rows missing' if not extra else 'unexpected rows' if not missing
            else 'rows missing and unexpected rows')


def counterpart_kwargs(op, left, right, kw):
    """Arguments for the sort-merge counterpart, or None when the call cannot be expressed (the counterpart has
    no `missing` argument and the value would matter because rows get padded)."""
    cp = J.COUNTERPART[op]
    kw2 = {k: v for k, v in kw.items() if k != 'cache'}
    if 'missing' in kw2 and cp not in J.TAKES_MISSING:
        ragged = any(len(r) != len(left[0]) for r in left[1:]) or any(len(r) != len(right[0]) for r in right[1:])
        if ragged and kw2['missing'] is not None:
            return None
        kw2.pop('missing')
    return kw2


def check_hash(op, left, right, kw, passes=PASSES, stats=None):
    """All failures of hash operator `op` on (left, right, kw): list of (group, expected, observed, message).
    kw may contain cache=..."""
    fails = []
    rkw = {k: v for k, v in kw.items() if k not in ('cache', 'presorted')}
    kw = {k: v for k, v in kw.items() if k != 'presorted'}      # the hash joins have no such argument
    hdr, rows, lidx = J.relational(op, left, right, stream=J.STREAMED[op], **rkw)
    exp = [hdr] + rows
    outs = []
    try:
        view = J.invoke(etl, op, left, right, kw)
        for p in range(passes):
            outs.append(_rows(view))
            if stats is not None:
                stats['transitions'] += 1
    except Exception as e:
        fails.append(('%s | raises %s' % (op, type(e).__name__), exp,
                      _exc(e),
                      '%s raised %s (pass %d) on inputs with hashable keys' % (op, type(e).__name__, len(outs) + 1)))
        return fails, None
    out = outs[0]
    ok_ref = True
    if not out or tuple(out[0]) != hdr:
        ok_ref = False
        fails.append(('%s | header differs' % op, hdr, out[0] if out else None,
                      'header of %s differs from the documented one' % op))
    else:
        missing, extra = J.multiset_diff(rows, out[1:])
        if missing or extra:
            ok_ref = False
            fails.append(('%s | %s' % (op, _sig_rows(missing, extra)), exp, out,
                          '%s: multiset of rows differs from the relational reference; missing=%r unexpected=%r'
                          % (op, missing[:4], extra[:4])))
        else:
            got = J.streamed_projection(op, out[1:], left, right, **rkw)
            want = J.streamed_projection(op, rows, left, right, **rkw)
            if got != want:
                fails.append(('%s | not in the order of the streamed (%s) table' % (op, J.STREAMED[op]),
                              want, got, '%s: output projected onto the %s table\'s columns is not that table\'s '
                              'rows in input order' % (op, J.STREAMED[op])))
    for p in range(1, len(outs)):
        if [J.canon_row(r) for r in outs[p]] != [J.canon_row(r) for r in out]:
            fails.append(('%s | pass %s differs from pass 1 (cache=%r)' % (op, '>=2', kw.get('cache', 'n/a')),
                          out, outs[p], '%s: pass %d over the same view differs from pass 1' % (op, p + 1)))
            break
    return fails, (out if ok_ref else None)


def check_counterpart(op, left, right, kw, hash_out):
    """Differential clause: header and multiset of `op` equal those of its sort-merge counterpart.
    hash_out: the hash operator's first-pass output when it agrees with the reference (else None: the hash
    operator's own deviation is already reported and the comparison would only repeat it)."""
    cp = J.COUNTERPART[op]
    ckw = counterpart_kwargs(op, left, right, kw)
    if ckw is None or hash_out is None:
        return []
    try:
        mout = _rows(J.invoke(etl, cp, left, right, ckw))
    except Exception as e:
        return [('%s vs %s | counterpart raises %s (hash result is the relational one)'
                 % (op, cp, type(e).__name__), hash_out, _exc(e),
                 '%s raised %s where %s returns the relational result' % (cp, type(e).__name__, op))]
    if tuple(mout[0]) != tuple(hash_out[0]):
        return [('%s vs %s | headers differ (hash result is the relational one)' % (op, cp), hash_out[0], mout[0],
                 'headers of %s and %s differ' % (op, cp))]
    missing, extra = J.multiset_diff(hash_out[1:], mout[1:])
    if missing or extra:
        return [('%s vs %s | row multisets differ (hash result is the relational one)' % (op, cp), hash_out, mout,
                 '%s and %s return different multisets of rows; %s lacks %r, has extra %r'
                 % (op, cp, cp, missing[:4], extra[:4]))]
    return []


def check_pair(op, left, right, kw, stats=None):
    fails, good = check_hash(op, left, right, kw, stats=stats)
    return fails, good


# ---------------------------------------------------------------------------------------------
# one lookup case
# ---------------------------------------------------------------------------------------------

def _norm(v):
    """Record -> tuple, list of Records -> list of tuples; everything else unchanged (canon does the rest)."""
    if isinstance(v, list):
        return [_norm(x) for x in v]
    if isinstance(v, tuple):
        return tuple(v)
    return v


class CopyStore(collections.abc.MutableMapping):
    """A persistent-style mapping (the contract of shelve without writeback, the documented use of
    `dictionary=`): values are serialised on assignment and a fresh copy is handed out on every access, so a
    value mutated after it was fetched is lost unless it is assigned back.  Values that cannot be pickled
    (petl Records) are snapshotted container-wise instead."""

    def __init__(self):
        self._d = {}

    @staticmethod
    def _snap(v):
        if isinstance(v, list):
            return [CopyStore._snap(x) for x in v]
        if type(v) is dict:
            return dict(v)
        return v

    def __getitem__(self, k):
        kind, blob = self._d[k]
        return pickle.loads(blob) if kind == 'p' else self._snap(blob)

    def __setitem__(self, k, v):
        try:
            blob = pickle.dumps(v)
            if J.canon(_norm(pickle.loads(blob))) != J.canon(_norm(v)):
                raise ValueError('does not survive pickling')
            self._d[k] = ('p', blob)
        except Exception:
            self._d[k] = ('s', self._snap(v))

    def __delitem__(self, k):
        del self._d[k]

    def __iter__(self):
        return iter(self._d)

    def __len__(self):
        return len(self._d)


DICT_MODES = (None, 'dict', 'prefilled', 'copying')
FOREIGN = [(('foreign', 0), ['kept']), ('~other~', 'kept too')]    # keys that no enumerated table contains


def make_dictionary(mode):
    if mode is None:
        return None
    if mode == 'dict':
        return {}
    if mode == 'prefilled':
        return dict((k, v if not isinstance(v, list) else list(v)) for k, v in FOREIGN)
    if mode == 'copying':
        return CopyStore()
    raise ValueError(mode)


def check_lookup(fn, table, key, value, strict, dmode=None):
    """None, or (signature, expected, observed, message)."""
    pairs, dup = J.lookup_ref(fn, table, key, value)
    args = [table, key]
    kw = {}
    if dmode is not None:
        kw['dictionary'] = make_dictionary(dmode)
    tpairs = pairs
    if dmode == 'prefilled':
        pairs = list(FOREIGN) + pairs       # entries already in the caller's dictionary stay as they are
    if fn in ('lookup', 'lookupone') and value is not None:
        kw['value'] = value
    if strict is not None:
        kw['strict'] = strict
    try:
        d = getattr(etl, fn)(*args, **kw)
    except DuplicateKeyError as e:
        if strict and dup:
            return None
        return ('raises DuplicateKeyError although %s' % ('strict is off' if not strict else 'no key repeats'),
                pairs, _exc(e), '%s raised DuplicateKeyError unexpectedly' % fn)
    except Exception as e:
        return ('raises %s' % type(e).__name__, pairs if not (strict and dup) else 'DuplicateKeyError',
                _exc(e), '%s raised %s' % (fn, type(e).__name__))
    if strict and dup:
        return ('strict=True did not raise DuplicateKeyError on a repeated key', 'DuplicateKeyError',
                _show(d), '%s(strict=True) returned a dictionary although a key repeats' % fn)
    try:
        obs = {k: _norm(v) for k, v in d.items()}
    except Exception as e:
        return ('result is not a dictionary', pairs, repr(d)[:200], _exc(e))
    bad = len(obs) != len(pairs)
    if not bad:
        for k, want in pairs:
            if k not in obs or J.canon(obs[k]) != J.canon(want):
                bad = True
                break
    if bad:
        return ('dictionary differs from the reference', pairs, _show(d),
                '%s: lookup dictionary differs from {key: %s in table order}'
                % (fn, 'first row/value' if fn.endswith('one') else 'all rows/values'))
    if fn.startswith('record'):
        # a record gives access to its cells by field name
        hdr = [str(f) for f in table[0]]
        for k, want in tpairs:
            recs = d[k] if not fn.endswith('one') else [d[k]]
            wants = want if not fn.endswith('one') else [want]
            for rec, w in zip(recs, wants):
                for i, f in enumerate(hdr):
                    try:
                        ok = J.canon(rec[f]) == J.canon(w[i])
                    except Exception:
                        ok = False
                    if not ok:
                        return ('record field access differs from the row', pairs, _show(d),
                                '%s: record[%r] is not the cell of that field' % (fn, f))
    return None


def _show(d):
    try:
        return [(k, _norm(v)) for k, v in d.items()]
    except Exception:
        return repr(d)[:300]


# ---------------------------------------------------------------------------------------------
# edit-between-passes axis: history  pass, edit(probe and/or build side), pass, pass  on editable list sources
# ---------------------------------------------------------------------------------------------

EDIT_OPS = ('hashjoin', 'hashleftjoin', 'hashrightjoin')
BUILD_SIDE = {'hashjoin': 'right', 'hashleftjoin': 'right', 'hashrightjoin': 'left'}
EDIT_KW = {'key': 'k'}


def edit_tables(tier, seed):
    """Key vectors for the contents of either source before / after the edit."""
    r = spaces.reps(seed)
    alpha = [None, r['i1']] if tier == 'quick' else [None, r['i1'], r['s1']]
    return J.key_tuples(alpha, 2)


def edit_versions(l0, r0, l1, r1):
    """Tables before and after the edit; a side whose key vector does not change is not edited at all, an edited
    side gets fresh row ids (so stale rows are recognisable even when the keys are the same)."""
    L0 = J.rect_table(('k', 'lid'), [0], l0, 'L')
    R0 = J.rect_table(('k', 'rid'), [0], r0, 'R')
    L1 = L0 if l1 == l0 else J.rect_table(('k', 'lid'), [0], l1, 'M')
    R1 = R0 if r1 == r0 else J.rect_table(('k', 'rid'), [0], r1, 'S')
    return L0, R0, L1, R1


def _agrees(op, out, left, right, kw):
    rkw = {k: v for k, v in kw.items() if k != 'cache'}
    hdr, rows, _ = J.relational(op, left, right, stream=J.STREAMED[op], **rkw)
    if not out or tuple(out[0]) != hdr:
        return False
    missing, extra = J.multiset_diff(rows, out[1:])
    if missing or extra:
        return False
    return (J.streamed_projection(op, out[1:], left, right, **rkw) ==
            J.streamed_projection(op, rows, left, right, **rkw))


def check_edit(op, kw, l0, r0, l1, r1, stats=None):
    """None or (signature, expected, observed, message).  cache=False: every pass is the relational result on
    the CURRENT contents.  cache=True: the streamed (probe) side must be current, the build side may be the one
    cached at the first pass or the current one."""
    L0, R0, L1, R1 = edit_versions(l0, r0, l1, r1)
    lsrc, rsrc = list(L0), list(R0)
    cache = kw.get('cache', True)
    rkw = {k: v for k, v in kw.items() if k != 'cache'}
    outs = []
    try:
        view = getattr(etl, op)(lsrc, rsrc, **kw)
        outs.append(_rows(view))
        lsrc[:] = L1
        rsrc[:] = R1
        outs.append(_rows(view))
        outs.append(_rows(view))
        if stats is not None:
            stats['transitions'] += 3
    except Exception as e:
        return ('raises %s' % type(e).__name__, None, _exc(e),
                '%s raised %s in pass %d of the history pass, edit, pass, pass' % (op, type(e).__name__, len(outs) + 1))
    if not _agrees(op, outs[0], L0, R0, kw):
        return ('first pass differs from the reference', [J.relational(op, L0, R0, **rkw)[0]] +
                J.relational(op, L0, R0, **rkw)[1], outs[0], '%s: pass 1 over editable sources is wrong' % op)
    if cache:
        allowed = [(L1, R1), (L1, R0) if BUILD_SIDE[op] == 'right' else (L0, R1)]
    else:
        allowed = [(L1, R1)]
    for p in (1, 2):
        if not any(_agrees(op, outs[p], l, r, kw) for l, r in allowed):
            exp = [[J.relational(op, l, r, **rkw)[0]] + J.relational(op, l, r, **rkw)[1] for l, r in allowed]
            what = ('is not the relational result on the current contents' if not cache else
                    'matches neither the current contents nor current probe side + build side cached at pass 1')
            return ('pass after an edit of the sources %s (cache=%r)' % (what, cache), exp, outs[p],
                    '%s(cache=%r): pass %d after the edit %s' % (op, cache, p + 1, what))
    return None


def run_edit(lo, hi, acc):
    vecs = _S['edit']
    pairs = list(itertools.product(vecs, repeat=2))
    stats = {'transitions': 0}
    for l0, r0 in pairs[lo:hi]:
        for l1, r1 in pairs:
            for op in EDIT_OPS:
                build_changed = (r0 != r1) if BUILD_SIDE[op] == 'right' else (l0 != l1)
                for cache in (False, True):
                    kw = dict(EDIT_KW, cache=cache)
                    acc.states += 1
                    acc.evals += 3
                    acc.counters['edit:' + op] += 1
                    if build_changed:
                        acc.nontrivial += 1
                        acc.counters['nontrivial-edit:' + op] += 1
                    r = check_edit(op, kw, l0, r0, l1, r1, stats)
                    acc.outcome(('edit', op, cache, len(l0), len(r1), r is None))
                    if r is not None:
                        acc.violation('%s | %s' % (op, r[0]),
                                      {'kind': 'edit', 'op': op, 'kwargs': kw, 'l0': l0, 'r0': r0, 'l1': l1,
                                       'r1': r1}, r[1], r[2], r[3])
    acc.transitions += stats['transitions']


# ---------------------------------------------------------------------------------------------
# transient-failure axis: one source raises ONCE at item position i (0 = header, 1..n = data row, n+1 = instead
# of exhaustion) the first time any iterator reaches it and is healthy afterwards; history: pass (may raise),
# pass, pass over the SAME view.  Every pass that completes must be the relational result.
# ---------------------------------------------------------------------------------------------

class Boom(Exception):
    pass


class OnceFailing(object):
    """A table whose first reader to arrive at item `fail_at` gets an exception; afterwards it is healthy."""

    def __init__(self, table, fail_at):
        self.items = [tuple(r) for r in table]
        self.fail_at = fail_at
        self.armed = fail_at is not None
        self.fired = 0

    def __iter__(self):
        return self._gen()

    def _gen(self):
        for pos, item in enumerate(self.items):
            if self.armed and pos == self.fail_at:
                self.armed = False
                self.fired += 1
                raise Boom('injected transient failure at item %d' % pos)
            yield item
        if self.armed and self.fail_at == len(self.items):
            self.armed = False
            self.fired += 1
            raise Boom('injected transient failure at exhaustion')


FAIL_KW = {'key': 'k'}


def fail_tables(tier, seed):
    return J.key_tuples(spaces.K3(seed), 2 if tier == 'quick' else 3)


def check_fail(op, kw, lvec, rvec, side, pos, stats=None):
    """None or (signature, expected, observed, message)."""
    L = J.rect_table(('k', 'lid'), [0], lvec, 'L')
    R = J.rect_table(('k', 'rid'), [0], rvec, 'R')
    lsrc = OnceFailing(L, pos) if side == 'left' else L
    rsrc = OnceFailing(R, pos) if side == 'right' else R
    rkw = {k: v for k, v in kw.items() if k != 'cache'}
    hdr, rows, _ = J.relational(op, L, R, stream=J.STREAMED[op], **rkw)
    exp = [hdr] + rows
    try:
        view = getattr(etl, op)(lsrc, rsrc, **kw)
    except Boom:
        return None          # construction read the source (allowed); nothing to observe on this view
    except Exception as e:
        return ('raises %s at construction' % type(e).__name__, exp, _exc(e), '%s raised %s' % (op, type(e).__name__))
    failed_pass = None
    for p in range(3):
        try:
            out = _rows(view)
        except Boom:
            if failed_pass is not None:
                return ('transient source failure surfaces twice', exp, 'Boom in pass %d and pass %d' % (failed_pass + 1, p + 1),
                        '%s: the source failed once but two passes raised' % op)
            failed_pass = p
            continue
        except Exception as e:
            return ('raises %s after a transient source failure' % type(e).__name__, exp, _exc(e),
                    '%s raised %s in pass %d (source failed once at item %d of the %s table)'
                    % (op, type(e).__name__, p + 1, pos, side))
        finally:
            if stats is not None:
                stats['transitions'] += 1
        if not _agrees(op, out, L, R, kw):
            when = ('the pass in which the source failed' if failed_pass is None and (lsrc if side == 'left' else rsrc).fired
                    and p == 0 else 'a pass after the pass in which a source failed' if failed_pass is not None
                    else 'a pass')
            return ('%s completes with a result that is not the relational one (cache=%r)' % (when, kw.get('cache', 'n/a')),
                    exp, out, '%s: pass %d differs from the relational result; the %s table failed once at item %d'
                    % (op, p + 1, side, pos))
    return None


def run_fail(lo, hi, acc):
    vecs = _S['fail']
    pairs = list(itertools.product(vecs, repeat=2))
    stats = {'transitions': 0}
    for lvec, rvec in pairs[lo:hi]:
        for op in J.HASH_OPS:
            for cache in ((True, False) if op in J.TAKES_CACHE else (None,)):
                kw = dict(FAIL_KW)
                if cache is not None:
                    kw['cache'] = cache
                for side, vec in (('left', lvec), ('right', rvec)):
                    for pos in range(len(vec) + 3):          # header, each row, exhaustion
                        acc.states += 1
                        acc.evals += 3
                        acc.counters['fail:' + op] += 1
                        build = 'left' if op == 'hashrightjoin' else 'right'
                        if side == build and 1 <= pos <= len(vec) + 1 and len(vec) >= 1:
                            acc.nontrivial += 1
                            acc.counters['nontrivial-fail:' + op] += 1
                        r = check_fail(op, kw, lvec, rvec, side, pos, stats)
                        acc.outcome(('fail', op, cache, side, pos, r is None))
                        if r is not None:
                            acc.violation('%s | %s' % (op, r[0]),
                                          {'kind': 'fail', 'op': op, 'kwargs': kw, 'lvec': lvec, 'rvec': rvec,
                                           'side': side, 'pos': pos}, r[1], r[2], r[3])
    acc.transitions += stats['transitions']


# ---------------------------------------------------------------------------------------------
# replay / run
# ---------------------------------------------------------------------------------------------

def replay(case):
    if case['kind'] == 'fail':
        r = check_fail(case['op'], case['kwargs'], case['lvec'], case['rvec'], case['side'], case['pos'])
        return None if r is None else (r[1], r[2], r[0] + ': ' + r[3])
    if case['kind'] == 'edit':
        r = check_edit(case['op'], case['kwargs'], case['l0'], case['r0'], case['l1'], case['r1'])
        return None if r is None else (r[1], r[2], r[0] + ': ' + r[3])
    if case['kind'] == 'hash':
        fails, good = check_hash(case['op'], case['left'], case['right'], case['kwargs'])
        if case.get('clause') == 'counterpart':
            fails = check_counterpart(case['op'], case['left'], case['right'], case['kwargs'], good)
        fails = [f for f in fails if f[0] == case['group']] or fails
        if not fails:
            return None
        f = fails[0]
        return (f[1], f[2], f[0] + ': ' + f[3])
    r = check_lookup(case['fn'], case['table'], case['key'], case['value'], case['strict'], case.get('dmode'))
    if r is None:
        return None
    return (r[1], r[2], r[0] + ': ' + r[3])


def _do_pair(acc, name, left, right, kw, ops, allkw, stats):
    nt = J.nontrivial_pair(left, right, kw)
    for op in ops:
        kw1 = kw
        drop = [k for k in kw if (k == 'missing' and op not in J.TAKES_MISSING) or
                (k in ('lprefix', 'rprefix') and op not in J.TAKES_PREFIX)]
        if drop:
            kw1 = {k: x for k, x in kw.items() if k not in drop}
            if kw1 in allkw:
                continue
        good = None
        for cache in ((True, False) if op in J.TAKES_CACHE else (None,)):
            kw2 = dict(kw1)
            if cache is not None:
                kw2['cache'] = cache
            acc.states += 1
            acc.evals += 3          # reference, streamed order, passes
            acc.counters['op:' + op] += 1
            if nt:
                acc.nontrivial += 1
                acc.counters['nontrivial:' + op] += 1
            fails, good = check_hash(op, left, right, kw2, stats=stats)
            acc.outcome((op, len(left), len(right), len(fails)))
            for g, e, o, m in fails:
                acc.violation(g, {'kind': 'hash', 'variant': name, 'op': op, 'left': left,
                                  'right': right, 'kwargs': kw2, 'group': g}, e, o, m)
        # differential clause, once per (pair, arguments, operator), with the last configuration
        if counterpart_kwargs(op, left, right, kw2) is not None:
            acc.evals += 1
            stats['transitions'] += 1
            acc.counters['counterpart:' + J.COUNTERPART[op]] += 1
            for g, e, o, m in check_counterpart(op, left, right, kw2, good):
                acc.violation(g, {'kind': 'hash', 'clause': 'counterpart', 'variant': name, 'op': op,
                                  'left': left, 'right': right, 'kwargs': kw2, 'group': g}, e, o, m)


def _selform(x):
    """Abstract form of a selector for group names: name / index / '' / tuple-of-forms."""
    if x is None:
        return 'default'
    if isinstance(x, (tuple, list)):
        return 'one-element sequence' if len(x) == 1 else 'sequence'
    if isinstance(x, int):
        return 'index'
    return "''" if x == '' else 'name'


def run_selectors(lo, hi, acc):
    for table, key, values in _S['selectors'][lo:hi]:
        for fn, strict in (('lookup', None), ('lookupone', False), ('lookupone', True), ('dictlookup', None),
                           ('dictlookupone', False), ('dictlookupone', True), ('recordlookup', None),
                           ('recordlookupone', False), ('recordlookupone', True)):
            for value in (values if fn in ('lookup', 'lookupone') else [None]):
                for dmode in SEL_MODES:
                    acc.evals += 1
                    acc.states += 1
                    acc.transitions += 1
                    acc.counters['selectors:' + fn] += 1
                    if len(table) > 2:
                        acc.nontrivial += 1
                    r = check_lookup(fn, table, key, value, strict, dmode)
                    acc.outcome(('sel', fn, strict, len(table), r is None))
                    if r is not None:
                        # few groups: name the value selector's form when one is given, else the key's
                        form = ('%s(value=%s)' % (fn, _selform(value)) if value is not None
                                else '%s(key=%s)' % (fn, _selform(key)))
                        acc.violation('%s | %s' % (form, r[0]),
                                      {'kind': 'lookup', 'fn': fn, 'table': table, 'key': key, 'value': value,
                                       'strict': strict, 'dmode': dmode}, r[1], r[2], r[3])


def run_item(item, acc):
    kind, name, lo, hi = item
    if kind == 'lookup':
        for key, table in _S['lookups'][lo:hi]:
            for fn, value, strict in LOOKUP_FORMS:
                base_sig = None
                for dmode in DICT_MODES:
                    acc.evals += 1
                    acc.states += 1
                    acc.transitions += 1
                    acc.counters['op:' + fn] += 1
                    acc.counters['dictionary=%s' % dmode] += 1
                    if len(table) > 2:
                        acc.nontrivial += 1
                        acc.counters['nontrivial:' + fn] += 1
                    r = check_lookup(fn, table, key, value, strict, dmode)
                    acc.outcome((fn, strict, len(table), r is None))
                    if dmode is None:
                        base_sig = r[0] if r is not None else None
                    if r is not None:
                        # a failure that the default call shows too is not specific to the dictionary argument
                        tagged = dmode is not None and r[0] != base_sig
                        form = '%s(%s)' % (fn, ', '.join(
                            ([] if value is None else ['value']) + (['strict'] if strict else []) +
                            (['dictionary=<%s>' % dmode] if tagged else [])))
                        acc.violation('%s | %s' % (form, r[0]),
                                      {'kind': 'lookup', 'fn': fn, 'table': table, 'key': key, 'value': value,
                                       'strict': strict, 'dmode': dmode}, r[1], r[2], r[3])
        if lo == 0:
            key, table = _S['lookups'][min(len(_S['lookups']) - 1, 300)]
            acc.sample({'lookup_table': table, 'key': key, 'reference_lookup': J.lookup_ref('lookup', table, key)[0]}, 1)
        return
    if kind == 'edit':
        run_edit(lo, hi, acc)
        return
    if kind == 'fail':
        run_fail(lo, hi, acc)
        return
    if kind == 'selectors':
        run_selectors(lo, hi, acc)
        return
    stats = {'transitions': 0}
    if kind == 'names':
        for sc in _S['names'][lo:hi]:
            lv, rv = sc.get('data') or _S['namedata']
            for lvec in lv:
                left = J.tagged_table(sc['lhdr'], sc['lk'], lvec, 'L')
                for rvec in rv:
                    right = J.tagged_table(sc['rhdr'], sc['rk'], rvec, 'R')
                    for kw in sc['kw']:
                        _do_pair(acc, sc['form'] if ':' in sc['form'] else 'names:' + sc['form'], left, right, kw, J.HASH_OPS, sc['kw'], stats)
        acc.transitions += stats['transitions']
        return
    v = _S['space'][name]
    for left in v['L'][lo:hi]:
        for right in v['R']:
            for kw in v['kw']:
                _do_pair(acc, name, left, right, kw, v['ops'], v['kw'], stats)
    acc.transitions += stats['transitions']
    if lo == 0:
        left, right = v['L'][min(len(v['L']) - 1, 7)], v['R'][min(len(v['R']) - 1, 9)]
        sop = v['ops'][0]
        acc.sample({'variant': name, 'op': sop, 'left': left, 'right': right, 'kwargs': v['kw'][0],
                    'reference': J.relational(sop, left, right, **v['kw'][0])[:2]}, 1)


def vacuity(cov, tier):
    problems = []
    c = cov['per_case_counters']
    for op in list(J.HASH_OPS) + sorted(set(f[0] for f in LOOKUP_FORMS)):
        if not c.get('op:' + op):
            problems.append('%s never evaluated' % op)
        elif not c.get('nontrivial:' + op):
            problems.append('%s has no non-trivial case' % op)
    return problems


# ---------------------------------------------------------------------------------------------
# classifier for known_findings.json: the deviation is the sort-merge counterpart's (a C06 defect)
# ---------------------------------------------------------------------------------------------

def _counterpart_deviates(group, case, params):
    """The hash operator returns the relational result; its sort-merge counterpart (params['counterpart'], if
    given) does not: the violation belongs to C06."""
    if case.get('kind') != 'hash' or case.get('clause') != 'counterpart':
        return False
    if params.get('counterpart') and J.COUNTERPART[case['op']] != params['counterpart']:
        return False
    fails, good = check_hash(case['op'], case['left'], case['right'], case['kwargs'])
    return not fails and good is not None


CLASSIFIERS = {'sort_merge_counterpart_deviates_from_reference': _counterpart_deviates}
