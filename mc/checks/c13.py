"""C13 — selections return exactly the satisfying rows; the complement is the exact rest.

E2: every table with <= N rows over a mixed-type cell alphabet (None, two ints, an equal float, two
strings, bytes, True [+ tuple/list cells in thorough]) and the row shape `short` (selected field
missing) is pushed through every selector x every reference value (all pairs for the range selectors)
x complement on/off on the real petl; the rows that come back are compared with the input rows
filtered by the documented predicate (mc/refs/selects.py, ordering = independent C04 reference).
Positional selectors: every islice argument triple over {None, 0, 1, 2, 5} on tables of 0..7 rows.
"""
import itertools
import re

import petl as etl

from .. import refmodel as ref
from .. import spaces
from ..refs import selects as R

ID = 'C13'
LEVEL = 'model_checking'
ENGINE = 'E2 small-scope enumeration against reference predicates'
RULE = ('all tables (id, x) with <= N rows, x over the mixed-type alphabet or missing (short row), through '
        'selecteq/ne/lt/le/gt/ge x every reference value, the four range selectors x every (min, max) pair, '
        'selectin/notin x every container of <= 2 values (tuple/list/set) and, on tables <= 2 (3) rows over '
        'cells None/int/str of length 0-2/tuple/unhashable list and dict/missing, x every KIND of container '
        '(tuple, list, set, frozenset, dict, str with substring semantics, range, an object with __contains__ '
        'only), selectis/isnot, selectisinstance, '
        'all value selectors (eq/ne/lt/le/gt/ge, in/notin x tuple and list containers of <= 2 members, is/isnot, '
        'contains, facet) additionally over SEQUENCE-valued cells and reference values on tables <= 2 (3) rows: '
        '(i1,i2), [i1,i2], (i1,), [i1], ((i1,),), ([i1],), [(i1,)], [[i1]], (), [], i1, None, missing — oracle for '
        'eq/ne/in/notin/contains is plain Python ==; search also with regex flags (IGNORECASE, VERBOSE, both) and '
        'patterns that only match under the flag; '
        'selectnone/notnone/true/false (also over every falsy value class: False, 0, 0.0, empty str/bytes/tuple/'
        'list), select with field / row / expression predicates (missing None and a '
        'marker), biselect, facet, search/searchcomplement (whole row, one field, several fields), rowlenselect '
        '(row lengths 0..3), selectusingcontext, each with complement off and on; rowslice x every '
        '(start, stop, step) over {None,0,1,2,5}, head/tail/skip n in 0..6 and default. PASS HISTORIES: for '
        'every rectangular base table <= 2 (3) rows, ~110 field-based views (selecteq/ne/lt/ge, two range '
        'selectors, selectin/notin, none/notnone/true/false/is, select(field, fn), both biselect halves, every '
        'facet table; field by name and by index; complement off/on) are built ONCE over a live source and '
        'every event sequence of length <= 3 (4) over {pass, insert leading column, swap first two columns, '
        'drop / rename the first non-selected column, reverse rows} ending in a pass is executed; every pass '
        'must equal the reference on the source as it is at that moment. states = distinct '
        '(table, selector, arguments, complement) points. A case (table, selector, arguments) is non-trivial '
        'when the selection and its complement are both non-empty. EXCLUDED (documentation gives no answer): '
        'single-/multi-'
        'field search and multi-field selection on rows lacking that field; facet over unhashable cells; '
        'negative islice arguments; selectcontains on non-container cells; selectin/notin where the Python '
        'expression `v in value` itself raises TypeError (unhashable cell vs set/frozenset/dict, non-str cell vs '
        'str container); passes while the selected field is absent from the current header')
ASSUMPTIONS = ['cell alphabet limited to 8 (quick) / 11 (thorough) representatives; seed picks the concrete '
               'ints/strings', 'tables have <= 3 (quick) / <= 4 (thorough) rows for the value selectors, '
               '<= 7 rows for the positional ones', 'NaN excluded by the C04 statement']

MARK = '∅'           # the non-None `missing` marker
SHORT = ('short',)       # option: the row has no x cell
HDR = ('id', 'x')

_A = None        # cell alphabet (objects; identity matters for selectis)
_BASE = 0        # how many leading values of _A form the base alphabet
_TABLES = None   # list of option-index tuples, simplest first
_TIER = 'quick'
_CANON = None


# ---------------------------------------------------------------------------------------------
# spaces
# ---------------------------------------------------------------------------------------------

def alphabet(tier, seed):
    r = spaces.reps(seed)
    i1, i2, s1, s2 = r['i1'], r['i2'], r['s1'], r['s2']
    base = [None, i1, i2, float(i1), s1, s2, s1.encode(), True]
    ext = [(i1,), [i1], (None, s1)] if tier == 'thorough' else []
    return base + ext, len(base)


def setup(tier, seed):
    global _A, _BASE, _TABLES, _TIER, _CANON
    _TIER = tier
    _A, _BASE = alphabet(tier, seed)
    nopt = len(_A) + 1                      # + SHORT
    tabs = []
    nmax = 3
    for n in range(nmax + 1):
        tabs.extend(itertools.product(range(nopt), repeat=n))
    if tier == 'thorough':                  # 4-row tables over the base alphabet + SHORT
        base_opts = list(range(_BASE)) + [len(_A)]
        tabs.extend(itertools.product(base_opts, repeat=4))
    _TABLES = tabs
    _CANON = {(type(v).__name__, repr(v)): v for v in list(_A) + seq_alphabet()}


def canon(v):
    """Map a decoded value back to the alphabet object (restores object identity for selectis)."""
    if _CANON is None:
        return v
    return _CANON.get((type(v).__name__, repr(v)), v)


def mk_table(opts):
    rows = [HDR]
    for i, o in enumerate(opts):
        rows.append((i,) if o == len(_A) else (i, _A[o]))
    return rows


def bounds(tier, seed):
    return {'alphabet': [repr(v) for v in _A], 'value_tables': len(_TABLES),
            'max_rows_value_selectors': 4 if tier == 'thorough' else 3,
            'slice_values': [None, 0, 1, 2, 5], 'max_rows_positional': 7}


FAMILIES = ('cmp', 'range', 'unary', 'in', 'is', 'isinstance', 'select', 'rowselect', 'facet', 'search',
            'rowlen', 'context', 'slice', 'contains')
# relative cost per table (number of petl evaluations, roughly)
_W = {'cmp': 200, 'range': 600, 'unary': 16, 'in': 300, 'is': 64, 'isinstance': 40, 'select': 80,
      'rowselect': 80, 'facet': 10, 'search': 60}


def items(tier, seed):
    """Heavy families first (better packing of the pool); inside a family the chunks are in table order
    (fewest rows first) so that the first case of a violation group is a smallest one.  No cost():
    the runner would otherwise merge the groups of the most expensive (= largest) chunks first."""
    out = []
    nt = len(_TABLES)
    for fam in ('range', 'in', 'cmp', 'select', 'rowselect', 'search', 'is', 'isinstance', 'unary', 'facet'):
        nchunks = max(2, min(256, (nt * _W[fam] * (3 if tier == 'thorough' else 1)) // 15000))
        size = (nt + nchunks - 1) // nchunks
        for c in range(nchunks):
            if c * size < nt:
                out.append((fam, c * size, min(nt, (c + 1) * size)))
    for n in range(0, 4):
        out.append(('rowlen', n, 0))
    for n in range(0, 4):
        out.append(('truth', n, 0))
    for n in range(0, 5 if tier == 'thorough' else 4):
        out.append(('context', n, 0))
    for n in range(0, 8):
        out.append(('slice', n, 0))
    out.append(('contains', 0, 0))
    for n in range(0, 4 if tier == 'thorough' else 3):
        for first in (range(len(seq_alphabet()) + 1) if n >= 2 else (None,)):
            out.append(('seq', n, first))
    for n in range(0, 4 if tier == 'thorough' else 3):
        for first in (range(len(IN2_SHAPES)) if n >= 2 else (None,)):
            out.append(('in2', n, first))
    nb = sum(4 ** k for k in range(0, (3 if tier == 'thorough' else 2) + 1))
    for b in range(nb):
        out.append(('history', b, 0))
    return out


# ---------------------------------------------------------------------------------------------
# helpers
# ---------------------------------------------------------------------------------------------

def same_cell(a, b):
    return a is b or (type(a) is type(b) and a == b)


def same_rows(xs, ys):
    if len(xs) != len(ys):
        return False
    for x, y in zip(xs, ys):
        if len(x) != len(y):
            return False
        for a, b in zip(x, y):
            if not same_cell(a, b):
                return False
    return True


def run(fn):
    """Evaluate a petl view completely: ('ok', header, rows) or ('exc', name, text)."""
    try:
        out = [r for r in iter(fn())]   # not list(view): that would call Table.__len__ (a second pass)
    except Exception as e:   # the selectors are documented to select, never to raise, on these inputs
        return ('exc', type(e).__name__, str(e)[:160])
    if not out:
        return ('ok', None, [])
    return ('ok', tuple(out[0]), [tuple(r) for r in out[1:]])


class Fails(list):
    def add(self, sig, expected, observed, msg):
        self.append((sig, expected, observed, msg))


def compare(fails, label, table, res, exp_rows, what):
    """Compare one petl result with the expected data rows (header must be the input header)."""
    if res[0] == 'exc':
        fails.add('%s | raises %s' % (label, res[1]), exp_rows, {'raised': res[1], 'text': res[2]},
                  '%s raised %s: %s' % (what, res[1], res[2]))
        return False
    if res[1] is None or not same_rows([res[1]], [tuple(table[0])]):
        fails.add('%s | header changed' % label, tuple(table[0]), res[1], '%s: header differs' % what)
        return False
    if not same_rows(res[2], exp_rows):
        fails.add('%s | wrong rows' % label, exp_rows, res[2],
                  '%s returned %r, the documented predicate selects %r' % (what, res[2], exp_rows))
        return False
    return True


def partition_ok(table, sel, comp):
    """sel and comp, merged by position in the input, are exactly the input rows (each once, in order)."""
    rows = R.rows_of(table)
    i = j = 0
    for r in rows:
        if i < len(sel) and same_rows([sel[i]], [r]):
            i += 1
        elif j < len(comp) and same_rows([comp[j]], [r]):
            j += 1
        else:
            return False
    return i == len(sel) and j == len(comp)


def check_partition(fails, label, table, r1, r2, what):
    if r1[0] == 'ok' and r2[0] == 'ok' and not partition_ok(table, r1[2], r2[2]):
        fails.add('%s | selection and complement do not partition the input' % label,
                  R.rows_of(table), {'selected': r1[2], 'complement': r2[2]},
                  '%s: a row is lost or duplicated between the selection and its complement' % what)


TYPES = {'int': int, 'str': str, 'num': (int, float), 'NoneType': type(None), 'bytes': bytes, 'bool': bool,
         'object': object, 'float': float}

# field predicates: user code, shared by petl call and reference (what is tested is which cells petl
# hands to the predicate and which rows it then returns); several return non-bool truthy/falsy values
FIELD_PREDS = {
    'is_none': lambda v: v is None,
    'is_marker': lambda v: isinstance(v, str) and v == MARK,
    'is_str': lambda v: isinstance(v, str),
    'identity': lambda v: v,
    'wrap': lambda v: [v] if v is not None else [],
    'const_true': lambda v: True,
    'const_zero': lambda v: 0,
    'is_number': lambda v: isinstance(v, (int, float)) and not isinstance(v, bool),
}

# row predicates: (petl-facing function over a Record, reference function over (plain row, missing))
ROW_PREDS = {
    'x_none_byname': (lambda rec: rec['x'] is None, lambda r, m: R.cell(r, 1, m) is None),
    'x_none_byattr': (lambda rec: rec.x is None, lambda r, m: R.cell(r, 1, m) is None),
    'x_marker_byindex': (lambda rec: isinstance(rec[1], str) and rec[1] == MARK,
                         lambda r, m: isinstance(R.cell(r, 1, m), str) and R.cell(r, 1, m) == MARK),
    'len2': (lambda rec: len(rec) == 2, lambda r, m: len(r) == 2),
    'id_even': (lambda rec: rec['id'] % 2 == 0, lambda r, m: r[0] % 2 == 0),
    'x_truthy': (lambda rec: rec.x, lambda r, m: R.cell(r, 1, m)),
    'x_is_str': (lambda rec: isinstance(rec['x'], str), lambda r, m: isinstance(R.cell(r, 1, m), str)),
}
EXPRS = {
    '{x} is None': lambda r, m: R.cell(r, 1, m) is None,
    '{id} > 0': lambda r, m: r[0] > 0,
    "isinstance({x}, str) and {x} == '%s'" % MARK:
        lambda r, m: isinstance(R.cell(r, 1, m), str) and R.cell(r, 1, m) == MARK,
}

CONTEXT_QUERIES = {
    'first': lambda p, c, n: p is None,
    'last': lambda p, c, n: n is None,
    'middle': lambda p, c, n: p is not None and n is not None,
    'rising': lambda p, c, n: p is not None and c[1] > p[1],
    'next_same': lambda p, c, n: n is not None and n[1] == c[1],
    'always': lambda p, c, n: 1,
    'never': lambda p, c, n: None,
    'local_max': lambda p, c, n: (p is None or p[1] <= c[1]) and (n is None or n[1] <= c[1]),
}

CMP_OPS = ('selectlt', 'selectle', 'selectgt', 'selectge', 'selecteq', 'selectne')
RANGE_OPS = ('selectrangeopenleft', 'selectrangeopenright', 'selectrangeopen', 'selectrangeclosed')
UNARY_OPS = ('selectnone', 'selectnotnone', 'selecttrue', 'selectfalse')


def has_short(table):
    return any(len(r) < 2 for r in table[1:])


def hashable_cells(table):
    for r in table[1:]:
        for v in r:
            try:
                hash(v)
            except TypeError:
                return False
    return True


def eq_ambiguous(table, value):
    """Python == and the C04 equivalence disagree for some cell (list vs tuple): documentation is silent."""
    for r in table[1:]:
        v = R.cell(r, 1)
        if bool(v == value) != (ref.cmp(v, value) == 0):
            return True
    return False


# ---------------------------------------------------------------------------------------------
# the evaluation of ONE case (shared by run_item and replay).  Returns (fails, stats) where stats =
# (points, petl evaluations, comparisons, nontrivial, outcome)
# ---------------------------------------------------------------------------------------------

def _bundle(fails, table, field, ops, args, skip_ops=()):
    """ops x complement off/on on one (table, field, args): compare each with the reference, check the
    partition law; returns dict op -> (res_plain, res_complement)."""
    fi = 1
    got = {}
    npts = nev = ncmp = nontriv = 0
    for op in ops:
        if op in skip_ops:
            continue
        f = getattr(etl, op)
        pair = []
        for c in (False, True):
            res = run(lambda: f(table, field, *args, complement=c) if c else f(table, field, *args))
            exp = R.fieldselect(table, fi, op, args, complement=c)
            what = '%s(t, %r%s%s)' % (op, field, ''.join(', %r' % (a,) for a in args),
                                      ', complement=True' if c else '')
            compare(fails, op + (' complement=True' if c else ''), table, res, exp, what)
            pair.append(res)
            npts += 1
            nev += 1
            ncmp += 1
            if not c and 0 < len(exp) < len(table) - 1:
                nontriv += 1
        check_partition(fails, op, table, pair[0], pair[1], op)
        ncmp += 1
        got[op] = pair
    return got, (npts, nev, ncmp, nontriv)


def check_pairs(fails, table, got):
    n = 0
    for a, b in R.COMPLEMENT_PAIRS:
        if a in got and b in got:
            for (x, cx), (y, cy) in (((a, 0), (b, 1)), ((a, 1), (b, 0))):
                rx, ry = got[x][cx], got[y][cy]
                n += 1
                if rx[0] == 'ok' and ry[0] == 'ok' and not same_rows(rx[2], ry[2]):
                    fails.add('%s/%s | not exact complements' % (a, b), rx[2], ry[2],
                              '%s%s and %s%s must select the same rows'
                              % (x, '(complement)' if cx else '', y, '(complement)' if cy else ''))
    return n


def _sel_mask(table, got):
    out = []
    for op in sorted(got):
        r = got[op][0]
        out.append((op, r[1] if r[0] == 'exc' else tuple(x[0] for x in r[2] if x)))
    return tuple(out)


def evaluate(case):
    fails = Fails()
    form = case['form']
    table = case.get('table')
    stats = [0, 0, 0, 0, None]

    def addstats(s):
        for i in range(4):
            stats[i] += s[i]

    if form in ('cmp', 'range', 'unary', 'in', 'is', 'contains'):
        field, args = case['field'], tuple(case['args'])
        ops = {'cmp': CMP_OPS, 'range': RANGE_OPS, 'unary': UNARY_OPS, 'in': ('selectin', 'selectnotin'),
               'is': ('selectis', 'selectisnot'), 'contains': ('selectcontains',)}[form]
        if form in ('in', 'contains'):
            try:
                for r in table[1:]:
                    R.PRED[ops[0]](R.cell(r, 1), *args)
            except TypeError:
                # the documented Python expression itself raises (needle in None, unhashable in set ...)
                stats[4] = ('excluded', 'native-typeerror')
                return fails, stats
        got, s = _bundle(fails, table, field, ops, args)
        addstats(s)
        stats[2] += check_pairs(fails, table, got)
        stats[4] = _sel_mask(table, got)
        return fails, stats

    if form == 'in2':
        cont = build_container(case['ckind'], case['members'])
        try:
            for r in table[1:]:
                R.cell(r, 1) in cont
        except TypeError:
            # the documented predicate `v in value` itself raises (unhashable cell vs set/dict, non-str
            # cell vs str container): no documented answer
            stats[4] = ('excluded', 'native-typeerror')
            return fails, stats
        got, s = _bundle(fails, table, case['field'], ('selectin', 'selectnotin'), (cont,))
        addstats(s)
        stats[2] += check_pairs(fails, table, got)
        stats[4] = _sel_mask(table, got)
        return fails, stats

    if form == 'history':
        hf, st = history_world(table, case['history'], [tuple(case['spec'])])
        for spec, sig, exp, obs, msg in hf:
            fails.add(sig, exp, obs, msg)
        addstats(st)
        stats[4] = ('history', len(fails))
        return fails, stats

    if form == 'isinstance':
        got, s = _bundle(fails, table, case['field'], ('selectisinstance',), (TYPES[case['tname']],))
        addstats(s)
        stats[4] = _sel_mask(table, got)
        return fails, stats

    if form == 'select':
        # select(table, field, predicate, complement=, missing=) and biselect
        field, pname, missing = case['field'], case['pred'], case['missing']
        p = FIELD_PREDS[pname]
        if isinstance(field, (tuple, list)):
            fis = [HDR.index(f) if isinstance(f, str) else f for f in field]
            pred = lambda r: p(tuple(r[i] for i in fis))
        else:
            pred = lambda r: p(R.cell(r, 1, missing))
        kw = {} if missing is None else {'missing': missing}
        res = []
        for c in (False, True):
            kk = dict(kw)
            if c:
                kk['complement'] = True
            r = run(lambda: etl.select(table, field, p, **kk))
            exp = R.filt(table, pred, c)
            compare(fails, 'select(field, fn)' + (' complement=True' if c else ''), table, r, exp,
                    'select(t, %r, %s%s%s)' % (field, pname, ', complement=True' if c else '',
                                               ', missing=%r' % missing if kw else ''))
            res.append(r)
            if not c and 0 < len(exp) < len(table) - 1:
                stats[3] += 1
        check_partition(fails, 'select(field, fn)', table, res[0], res[1], 'select with a field predicate')
        try:
            t1, t2 = etl.biselect(table, field, p, **kw)
            b = [run(lambda: t1), run(lambda: t2)]
        except Exception as e:
            b = [('exc', type(e).__name__, str(e)[:160])] * 2
        for c in (0, 1):
            compare(fails, 'biselect(field, fn)[%d]' % c, table, b[c], R.filt(table, pred, bool(c)),
                    'biselect(t, %r, %s)[%d]' % (field, pname, c))
        check_partition(fails, 'biselect(field, fn)', table, b[0], b[1], 'biselect')
        addstats((4, 4, 6, 0))
        stats[4] = ('select', tuple(len(x[2]) if x[0] == 'ok' else x[1] for x in res))
        return fails, stats

    if form == 'rowselect':
        pname, missing = case['pred'], case['missing']
        if pname in ROW_PREDS:
            where, rp = ROW_PREDS[pname]
        else:
            where, rp = pname, EXPRS[pname]
        pred = lambda r: rp(r, missing)
        kw = {} if missing is None else {'missing': missing}
        res = []
        for c in (False, True):
            kk = dict(kw)
            if c:
                kk['complement'] = True
            r = run(lambda: etl.select(table, where, **kk))
            exp = R.filt(table, pred, c)
            lab = 'select(fn)' if pname in ROW_PREDS else 'select(expression)'
            compare(fails, lab + (' complement=True' if c else ''), table, r, exp,
                    'select(t, %s%s%s)' % (pname, ', complement=True' if c else '',
                                           ', missing=%r' % missing if kw else ''))
            res.append(r)
            if not c and 0 < len(exp) < len(table) - 1:
                stats[3] += 1
        check_partition(fails, 'select(fn)', table, res[0], res[1], 'select with a row predicate')
        try:
            t1, t2 = etl.biselect(table, where, **kw)
            b = [run(lambda: t1), run(lambda: t2)]
        except Exception as e:
            b = [('exc', type(e).__name__, str(e)[:160])] * 2
        for c in (0, 1):
            compare(fails, 'biselect(fn)[%d]' % c, table, b[c], R.filt(table, pred, bool(c)),
                    'biselect(t, %s)[%d]' % (pname, c))
        check_partition(fails, 'biselect(fn)', table, b[0], b[1], 'biselect')
        addstats((4, 4, 6, 0))
        stats[4] = ('rowselect', tuple(len(x[2]) if x[0] == 'ok' else x[1] for x in res))
        return fails, stats

    if form == 'facet':
        field = case['field']
        fis = [HDR.index(f) if isinstance(f, str) else f for f in (field if isinstance(field, tuple)
                                                                    else (field,))]
        exp = R.facet(table, fis)
        try:
            fct = etl.facet(table, field)
            obs = [(k, run(lambda: t)) for k, t in fct.items()]
        except Exception as e:
            fails.add('facet | raises %s' % type(e).__name__, [k for k, _ in exp], type(e).__name__,
                      'facet(t, %r) raised %s: %s' % (field, type(e).__name__, e))
            addstats((1, 1, 1, 0))
            return fails, stats
        if len(obs) != len(exp):
            fails.add('facet | wrong set of keys', [k for k, _ in exp], [k for k, _ in obs],
                      'facet(t, %r): keys differ from the distinct values of the field' % (field,))
        seen = []
        for k, rows in exp:
            match = [r for kk, r in obs if kk == k]
            if len(match) != 1:
                fails.add('facet | wrong set of keys', [k for k, _ in exp], [k for k, _ in obs],
                          'facet(t, %r): no (unique) table for value %r' % (field, k))
                continue
            if compare(fails, 'facet table', table, match[0], rows, 'facet(t, %r)[%r]' % (field, k)):
                seen.extend(match[0][2])
        if not fails and sorted(x[0] for x in seen) != [r[0] for r in table[1:]]:
            fails.add('facet | tables do not partition the input', R.rows_of(table), seen,
                      'facet tables lose or duplicate a row')
        addstats((1, 1 + len(obs), 1 + len(exp), 1 if len(exp) > 1 else 0))
        stats[4] = ('facet', tuple(len(r) for _, r in exp))
        return fails, stats

    if form == 'search':
        field, pattern = case['field'], case['pattern']
        flags = case.get('flags', 0)
        fkw = {'flags': flags} if flags else {}
        if field is None:
            fis, fargs = None, (pattern,)
        else:
            fl = field if isinstance(field, tuple) else (field,)
            fis = [HDR.index(f) if isinstance(f, str) else f for f in fl]
            fargs = (field, pattern)
        exp = [R.search(table, pattern, fis, c, flags) for c in (False, True)]
        r0 = run(lambda: etl.search(table, *fargs, **fkw))
        r1 = run(lambda: etl.searchcomplement(table, *fargs, **fkw))
        r2 = run(lambda: etl.search(table, *fargs, complement=True, **fkw))
        what = '(t, %s%r%s)' % ('' if field is None else '%r, ' % (field,), pattern,
                                ', flags=%d' % flags if flags else '')
        compare(fails, 'search', table, r0, exp[0], 'search' + what)
        compare(fails, 'searchcomplement', table, r1, exp[1], 'searchcomplement' + what)
        compare(fails, 'search complement=True', table, r2, exp[1], 'search(complement=True)' + what)
        check_partition(fails, 'search/searchcomplement', table, r0, r1, 'search vs searchcomplement')
        addstats((3, 3, 4, 1 if 0 < len(exp[0]) < len(table) - 1 else 0))
        stats[4] = ('search', tuple(r[0] for r in exp[0] if r))
        return fails, stats

    if form == 'rowlen':
        n = case['n']
        res = []
        for c in (False, True):
            r = run(lambda: etl.rowlenselect(table, n, complement=True) if c else etl.rowlenselect(table, n))
            exp = R.rowlenselect(table, n, c)
            compare(fails, 'rowlenselect' + (' complement=True' if c else ''), table, r, exp,
                    'rowlenselect(t, %d%s)' % (n, ', complement=True' if c else ''))
            res.append(r)
            if not c and 0 < len(exp) < len(table) - 1:
                stats[3] += 1
        # rows may be identical here (no id in an empty row): partition by multiset of positions is
        # implied by the two exact comparisons above
        addstats((2, 2, 2, 0))
        stats[4] = ('rowlen', n, tuple(len(x) for x in res[0][2]) if res[0][0] == 'ok' else res[0][1])
        return fails, stats

    if form == 'context':
        q = CONTEXT_QUERIES[case['query']]
        r = run(lambda: etl.selectusingcontext(table, q))
        exp = R.usingcontext(table, q)
        lab = 'selectusingcontext' if len(table) > 1 else 'selectusingcontext on a table without data rows'
        compare(fails, lab, table, r, exp, 'selectusingcontext(t, %s)' % case['query'])
        addstats((1, 1, 1, 1 if 0 < len(exp) < len(table) - 1 else 0))
        stats[4] = ('context', tuple(x[0] for x in exp))
        return fails, stats

    if form == 'slice':
        op, args = case['op'], tuple(case['args'])
        if op == 'skip':
            try:
                obs = [tuple(x) for x in etl.skip(table, *args)]
                exp = R.skip(table, *args)
                if not same_rows(obs, exp):
                    fails.add('skip | wrong rows', exp, obs, 'skip(t, %r) returned %r, islice gives %r'
                              % (args[0], obs, exp))
            except Exception as e:
                fails.add('skip | raises %s' % type(e).__name__, None, type(e).__name__, str(e)[:160])
            addstats((1, 1, 1, 1 if 0 < args[0] < len(table) else 0))
            stats[4] = ('skip', len(table), args)
            return fails, stats
        r = run(lambda: getattr(etl, op)(table, *args))
        if op == 'rowslice':
            exp = R.rowslice(table, args if args else (None,))
        elif op == 'head':
            exp = R.rowslice(table, args if args else (5,))
        else:
            exp = R.tail(table, args[0] if args else 5)
        compare(fails, op, table, r, exp, '%s(t%s)' % (op, ''.join(', %r' % (a,) for a in args)))
        addstats((1, 1, 1, 1 if 0 < len(exp) < len(table) - 1 else 0))
        stats[4] = (op, len(table), tuple(x[0] for x in exp))
        return fails, stats

    raise ValueError(form)


def canon_deep(v):
    c = canon(v)
    if c is not v:
        return c
    if isinstance(v, (tuple, list, set)):
        return type(v)(canon_deep(x) for x in v)
    return v


def replay(case):
    case = dict(case)
    if case.get('table') is not None:
        case['table'] = [tuple(canon_deep(v) for v in r) for r in case['table']]
    if 'args' in case:
        case['args'] = [canon_deep(a) for a in case['args']]
    fails, _ = evaluate(case)
    if not fails:
        return None
    want = case.get('_sig')
    for sig, exp, obs, msg in fails:
        if want is None or sig == want:
            return (exp, obs, msg)
    return None


# ---------------------------------------------------------------------------------------------
# enumeration
# ---------------------------------------------------------------------------------------------

def _do(acc, case, counter):
    fails, st = evaluate(case)
    acc.states += st[0]
    acc.transitions += st[1]
    acc.evals += st[2]
    acc.nontrivial += st[3]
    acc.counters['op:' + counter] += st[1]
    if st[3]:
        acc.counters['nontrivial:' + counter] += st[3]
    if isinstance(st[4], tuple) and st[4] and st[4][0] == 'excluded':
        acc.counters['excluded:' + counter + ':' + st[4][1]] += 1
    acc.outcome(st[4])
    for sig, exp, obs, msg in fails:
        c = dict(case)
        c['_sig'] = sig
        acc.violation(sig, c, exp, obs, msg)
    return fails


def containers():
    out = []
    vals = list(_A[:_BASE])
    out.append(())
    for v in vals:
        out.append((v,))
    for a, b in itertools.combinations(vals, 2):
        out.append((a, b))
    for a, b in itertools.combinations(vals, 2):
        out.append([a, b])
        out.append({a, b})
    return out


def run_item(item, acc):
    fam, a, b = item
    if fam == 'rowlen':
        return _run_rowlen(a, acc)
    if fam == 'context':
        return _run_context(a, acc)
    if fam == 'truth':
        return _run_truth(a, acc)
    if fam == 'in2':
        return _run_in2(a, b, acc)
    if fam == 'seq':
        return _run_seq(a, b, acc)
    if fam == 'history':
        return _run_history(a, acc)
    if fam == 'slice':
        return _run_slice(a, acc)
    if fam == 'contains':
        return _run_contains(acc)
    A = _A
    thorough = _TIER == 'thorough'
    first = True
    for opts in _TABLES[a:b]:
        table = mk_table(opts)
        short = has_short(table)
        if fam == 'cmp':
            for field in ('x', 1):
                for v in A:
                    _do(acc, {'form': 'cmp', 'table': table, 'field': field, 'args': [v]}, 'cmp')
        elif fam == 'range':
            for field in (('x', 1) if thorough else ('x',)):
                for lo in A:
                    for hi in A:
                        _do(acc, {'form': 'range', 'table': table, 'field': field, 'args': [lo, hi]}, 'range')
        elif fam == 'unary':
            for field in ('x', 1):
                _do(acc, {'form': 'unary', 'table': table, 'field': field, 'args': []}, 'unary')
        elif fam == 'in':
            hashable = hashable_cells(table)
            for cont in containers():
                if isinstance(cont, set) and not hashable:
                    acc.counters['excluded:set-container-with-unhashable-cell'] += 1
                    continue
                _do(acc, {'form': 'in', 'table': table, 'field': 'x', 'args': [cont]}, 'in')
        elif fam == 'is':
            for field in ('x', 1):
                for v in A:
                    _do(acc, {'form': 'is', 'table': table, 'field': field, 'args': [v]}, 'is')
        elif fam == 'isinstance':
            for tname in sorted(TYPES):
                _do(acc, {'form': 'isinstance', 'table': table, 'field': 'x', 'tname': tname}, 'isinstance')
        elif fam == 'select':
            for missing in (None, MARK):
                for pname in FIELD_PREDS:
                    for field in ('x', 1):
                        _do(acc, {'form': 'select', 'table': table, 'field': field, 'pred': pname,
                                  'missing': missing}, 'select-field')
            if not short:
                for pname in ('is_str', 'const_true', 'const_zero', 'wrap'):
                    # v is the tuple of both cells; 'wrap'/'identity' see a non-empty tuple (truthy)
                    _do(acc, {'form': 'select', 'table': table, 'field': ('id', 'x'), 'pred': pname,
                              'missing': None}, 'select-multifield')
            else:
                acc.counters['excluded:multi-field-select-on-short-row'] += 1
        elif fam == 'rowselect':
            for missing in (None, MARK):
                for pname in list(ROW_PREDS) + list(EXPRS):
                    _do(acc, {'form': 'rowselect', 'table': table, 'pred': pname, 'missing': missing},
                        'select-row')
        elif fam == 'facet':
            if not hashable_cells(table):
                acc.counters['excluded:facet-unhashable-cell'] += 1
                continue
            _do(acc, {'form': 'facet', 'table': table, 'field': 'x'}, 'facet')
            _do(acc, {'form': 'facet', 'table': table, 'field': 1}, 'facet')
            if not short:
                _do(acc, {'form': 'facet', 'table': table, 'field': ('id', 'x')}, 'facet')
        elif fam == 'search':
            pats = [str(A[4]), '^' + str(A[1]), '.', 'None', '^$', str(A[1]) + '$']
            fields = [None] if short else [None, 'x', 1, ('id', 'x'), ('x', 'id'), 0]
            if short:
                acc.counters['excluded:field-search-on-short-row'] += 1
            for field in fields:
                for p in pats:
                    _do(acc, {'form': 'search', 'table': table, 'field': field, 'pattern': p}, 'search')
                # non-default regex flags: patterns that only match under the flag
                for p, fl in ((str(A[4]).swapcase(), re.IGNORECASE), (' ^ ' + str(A[1]) + ' ', re.VERBOSE),
                              (' n O n ', re.IGNORECASE | re.VERBOSE)):
                    _do(acc, {'form': 'search', 'table': table, 'field': field, 'pattern': p, 'flags': int(fl)},
                        'search-flags')
        if first:
            acc.sample({'family': fam, 'table': table}, 1)
            first = False


def _run_rowlen(n, acc):
    fill = (0, 'x', 'y')
    for lens in itertools.product(range(4), repeat=n):
        table = [HDR] + [tuple((i,) + fill[1:L]) if L else () for i, L in enumerate(lens)]
        for k in range(5):
            _do(acc, {'form': 'rowlen', 'table': table, 'n': k}, 'rowlenselect')
    acc.sample({'family': 'rowlen', 'rows': n}, 1)


def _run_truth(n, acc):
    """selecttrue / selectfalse / truthiness of predicate results over every falsy value class."""
    cells = [None, False, 0, 0.0, '', b'', (), [], True, _A[1], _A[4], SHORT]
    for combo in itertools.product(range(len(cells)), repeat=n):
        table = [HDR] + [(i,) if cells[c] is SHORT else (i, cells[c]) for i, c in enumerate(combo)]
        for field in ('x', 1):
            _do(acc, {'form': 'unary', 'table': table, 'field': field, 'args': []}, 'unary-truth')
        for missing in (None, MARK):
            _do(acc, {'form': 'select', 'table': table, 'field': 'x', 'pred': 'identity', 'missing': missing},
                'select-truth')
    acc.sample({'family': 'truth', 'rows': n}, 1)


def _run_context(n, acc):
    vals = [_A[1], _A[2]]
    for cells in itertools.product(vals, repeat=n):
        table = [HDR] + [(i, v) for i, v in enumerate(cells)]
        for q in CONTEXT_QUERIES:
            _do(acc, {'form': 'context', 'table': table, 'query': q}, 'selectusingcontext')
    acc.sample({'family': 'context', 'rows': n}, 1)


SLICE_VALUES = (None, 0, 1, 2, 5)


def _run_slice(n, acc):
    table = [HDR] + [(i,) + ('x',) * (i % 3) for i in range(n)]
    # rowslice: 0, 1, 2 and 3 positional arguments
    forms = [()]
    forms += [(s,) for s in SLICE_VALUES]
    forms += [(a, b) for a in SLICE_VALUES for b in SLICE_VALUES]
    forms += [(a, b, c) for a in SLICE_VALUES for b in SLICE_VALUES for c in SLICE_VALUES if c != 0]
    for args in forms:
        _do(acc, {'form': 'slice', 'table': table, 'op': 'rowslice', 'args': list(args)}, 'rowslice')
    for op in ('head', 'tail'):
        _do(acc, {'form': 'slice', 'table': table, 'op': op, 'args': []}, op)
        for k in range(0, 7):
            _do(acc, {'form': 'slice', 'table': table, 'op': op, 'args': [k]}, op)
    for k in range(0, 9):
        _do(acc, {'form': 'slice', 'table': table, 'op': 'skip', 'args': [k]}, 'skip')
    acc.sample({'family': 'slice', 'table': table}, 1)


def _run_contains(acc):
    """selectcontains: 'field contains the value' — cells are containers (str / tuple / list)."""
    s1, s2 = _A[4], _A[5]
    i1 = _A[1]
    cells = ['', s1, s1 + s2, s2 + s1 + s2, (), (s1,), (i1, s1), [s2], [None]]
    for n in range(0, 3):
        for combo in itertools.product(range(len(cells)), repeat=n):
            table = [HDR] + [(i, cells[c]) for i, c in enumerate(combo)]
            for v in (s1, s2):
                _do(acc, {'form': 'contains', 'table': table, 'field': 'x', 'args': [v]}, 'selectcontains')
            # non-string needles only where every cell is a tuple/list (str cells raise TypeError natively)
            if all(not isinstance(r[1], str) for r in table[1:]):
                for v in (i1, None):
                    _do(acc, {'form': 'contains', 'table': table, 'field': 'x', 'args': [v]}, 'selectcontains')


# ---------------------------------------------------------------------------------------------
# selectin / selectnotin over every KIND of container the documented predicate `v in value` accepts
# ---------------------------------------------------------------------------------------------

class OnlyContains(object):
    """A container that offers nothing but __contains__ (no __iter__, no __len__)."""

    def __init__(self, members):
        self._m = list(members)

    def __contains__(self, v):
        return any(v is x or v == x for x in self._m)

    def __repr__(self):
        return 'OnlyContains(%r)' % (self._m,)


def build_container(kind, members):
    if kind == 'list':
        return list(members)
    if kind == 'tuple':
        return tuple(members)
    if kind == 'set':
        return set(members)
    if kind == 'frozenset':
        return frozenset(members)
    if kind == 'dict':
        return dict((m, i) for i, m in enumerate(members))
    if kind == 'str':
        return ''.join(members)          # substring semantics
    if kind == 'range':
        return range(*members)
    if kind == 'custom':
        return OnlyContains(members)
    raise ValueError(kind)


IN2_SHAPES = ('none', 'int', 'str0', 'str1', 'str2', 'str1b', 'tuple', 'list', 'dict', 'short')


def in2_cell(shape):
    i1, s1, s2 = _A[1], _A[4], _A[5]
    return {'none': None, 'int': i1, 'str0': '', 'str1': s1, 'str2': s1 + s2, 'str1b': s2, 'tuple': (i1,),
            'list': [i1], 'dict': {'k': i1}}[shape]


def in2_containers():
    i1, i2, s1, s2 = _A[1], _A[2], _A[4], _A[5]
    members = [None, i1, s1, s1 + s2, (i1,)]
    subsets = [()]
    subsets += [(m,) for m in members]
    subsets += list(itertools.combinations(members, 2))
    out = []
    for kind in ('tuple', 'list', 'set', 'frozenset', 'dict', 'custom'):
        for sub in subsets:
            out.append((kind, list(sub)))
    for text in ('', s1, s1 + s2, s2 + s1, s2 + s1 + s2):
        out.append(('str', [text]))
    out.append(('range', [i1, i2 + 1]))
    out.append(('range', [0]))
    return out


_SEQ = None


def seq_alphabet():
    """Sequence-valued cells / reference values: list vs tuple with equal items, nested, empty, plus
    a scalar and None.  One object per value (identity matters for selectis)."""
    global _SEQ
    if _SEQ is None or _SEQ[0] != (_A[1], _A[2]):
        i1, i2 = _A[1], _A[2]
        _SEQ = ((i1, i2), [(i1, i2), [i1, i2], (i1,), [i1], ((i1,),), ([i1],), [(i1,)], [[i1]], (), [], i1,
                           None])
    return _SEQ[1]


def _run_seq(n, first, acc):
    """Value selectors over sequence-valued cells and reference values; oracle: plain Python
    `cell == value` / `cell in value` / `cell is value` / `value in cell` (C04 order for lt/le/gt/ge)."""
    S = seq_alphabet()
    conts = []
    for kind in (tuple, list):
        conts.append(kind(()))
        for v in S:
            conts.append(kind((v,)))
        for a, b in itertools.combinations(S, 2):
            conts.append(kind((a, b)))
    for combo in itertools.product(range(len(S) + 1), repeat=n):
        if first is not None and combo[0] != first:
            continue
        table = [HDR] + [(i,) if c == len(S) else (i, S[c]) for i, c in enumerate(combo)]
        for v in S:
            for field in ('x', 1):
                _do(acc, {'form': 'cmp', 'table': table, 'field': field, 'args': [v]}, 'cmp-sequences')
            _do(acc, {'form': 'is', 'table': table, 'field': 'x', 'args': [v]}, 'is-sequences')
            _do(acc, {'form': 'contains', 'table': table, 'field': 'x', 'args': [v]}, 'contains-sequences')
        for cont in conts:
            _do(acc, {'form': 'in', 'table': table, 'field': 'x', 'args': [cont]}, 'in-sequences')
        if hashable_cells(table):
            _do(acc, {'form': 'facet', 'table': table, 'field': 'x'}, 'facet-sequences')
    acc.sample({'family': 'seq', 'rows': n}, 1)


def _run_in2(n, first, acc):
    conts = in2_containers()
    for combo in itertools.product(range(len(IN2_SHAPES)), repeat=n):
        if first is not None and combo[0] != first:
            continue
        table = [HDR] + [(i,) if IN2_SHAPES[c] == 'short' else (i, in2_cell(IN2_SHAPES[c]))
                         for i, c in enumerate(combo)]
        for kind, members in conts:
            _do(acc, {'form': 'in2', 'table': table, 'field': 'x', 'ckind': kind, 'members': members},
                'in-container-kinds')
    acc.sample({'family': 'in2', 'rows': n}, 1)


# ---------------------------------------------------------------------------------------------
# pass histories: the same view objects are iterated again after the SOURCE was edited (column
# inserted / swapped / dropped / renamed, rows reversed); every pass must equal the reference
# evaluated on the source as it is NOW (views are lazy, nothing may be remembered from a pass)
# ---------------------------------------------------------------------------------------------

EDITS = ('ins', 'swap', 'drop', 'ren', 'rev')


def apply_edit(src, edit, k):
    """Edit the list `src` in place; False when the edit is not applicable."""
    hdr = tuple(src[0])
    rows = [tuple(r) for r in src[1:]]
    if edit == 'ins':
        new = [('n%d' % k,) + hdr] + [('n%d_%d' % (k, i),) + r for i, r in enumerate(rows)]
    elif edit == 'swap':
        if len(hdr) < 2:
            return False
        new = [(r[1], r[0]) + r[2:] for r in [hdr] + rows]
    elif edit in ('drop', 'ren'):
        js = [j for j, h in enumerate(hdr) if h != 'x']
        if not js:
            return False
        j = js[0]
        if edit == 'drop':
            new = [r[:j] + r[j + 1:] for r in [hdr] + rows]
        else:
            new = [hdr[:j] + (hdr[j] + '_',) + hdr[j + 1:]] + rows
    elif edit == 'rev':
        if len(rows) < 2:
            return False
        new = [hdr] + rows[::-1]
    else:
        raise ValueError(edit)
    src[:] = new
    return True


def history_specs():
    i1, s1 = _A[1], _A[4]
    specs = []
    for field in ('x', 1):
        for c in (False, True):
            for v in (None, i1, s1):
                for op in ('selecteq', 'selectne', 'selectlt', 'selectge'):
                    specs.append((op, field, (v,), c))
            specs.append(('selectrangeopen', field, (None, i1), c))
            specs.append(('selectrangeopenleft', field, (i1, s1), c))
            for op in ('selectin', 'selectnotin'):
                specs.append((op, field, ((i1, s1),), c))
                specs.append((op, field, ((None,),), c))
            for op in ('selectnone', 'selectnotnone', 'selecttrue', 'selectfalse'):
                specs.append((op, field, (), c))
            specs.append(('selectis', field, (None,), c))
            for pname in ('is_none', 'identity', 'is_str'):
                specs.append(('select:' + pname, field, (), c))
            specs.append(('biselect:is_str', field, (), c))      # c: which half
        specs.append(('facet', field, (), False))
    return specs


def _build_views(src, spec):
    """list of (key-or-None, view) for one spec over the live source."""
    op, field, args, c = spec
    if op == 'facet':
        return list(etl.facet(src, field).items())
    if op.startswith('select:'):
        p = FIELD_PREDS[op[7:]]
        return [(None, etl.select(src, field, p, complement=True) if c else etl.select(src, field, p))]
    if op.startswith('biselect:'):
        return [(None, etl.biselect(src, field, FIELD_PREDS[op[9:]])[1 if c else 0])]
    f = getattr(etl, op)
    return [(None, f(src, field, *args, complement=True) if c else f(src, field, *args))]


def _expected(current, fi, spec, key):
    op, field, args, c = spec
    if op == 'facet':
        return R.fieldselect(current, fi, 'selecteq', (key,), False)
    if op.startswith('select:') or op.startswith('biselect:'):
        p = FIELD_PREDS[op.split(':')[1]]
        return R.filt(current, lambda r: p(R.cell(r, fi)), c)
    return R.fieldselect(current, fi, op, args, c)


def history_world(base, history, specs):
    """Run one history (events 'P' = pass over every view, or an edit name) on views built ONCE over a
    live source.  Returns ([(spec, sig, expected, observed, msg)], (points, evals, comparisons, nontrivial))."""
    src = [tuple(r) for r in base]
    out = []
    npts = nev = ncmp = nontriv = 0
    views = []
    for spec in specs:
        try:
            views.append((spec, _build_views(src, spec)))
        except Exception as e:
            out.append((spec, '%s | raises %s' % (spec[0], type(e).__name__), None, type(e).__name__,
                        'constructing %r raised %s' % (spec, e)))
    edited = 0
    last_fi = {}
    moved = set()
    for ev in history:
        if ev != 'P':
            edited += 1
            if not apply_edit(src, ev, edited):
                raise ValueError('inapplicable edit %s' % ev)
            continue
        current = [tuple(r) for r in src]
        for si, (spec, vs) in enumerate(views):
            try:
                fi = ref.resolve(current[0], spec[1])[0]
            except LookupError:
                continue       # the field does not exist in the current header: an error is documented
            if si in last_fi and last_fi[si] != fi and si not in moved:
                moved.add(si)
                nontriv += 1
            last_fi[si] = fi
            label = 'field-based selector view re-iterated after a source edit' if edited else spec[0]
            for key, view in vs:
                res = run(lambda: view)
                exp = _expected(current, fi, spec, key)
                npts += 1
                nev += 1
                ncmp += 1
                f = Fails()
                compare(f, label, current, res, exp,
                        '%s(t, %r%s%s)%s after history %r' % (spec[0], spec[1], ''.join(', %r' % (a,) for a in spec[2]),
                                                        ', complement/second half' if spec[3] else '',
                                                        '' if key is None else '[%r]' % (key,), list(history)))
                for sig, e, o, m in f:
                    out.append((spec, sig, e, o, m))
    return out, (npts, nev, ncmp, nontriv)


def histories(maxlen):
    """Every event sequence of length <= maxlen over {P} + EDITS that ends with a pass; inapplicable
    edits are filtered by the caller."""
    evs = ('P',) + EDITS
    for L in range(1, maxlen + 1):
        for h in itertools.product(evs, repeat=L - 1):
            yield h + ('P',)


def _run_history(b, acc):
    cells = [None, _A[1], _A[2], _A[4]]
    nmax = 3 if _TIER == 'thorough' else 2
    bases = []
    for n in range(nmax + 1):
        for combo in itertools.product(cells, repeat=n):
            bases.append([HDR] + [(i, v) for i, v in enumerate(combo)])
    base = bases[b]
    specs = history_specs()
    for h in histories(4 if _TIER == 'thorough' else 3):
        probe = [tuple(r) for r in base]
        if not all(apply_edit(probe, ev, 1) for ev in h if ev != 'P'):
            acc.counters['excluded:history:inapplicable-edit'] += 1
            continue
        hf, st = history_world(base, h, specs)
        acc.states += st[0]
        acc.transitions += st[1]
        acc.evals += st[2]
        acc.nontrivial += st[3]
        acc.counters['op:history'] += st[1]
        if st[3]:
            acc.counters['nontrivial:history'] += st[3]
        acc.outcome(('history', h, len(hf)))
        for spec, sig, exp, obs, msg in hf:
            acc.violation(sig, {'form': 'history', 'table': base, 'history': list(h), 'spec': list(spec),
                                '_sig': sig}, exp, obs, msg)
    acc.sample({'family': 'history', 'base': base}, 1)


def vacuity(cov, tier):
    probs = []
    c = cov['per_case_counters']
    for k in ('cmp', 'range', 'unary', 'in', 'is', 'isinstance', 'select-field', 'select-row', 'facet',
              'search', 'rowlenselect', 'selectusingcontext', 'rowslice', 'head', 'tail', 'skip',
              'unary-truth', 'select-truth', 'in-container-kinds', 'history', 'cmp-sequences', 'is-sequences',
              'in-sequences', 'contains-sequences', 'search-flags'):
        if not c.get('op:' + k):
            probs.append('no evaluation of ' + k)
        elif not c.get('nontrivial:' + k):
            probs.append('no non-trivial case for ' + k)
    return probs


def _is_ctx_empty(group, case, params):
    return case.get('form') == 'context' and len(case.get('table', [])) == 1


CLASSIFIERS = {'selectusingcontext_header_only': _is_ctx_empty}
