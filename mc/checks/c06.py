"""C06 — sort-merge joins are the relational operators.

E2: enumerate ALL pairs of small tables (every key vector of length 0..3 over a None / numbers / text
alphabet on either side, so: header-only sides, duplicate keys on both sides, None and mixed-type keys,
disjoint / overlapping / identical key sets) x every operator of the sort-merge family x key-argument forms
(key, lkey/rkey, natural, compound, compound with swapped right columns) x ragged row shapes x prefixes x
missing x presorted (also on ragged rows x missing) x a right table that has key fields only x field-NAMING schemes
(key / non-key names that are substrings, prefixes, superstrings or str()-equal); crossjoin over all 1-3-tuples of ragged tables.
Oracle: nested-loop relational reference (mc/refs/joins.py): header, type-faithful multiset of rows, and
ascending key order of the output under the independent C04 reference order.
"""
import itertools

import petl as etl

from .. import spaces
from ..refs import joins as J

ID = 'C06'
LEVEL = 'model_checking'
ENGINE = 'E2 small-scope enumeration against a nested-loop relational reference'
RULE = ('every pair (left, right) of tables whose key vectors range over ALL tuples of length 0..n over the key '
        'alphabet (plain key= form: n<=3 over K4={None,i1,i2,s1}, thorough also over K6=K4+{float(i1),s2}; other '
        'variants: quick n<=2 over K4 plus n<=3 over {None,i1,s1}, thorough n<=3 over K4), each row tagged with '
        'a unique id; x operators join leftjoin rightjoin '
        'outerjoin lookupjoin antijoin; x variants: key= / lkey,rkey (key in another column) / natural key / '
        'compound key (2 columns over {None,i1}, by argument and natural) / compound lkey,rkey with swapped '
        'right columns / ragged rows (full, short before the key, short after the key, long, empty; not for '
        'antijoin, which does not square up) x missing / lprefix,rprefix / missing=text / presorted=True on '
        'inputs already in reference key order / buffersize in {1,2,3} not larger than the bigger table (the internal '
        'sorts spill to chunk files; left <=2 rows, right <=3 rows over {None,i1,s1}, duplicate keys in different '
        'chunks differing in their id field: lookupjoin must still take the FIRST partner in right-table order) / '
        'CALL STYLE: every operator called with its documented arguments given POSITIONALLY in the documented order '
        '(key, lkey, rkey, missing, presorted, ... per operator; unspecified ones at their documented default), as '
        'method of a wrapped table with keywords, and as method positionally, x {key+missing, key+missing+prefixes, '
        'lkey+rkey+missing} on all pairs of tables <=2 rows over K4 (unsorted, with unmatched rows; missing=text); '
        'crossjoin also in method syntax / tuple-VALUED cells in a single key field (K4 + (i1,), (i1,i2), '
        '(None,s1), (): all vectors <=2, thorough also <=3 over {i1,(i1,),(i1,i2),()}; key=, missing=text, and '
        'lkey/rkey by name and by index with the key in different columns) / presorted=True x ragged rows (full, short after the key, long: the '
        'key cell exists, key sequence in reference order) x missing None/text / right table with key fields only / '
        'field NAMING: ~1200 (thorough ~2500) header schemes in which key and non-key field names are substrings, '
        'prefixes or superstrings of one another (key kid with fields k, id, i, ki, kidx), equal after str() '
        '(int-valued header fields selected by name), a right non-key field named like the left key, for key=, '
        'lkey/rkey, natural and compound keys, key column in every position, cells tagged by row and column, '
        'thorough also with text/int prefixes; key-argument FORMS (29 header schemes x up to 13 forms): field index '
        'instead of name incl. index 0 with the key in the first column while further fields are shared, key / '
        'lkey,rkey as one-element tuple or list, the empty-string field name, index on one side and name on the '
        'other, int-named header fields next to indices, compound keys mixing indices and names with component '
        'order differing from column order; crossjoin: all 1-,2-,3-tuples '
        'of ragged 2-column tables x prefix x missing.  states = (variant, arguments, operator, table pair) '
        'points; every state is one evaluation of the real operator compared with the reference (header, '
        'type-faithful multiset of rows, non-decreasing output keys).  A case is non-trivial when both sides '
        'have rows, at least one (left,right) row pair matches and at least one row of either side has no '
        'partner (crossjoin: every table has a row and some row is ragged).  Excluded: tables without a header '
        'row (the documentation defines no result), natural join of tables without a common field (documented '
        'to fail), ragged inputs to antijoin, unsorted inputs with presorted=True.')
ASSUMPTIONS = ['tables have at most 3 data rows per side (2 for ragged shapes) and keys come from a 3-6 value '
               'alphabet with one or two representatives per type class (None, int, float equal to an int, text, tuples of '
               'length 0-2 incl. one containing None)',
               'row multiplicity is compared type-faithfully (1, 1.0 and True are different cells); order is '
               'only required to be ascending by key, the order inside a key group is not constrained']

MISS = J.MISS

_S = {}


# ---------------------------------------------------------------------------------------------
# the space
# ---------------------------------------------------------------------------------------------

def build_space(tier, seed):
    """variant name -> dict(L=[tables], R=[tables], kw=[kwargs dicts], ops=[operator names])."""
    V = J.pair_space(tier, seed)
    for name, v in V.items():
        ops = list(J.MERGE_OPS)
        if name in ('missing',):
            ops = [o for o in ops if o in J.TAKES_MISSING]
        if name == 'prefix':
            ops = [o for o in ops if o in J.TAKES_PREFIX]
        if name in ('ragged', 'ragged-presorted'):
            ops = [o for o in ops if o in J.SQUARES_UP]
        v['ops'] = ops
    return V


def cross_tables(maxrows):
    """All ragged tables with header (a, b): each row full / short / long / empty; cells tagged by position."""
    out = []
    for n in range(maxrows + 1):
        for shp in itertools.product(('full', 'short', 'long', 'empty'), repeat=n):
            rows = []
            for i, s in enumerate(shp):
                full = ('r%da' % i, 'r%db' % i, 'r%dc' % i)
                rows.append({'full': full[:2], 'short': full[:1], 'long': full, 'empty': ()}[s])
            out.append([('a', 'b')] + rows)
    return out


CROSS_KW = [{}, {'prefix': True}, {'missing': MISS}, {'prefix': True, 'missing': MISS},
            {'prefix': True, 'missing': MISS, '_call': 'method'}]


def _retag(t, i):
    """Make the cells of the i-th table of a crossjoin distinguishable from the other tables' cells."""
    return [t[0]] + [tuple('t%d%s' % (i, c) for c in row) for row in t[1:]]


def cross_tuples(tier):
    t2, t1 = cross_tables(2), cross_tables(1)
    out = [(t,) for t in t2]
    out += list(itertools.product(t2, t2))
    out += list(itertools.product(t1 if tier == 'quick' else t2, repeat=3))
    return [tuple(_retag(t, i) for i, t in enumerate(ts)) for ts in out]


def setup(tier, seed):
    _S.clear()
    _S['space'] = build_space(tier, seed)
    _S['cross'] = cross_tuples(tier)
    _S['names'] = J.name_schemes(tier, seed) + J.keyform_schemes(tier, seed)
    _S['namedata'] = J.name_data(tier, seed)


def bounds(tier, seed):
    sp = _S['space']
    b = {}
    for name, v in sp.items():
        b[name] = {'left_tables': len(v['L']), 'right_tables': len(v['R']), 'argument_forms': len(v['kw']),
                   'operators': len(v['ops']),
                   'cases': len(v['L']) * len(v['R']) * len(v['kw']) * len(v['ops'])}
    b['crossjoin'] = {'table_tuples': len(_S['cross']), 'argument_forms': len(CROSS_KW),
                      'cases': len(_S['cross']) * len(CROSS_KW)}
    lv, rv = _S['namedata']
    b['field-naming'] = {'schemes': len(_S['names']), 'left_key_vectors': len(lv), 'right_key_vectors': len(rv),
                         'operators': len(J.MERGE_OPS),
                         'cases': sum(len(sc['kw']) for sc in _S['names']) * len(lv) * len(rv) * len(J.MERGE_OPS)}
    b['key_alphabet'] = [repr(x) for x in (spaces.K6(seed) if tier == 'thorough' else spaces.K4(seed))]
    return b


TARGET = 4000   # cases per work item (~0.2 ms each)


def items(tier, seed):
    out = []
    for name, v in _S['space'].items():
        per_left = len(v['R']) * len(v['kw']) * len(v['ops'])
        if name == 'buffersize':
            per_left *= 8         # chunked sorts write temp files: ~1-5 ms instead of ~0.2 ms per join
        size = max(1, TARGET // max(1, per_left))
        for lo in range(0, len(v['L']), size):
            out.append(('join', name, lo, min(len(v['L']), lo + size)))
    lv, rv = _S['namedata']
    size = max(1, TARGET // (len(lv) * len(rv) * len(J.MERGE_OPS) * len(_S['names'][0]['kw'])))
    for lo in range(0, len(_S['names']), size):
        out.append(('names', 'field-naming', lo, min(len(_S['names']), lo + size)))
    n = len(_S['cross'])
    size = 3000
    for lo in range(0, n, size):
        out.append(('cross', 'crossjoin', lo, min(n, lo + size)))
    return out


# ---------------------------------------------------------------------------------------------
# one case
# ---------------------------------------------------------------------------------------------

def _rows(tbl):
    return [tuple(r) for r in tbl]


def _exc(e):
    """Safe rendering of an exception (DuplicateKeyError.__str__ itself fails for tuple keys)."""
    try:
        return '%s: %s' % (type(e).__name__, str(e)[:200])
    except Exception:
        return '%s: %r' % (type(e).__name__, getattr(e, 'args', ()))


def check_join(op, left, right, kw):
    """None when petl's `op` agrees with the reference on (left, right, kw); else (signature, expected,
    observed, message)."""
    hdr, rows, lidx = J.relational(op, left, right, **kw)
    try:
        out = _rows(J.invoke(etl, op, left, right, kw))
    except Exception as e:
        return ('raises %s' % type(e).__name__, [hdr] + rows, _exc(e),
                '%s raised %s on inputs for which the relational result is defined' % (op, type(e).__name__))
    if not out or tuple(out[0]) != hdr:
        return ('header differs', hdr, out[0] if out else None, 'header of %s differs from the documented one' % op)
    missing, extra = J.multiset_diff(rows, out[1:])
    if missing or extra:
        sig = ('rows missing' if not extra else 'unexpected rows' if not missing
               else 'rows missing and unexpected rows')
        return (sig, [hdr] + rows, out,
                '%s: multiset of rows differs from the relational reference; missing=%r unexpected=%r'
                % (op, missing[:4], extra[:4]))
    if not J.keys_ascending(out[1:], lidx):
        return ('output keys not ascending', [hdr] + rows, out, '%s: output is not in ascending key order' % op)
    return None


def check_cross(tables, kw):
    hdr, rows = J.crossjoin(tables, **{k: v for k, v in kw.items() if k != '_call'})
    try:
        if kw.get('_call') == 'method':
            out = _rows(etl.wrap(tables[0]).crossjoin(*tables[1:], **{k: v for k, v in kw.items() if k != '_call'}))
        else:
            out = _rows(etl.crossjoin(*tables, **kw))
    except Exception as e:
        return ('raises %s' % type(e).__name__, [hdr] + rows, _exc(e),
                'crossjoin raised %s' % type(e).__name__)
    if not out or tuple(out[0]) != hdr:
        return ('header differs', hdr, out[0] if out else None, 'crossjoin header differs')
    missing, extra = J.multiset_diff(rows, out[1:])
    if missing or extra:
        sig = ('rows missing' if not extra else 'unexpected rows' if not missing
               else 'rows missing and unexpected rows')
        return (sig, [hdr] + rows, out, 'crossjoin: multiset of rows differs from the cartesian product of the '
                'squared-up inputs; missing=%r unexpected=%r' % (missing[:4], extra[:4]))
    return None


def replay(case):
    if case['kind'] == 'join':
        r = check_join(case['op'], case['left'], case['right'], case['kwargs'])
    else:
        r = check_cross(case['tables'], case['kwargs'])
    if r is None:
        return None
    return (r[1], r[2], r[0] + ': ' + r[3])


def _do_pair(acc, name, left, right, kw, ops, allkw):
    if kw.get('buffersize') and kw['buffersize'] > max(len(left), len(right)) - 1:
        return        # larger than both tables: nothing spills, same execution as the default call
    nt = J.nontrivial_pair(left, right, kw)
    for op in ops:
        kw2 = kw
        drop = [k for k in kw if (k == 'missing' and op not in J.TAKES_MISSING) or
                (k in ('lprefix', 'rprefix') and op not in J.TAKES_PREFIX)]
        if drop:
            kw2 = {k: x for k, x in kw.items() if k not in drop}
            if kw2 in allkw:
                continue          # same call as an argument form already enumerated
        acc.evals += 1
        acc.states += 1
        acc.transitions += 1
        acc.counters['op:' + op] += 1
        if nt:
            acc.nontrivial += 1
            acc.counters['nontrivial:' + op] += 1
        r = check_join(op, left, right, kw2)
        acc.outcome((op, len(left), len(right), r is None))
        if r is not None:
            acc.violation('%s | %s' % (op, r[0]),
                          {'kind': 'join', 'variant': name, 'op': op, 'left': left, 'right': right,
                           'kwargs': kw2}, r[1], r[2], r[3])


def run_item(item, acc):
    kind, name, lo, hi = item
    if kind == 'cross':
        for ts in _S['cross'][lo:hi]:
            for kw in CROSS_KW:
                acc.evals += 1
                acc.states += 1
                acc.transitions += 1
                acc.counters['op:crossjoin'] += 1
                if all(len(t) > 1 for t in ts) and any(len(r) != 2 for t in ts for r in t[1:]):
                    acc.nontrivial += 1
                    acc.counters['nontrivial:crossjoin'] += 1
                r = check_cross(list(ts), kw)
                acc.outcome(('crossjoin', len(ts), sum(len(t) - 1 for t in ts), r is None))
                if r is not None:
                    acc.violation('crossjoin | ' + r[0],
                                  {'kind': 'cross', 'op': 'crossjoin', 'tables': list(ts), 'kwargs': kw},
                                  r[1], r[2], r[3])
        return
    if kind == 'names':
        for sc in _S['names'][lo:hi]:
            lv, rv = sc.get('data') or _S['namedata']
            for lvec in lv:
                left = J.tagged_table(sc['lhdr'], sc['lk'], lvec, 'L')
                for rvec in rv:
                    right = J.tagged_table(sc['rhdr'], sc['rk'], rvec, 'R')
                    for kw in sc['kw']:
                        _do_pair(acc, sc['form'] if ':' in sc['form'] else 'names:' + sc['form'], left, right, kw, J.MERGE_OPS, sc['kw'])
        if lo == 0:
            lv, rv = _S['namedata']
            sc = _S['names'][min(len(_S['names']) - 1, 40)]
            left = J.tagged_table(sc['lhdr'], sc['lk'], lv[-1], 'L')
            right = J.tagged_table(sc['rhdr'], sc['rk'], rv[-1], 'R')
            acc.sample({'variant': 'field-naming', 'op': 'outerjoin', 'left': left, 'right': right,
                        'kwargs': sc['kw'][0], 'reference': J.relational('outerjoin', left, right, **sc['kw'][0])[:2]}, 1)
        return
    v = _S['space'][name]
    for left in v['L'][lo:hi]:
        for right in v['R']:
            for kw in v['kw']:
                _do_pair(acc, name, left, right, kw, v['ops'], v['kw'])
    if lo == 0:
        left, right = v['L'][min(len(v['L']) - 1, 7)], v['R'][min(len(v['R']) - 1, 9)]
        sop = 'outerjoin' if 'outerjoin' in v['ops'] else v['ops'][0]
        acc.sample({'variant': name, 'op': sop, 'left': left, 'right': right, 'kwargs': v['kw'][0],
                    'reference': J.relational(sop, left, right, **v['kw'][0])[:2]}, 1)


def vacuity(cov, tier):
    problems = []
    c = cov['per_case_counters']
    for op in list(J.MERGE_OPS) + ['crossjoin']:
        if not c.get('op:' + op):
            problems.append('operator %s never evaluated' % op)
        elif not c.get('nontrivial:' + op):
            problems.append('operator %s has no non-trivial case' % op)
    return problems


# ---------------------------------------------------------------------------------------------
# classifiers for known_findings.json (genuine defects recorded rather than repaired)
# ---------------------------------------------------------------------------------------------

def _none_left_group_dropped(group, case, params):
    """left/outer/anti join drop the left rows whose (single) key is None when the right table has no rows:
    the case must have a right table without data rows, and the rows petl misses must be exactly the
    None-keyed left rows."""
    if case.get('kind') != 'join' or case['op'] not in ('leftjoin', 'outerjoin', 'antijoin'):
        return False
    if not group.endswith('| rows missing'):
        return False
    left, right, kw = case['left'], case['right'], case['kwargs']
    if len(right) != 1:
        return False
    r = check_join(case['op'], left, right, kw)
    if r is None or r[0] != 'rows missing':
        return False
    hdr, rows, lidx = J.relational(case['op'], left, right, **kw)
    if len(lidx) != 1:
        return False
    missing, _ = J.multiset_diff(rows, r[2][1:])
    want = J.multiset([x for x in rows if x[lidx[0]] is None])
    return dict(missing) == want


def _lookupjoin_raw_keys(group, case, params):
    """lookupjoin compares raw key values (operator.itemgetter, sentinel None): TypeError when a side has no
    rows or the keys are not natively comparable (None / mixed types / compound keys containing None)."""
    if case.get('kind') != 'join' or case['op'] != 'lookupjoin' or not group.endswith('| raises TypeError'):
        return False
    left, right, kw = case['left'], case['right'], case['kwargs']
    if len(left) == 1 or len(right) == 1:
        return True
    missing = kw.get('missing')
    lidx, ridx = J.key_indices(left[0], right[0], kw.get('key'), kw.get('lkey'), kw.get('rkey'))
    ks = [tuple(J.square(r, len(left[0]), missing)[i] for i in lidx) for r in left[1:]] + \
         [tuple(J.square(r, len(right[0]), missing)[i] for i in ridx) for r in right[1:]]
    if len(lidx) == 1:
        ks = [k[0] for k in ks]     # a single key field is compared as the bare cell
    for a in ks:
        for b in ks:
            try:
                a < b
            except TypeError:
                return True
    return False


CLASSIFIERS = {'none_left_group_dropped_when_right_has_no_rows': _none_left_group_dropped,
               'lookupjoin_compares_raw_keys': _lookupjoin_raw_keys}
