"""C17 — database loads round-trip and are all-or-nothing when the source fails.

E3 fault-position enumeration on real sqlite3 file databases.  Every case builds a fresh database file with
known prior contents, runs the real petl.todb / petl.appenddb (one, two or three consecutive loads through
the same handle) from a source that fails at a chosen position (never / header / each data row / exhaustion),
and after every call looks at the table through a FRESH sqlite3 connection (committed state) and through the
handle's own connection (pending state).  Oracle: mc/refs/c17ref.py.
"""
import collections
import gc
import itertools
import logging
import os
import sqlite3

import petl as etl

from .. import env
from .. import spaces
from ..refs import c17ref as ref

ID = 'C17'
LEVEL = 'fault_enumeration'
ENGINE = 'E3 fault-position enumeration over sqlite3 file databases with a committed-state reference model'
RULE = ('every (prior table contents, source table, fault position in {none, header, each data row, exhaustion}, '
        'handle kind in {file name, connection, cursor, cursor factory over one shared connection, cursor factory '
        'opening a new connection per call}, connection flavour, commit flag, '
        'todb/appenddb, raw failing source or failing source behind a petl view) is executed on a fresh sqlite3 '
        'file; 1, 2 and (thorough) 3 consecutive loads through one handle with a fault position chosen '
        'independently per load, with and without a caller rollback in between.  Exception-type space: every '
        'fault position x the TYPE of the exception the source raises (custom class, TypeError, ValueError, '
        'KeyError, IndexError/LookupError, RuntimeError, StopIteration inside a generator (-> RuntimeError), '
        'AttributeError, AssertionError, OSError, UnicodeDecodeError, ZeroDivisionError, sqlite3.Warning/Error/'
        'DatabaseError/OperationalError/IntegrityError/ProgrammingError/InterfaceError raised BY THE SOURCE) x '
        'source style (restartable table, one-shot generator that is finished after raising, class-based '
        'iterator that would go on delivering the remaining rows after raising, failing table behind a petl '
        'view).  Long-source boundary sweep: sources of 1000 / 1001 / 2500 generated rows failing just before / '
        'at / after every boundary in {10, 16, 32, 50, 64, 100, 128, 200, 250, 256, 500, 512, 1000, 1024, 2000, '
        '2048} and at exhaustion (thorough: EVERY fault position of a 2100-row source, plus 10001 rows with '
        'boundaries up to 10000), so that a load committing per batch is seen whatever the batch size.  '
        'Read events: after a load (and, in the sequence space, after every load of a sequence) petl reads are '
        'run through the same handle and through the handle\'s connection - full and abandoned-after-one-row '
        'fromdb passes over the loaded table and over another table - after which a fresh connection and the '
        'caller\'s connection must both still see what they saw before the read (no petl read may commit or '
        'roll back).  After a source failure the call must also not return normally with a changed table pending on '
        'the caller\'s connection (a swallowed failure presented as a completed load).  A case is non-trivial when '
        'committing at the wrong moment would be visible: the source fails after the load has already changed '
        'the pending table (rows deleted by todb or >=1 row inserted), or commit=False with a changed pending '
        'table, or a completed committed load whose result differs from the prior contents.  '
        'schema= space: todb / appenddb(..., schema=S) and fromdb of S.t in worlds where S.t and the unqualified t '
        'are different tables with non-empty contents - an ATTACHed database with a same-named table (S = archive '
        'and S = main), a TEMP table shadowing main.t (S = main) - and, for file names, S = main; every fault '
        'position x commit flag x handle kind: only S.t may change (per the model), the other same-named table is '
        'untouched as a fresh connection (attaching the same file) and as the caller\'s connection see it.  '
        'Declared-type space: tables whose columns are declared untyped / INTEGER / TEXT / DATE / TIMESTAMP / NUMERIC '
        '/ REAL x every one-row table over {None, 1, 1.5, "abc", "1", "1.5", ISO date, ISO timestamp, "12:30"}^2: '
        'a fresh plain connection, fromdb through the handle and fromdb through a FILE NAME must return the values '
        'written after sqlite\'s documented type affinity (refs/c17ref.stored, validated against the engine).  '
        'todb through a per-call-connection factory is refused by sqlite (truncate and insert land on two '
        'connections): accepted when the committed table is untouched, counted under info:...  '
        'Excluded: create=/drop= (need SQLAlchemy, outside the statement); connections in driver autocommit '
        'mode (isolation_level=None / autocommit=True: every statement is durable at once, petl cannot give '
        'atomicity and documents nothing); typed columns, bool, NaN and >64-bit ints (the engine converts them; '
        'columns are declared without a type so sqlite stores cells unchanged); row order of SELECT without '
        'ORDER BY (tables compared as multisets); the state of the caller\'s own connection after a failed '
        'load (pending partial work and rolled back are both accepted; every call is judged against what its '
        'own connection saw before the call, so a later committed load that also makes such pending rows durable '
        'is counted under info:... but not reported); BaseException-only failures (KeyboardInterrupt, '
        'GeneratorExit); StopIteration from a class-based iterator (that IS exhaustion, not a failure).')
ASSUMPTIONS = ['sqlite3 is the only engine available; other DB-API drivers / SQLAlchemy handles are not explored',
               'tables have <= 4 rows and 2 columns; prior contents are empty or 2 rows',
               'fresh-connection reads happen while the caller\'s connection may still hold an open transaction '
               '(rollback-journal mode lets readers in)']

LOGICAL = ('a', 'b')
NAMING = {
    'plain': ('t', ('a', 'b')),
    # identifiers that only work when quoted per SQL-92; these cases also pass schema='main'
    'hostile': ('my "t" tbl', ('a b', 'x"y')),
}
HANDLES = [('filename', 'legacy'), ('connection', 'legacy'), ('cursor', 'legacy'), ('mkcurs', 'legacy'),
           ('connection', 'pep249'), ('cursor', 'pep249'), ('mkcurs', 'pep249'),
           # cursor factory that opens a NEW connection for every call (pool / per-call connection): the docs only
           # ask that each call returns a new cursor; there is no caller-owned connection to look through
           ('mkcurs-newconn', 'legacy'), ('mkcurs-newconn', 'pep249')]
NO_CALLER_CONNECTION = ('filename', 'mkcurs-newconn')
OPS = ('todb', 'appenddb')

_R = None          # representatives
_PRIORS = None     # [[], [row, row]]
_R3 = None         # row alphabet for the fault spaces
_CELLS = None      # cell alphabet for the round-trip space
_SEQROWS = None    # rows used by the multi-load space (distinct per load)
_N = 0

# fromdb(cursor) logs a 'not recommended' warning on every call; the message is not an observation here
logging.getLogger('petl.io.db').setLevel(logging.ERROR)
_TIER = 'quick'


def setup(tier, seed):
    global _R, _PRIORS, _R3, _CELLS, _SEQROWS, _TIER
    _TIER = tier
    r = spaces.reps(seed)
    _R = r
    i1, i2, s1, s2 = r['i1'], r['i2'], r['s1'], r['s2']
    _PRIORS = [[], [(i1, s1), (i2 * 100, 'old')]]
    _R3 = [(i1, s1), (i2, s2), (None, 1.5)]                 # first row equals a prior row on purpose
    _CELLS = [None, i1, 1.5, s1]
    if tier == 'thorough':
        _CELLS = _CELLS + [float(i1), b'\x00' + s2.encode(), 'it\'s "%s"' % s2]
    _SEQROWS = [[(10 + i1, 'L1' + s1), (11 + i1, None)],
                [(20 + i2, 'L2' + s2), (None, 2.5)],
                [(30, 'L3'), (31.5, s1)]]


def bounds(tier, seed):
    return {'fault_space_max_rows': 4 if tier == 'thorough' else 3, 'fault_space_max_rows_behind_view': 4 if tier == 'thorough' else 2, 'fault_row_alphabet': len(_R3),
            'schema_scenarios': list(SCHEMA_SCENARIOS), 'declared_types': [d or '<untyped>' for d in DECLARED_TYPES],
            'typed_cells': [repr(c) for c in TYPED_CELLS],
            'exception_kinds': list(EXC_KINDS), 'source_styles': list(SRC_STYLES),
            'exception_space_max_rows': 3 if tier == 'thorough' else 1,
            'long_source_rows': [n for n, _ in _long_plan(tier)],
            'long_source_fault_positions': [len(f) for _, f in _long_plan(tier)],
            'read_events': ['%s/%s/%s' % e for e in READ_EVENTS],
            'roundtrip_cells': len(_CELLS), 'roundtrip_max_rows': 2,
            'quick_largest_tables_with_nonempty_prior_only': tier != 'thorough',
            'consecutive_loads': 3 if tier == 'thorough' else 2,
            'two_load_max_rows': 2 if tier == 'thorough' else 1, 'three_load_max_rows': 1,
            'handles': ['%s/%s' % h for h in HANDLES], 'priors': [len(p) for p in _PRIORS]}


# ------------------------------------------------------------------------------------------------
# work items
# ------------------------------------------------------------------------------------------------

def items(tier, seed):
    """Simplest first (single loads before sequences); no cost() so that the runner keeps this order and the
    first - hence reported - case of a violation group is a small one."""
    hs = [h for h in spaces.rotate(range(len(HANDLES)), seed)
          if tier == 'thorough' or HANDLES[h] != ('mkcurs-newconn', 'pep249')]
    out = []
    for h in hs:
        for op in OPS:
            for commit in (True, False):
                for src in ('raw', 'view'):
                    out.append(('fault', h, op, commit, src))
    for h in hs:
        for op in OPS:
            for commit in (True, False):
                out.append(('exc', h, op, commit))
                out.append(('reads', h, op, commit))
    for h in hs:
        for op in OPS:
            for commit in (True, False):
                for li in range(len(_long_plan(tier))):
                    if _long_plan(tier)[li][0] > 3000 and (HANDLES[h][1] != 'legacy' or not commit):
                        continue        # the exhaustive / very long sweeps: legacy handles, commit=True only
                    out.append(('long', h, op, commit, li))
    for h in hs:
        for op in OPS:
            for commit in (True, False):
                if tier == 'thorough' or HANDLES[h][1] == 'legacy':
                    out.append(('roundtrip', h, op, commit))
            out.append(('hostile', h, op))
    seqs, seq3 = [], []
    for h in hs:
        betweens = ('none', 'reads') if HANDLES[h][0] in NO_CALLER_CONNECTION else ('none', 'rollback', 'reads')
        for between in betweens:
            if between == 'reads' and tier != 'thorough' and HANDLES[h][1] != 'legacy':
                continue
            for ops in itertools.product(OPS, repeat=2):
                for commits in itertools.product((True, False), repeat=2):
                    seqs.append(('seq', h, between, ops, commits))
            if tier == 'thorough' and between != 'reads':
                for ops in itertools.product(OPS, repeat=3):
                    seq3.append(('seq3', h, between, ops))
    # schema= argument (attached database / TEMP table with the same table name) and declared column types
    extra = []
    for h in hs:
        kind, flavor = HANDLES[h]
        for op in OPS:
            for scen in SCHEMA_SCENARIOS:
                if kind in SCHEMA_SCENARIOS[scen]['handles']:
                    extra.append(('schema', h, op, scen))
            if tier == 'thorough' or flavor == 'legacy':
                for decl in DECLARED_TYPES:
                    extra.append(('types', h, op, decl))
    out = out + extra + seqs + seq3
    if tier == 'thorough':
        out = [it for it in out if not (HANDLES[it[1]][0] == 'mkcurs-newconn' and
                                        (it[0] == 'seq3' or (HANDLES[it[1]][1] == 'pep249' and
                                                             it[0] in ('roundtrip', 'long', 'hostile', 'exc'))))]
    if tier != 'thorough':
        # quick: the per-call-connection factory is crossed with the load / round-trip / sequence / read spaces;
        # its cross with exception types, long sources, hostile identifiers and view-wrapped sources is thorough-only
        out = [it for it in out if not (HANDLES[it[1]][0] == 'mkcurs-newconn'
                                        and (it[0] in ('exc', 'long', 'hostile') or (it[0] == 'fault' and it[4] == 'view')))]
        out = [it for it in out if not (it[0] == 'schema' and HANDLES[it[1]] == ('mkcurs-newconn', 'pep249'))]
    return out


# schema= space: worlds in which <schema>.<table> and the unqualified <table> are (or are not) different tables
SCHEMA_SCENARIOS = collections.OrderedDict([
    # an ATTACHed database 'archive' holds a table of the same name as main; load into archive.t
    ('attached, schema=archive', {'schema': 'archive', 'other': 'main', 'temp': False,
                                  'handles': ('connection', 'cursor', 'mkcurs', 'mkcurs-newconn')}),
    # same world, load into main.t (the unqualified name means main.t as well)
    ('attached, schema=main', {'schema': 'main', 'other': 'archive', 'temp': False,
                               'handles': ('connection', 'cursor', 'mkcurs', 'mkcurs-newconn')}),
    # a TEMP table of the same name shadows main.t on the caller's connection; load into main.t
    ('temp table shadows, schema=main', {'schema': 'main', 'other': 'temp', 'temp': True,
                                         'handles': ('connection', 'cursor', 'mkcurs')}),
    # petl opens the connection itself: only the file's own schema can be named
    ('file name, schema=main', {'schema': 'main', 'other': None, 'temp': False, 'handles': ('filename',)}),
])
SCHEMA_PRIORS = {'main': [(101, 'main-1'), (102, 'main-2')], 'archive': [(201, 'arch-1')],
                 'temp': [(301, 'temp-1'), (302, None)]}

# declared-type space
DECLARED_TYPES = ('', 'INTEGER', 'TEXT', 'DATE', 'TIMESTAMP', 'NUMERIC', 'REAL')
TYPED_CELLS = (None, 1, 1.5, 'abc', '1', '1.5', '2020-01-02', '2020-01-02 03:04:05', '12:30')

BOUNDARIES = (10, 16, 32, 50, 64, 100, 128, 200, 250, 256, 500, 512, 1000, 1024, 2000, 2048)
BOUNDARIES_LONG = BOUNDARIES + (2500, 4096, 5000, 8192, 10000)

# read events: (extent, table, reader)
READ_EVENTS = [(x, t, r) for r in ('handle', 'connection') for t in ('same', 'other') for x in ('full', 'partial')]
SEQ_READS = [('full', 'same', 'handle'), ('full', 'same', 'connection'), ('partial', 'other', 'connection'),
             ('full', 'other', 'connection')]


def _around(n, boundaries):
    """Fault positions of an n-row source just before / at / after each boundary (B-1, B, B+1 rows delivered)
    and at exhaustion."""
    pos = set([n + 1])
    for b in boundaries:
        for f in (b, b + 1, b + 2):
            if 1 <= f <= n + 1:
                pos.add(f)
    return sorted(pos)


def _long_plan(tier):
    """[(number of rows, fault positions)] of the long-source sweep."""
    plan = [(1000, _around(1000, BOUNDARIES)), (1001, _around(1001, BOUNDARIES)), (2500, _around(2500, BOUNDARIES))]
    if tier == 'thorough':
        plan.append((2100, list(range(1, 2102))))                       # every position
        plan.append((10001, _around(10001, BOUNDARIES_LONG)))
    return plan


def _long_rows(n):
    return [(1000000 + i, 'r%d' % i) for i in range(n)]


def _fault_positions(n, with_none):
    return ([None] if with_none else []) + list(range(0, n + 2))


def cases_of(item, tier):
    """Generator of case dicts for a work item, simplest first."""
    kind = item[0]
    handle, flavor = HANDLES[item[1]]
    base = {'handle': handle, 'flavor': flavor, 'naming': 'plain', 'between': 'none'}
    if kind == 'roundtrip':
        _, _, op, commit = item
        rows16 = list(itertools.product(_CELLS, repeat=2))
        for n in range(0, 3):
            for tbl in itertools.product(rows16, repeat=n):
                for prior in (_PRIORS if (tier == 'thorough' or n < 2) else _PRIORS[1:]):
                    for header in (('a', 'b'), ('b', 'a')):
                        c = dict(base)
                        c['prior'] = prior
                        c['steps'] = [{'op': op, 'commit': commit, 'header': header, 'rows': list(tbl),
                                       'fault': None, 'src': 'raw'}]
                        yield c
    elif kind == 'fault':
        _, _, op, commit, src = item
        nmax = 4 if tier == 'thorough' else (3 if src == 'raw' else 2)
        for n in range(0, nmax + 1):
            for tbl in itertools.product(_R3, repeat=n):
                for fault in _fault_positions(n, False):
                    for prior in (_PRIORS if (tier == 'thorough' or n < 3) else _PRIORS[1:]):
                        c = dict(base)
                        c['prior'] = prior
                        c['steps'] = [{'op': op, 'commit': commit, 'header': ('a', 'b'), 'rows': list(tbl),
                                       'fault': fault, 'src': src}]
                        yield c
    elif kind == 'exc':
        _, _, op, commit = item
        nmax = 3 if tier == 'thorough' else 1
        priors = _PRIORS[::-1] if tier == 'thorough' else _PRIORS[1:]
        for n in range(0, nmax + 1):
            rows = (_SEQROWS[0] + _SEQROWS[1])[:n]
            for fault in _fault_positions(n, False):
                for exc in EXC_KINDS:
                    for src in SRC_STYLES:
                        if src == 'iterator' and exc == 'StopIteration in generator':
                            continue        # StopIteration from __next__ is exhaustion, not a failure
                        for prior in priors:
                            c = dict(base)
                            c['prior'] = prior
                            c['steps'] = [{'op': op, 'commit': commit, 'header': ('a', 'b'), 'rows': rows,
                                           'fault': fault, 'src': src, 'exc': exc}]
                            yield c
    elif kind == 'long':
        _, _, op, commit, li = item
        n, faults = _long_plan(tier)[li]
        for fault in faults:
            c = dict(base)
            c['prior'] = _PRIORS[1]
            c['steps'] = [{'op': op, 'commit': commit, 'header': ('a', 'b'), 'nrows': n,
                           'fault': fault, 'src': 'raw'}]
            yield c
    elif kind == 'reads':
        _, _, op, commit = item
        evsets = [[e] for e in READ_EVENTS]
        if tier == 'thorough':
            evsets += [list(p) for p in itertools.permutations(READ_EVENTS, 2)]
        for n in range(0, 3):
            rows = (_SEQROWS[0] + _SEQROWS[1])[:n]
            for fault in _fault_positions(n, True):
                for evs in evsets:
                    if handle in NO_CALLER_CONNECTION and any(e[2] == 'connection' for e in evs):
                        continue        # no caller connection; 'handle' reads go through the file name
                    c = dict(base)
                    c['prior'] = _PRIORS[1]
                    c['steps'] = [{'op': op, 'commit': commit, 'header': ('a', 'b'), 'rows': rows,
                                   'fault': fault, 'src': 'raw', 'reads': evs}]
                    yield c
    elif kind == 'schema':
        _, _, op, scen = item
        for n in range(0, 3):
            rows = (_SEQROWS[0] + _SEQROWS[1])[:n]
            for fault in _fault_positions(n, True):
                for commit in (True, False):
                    c = dict(base)
                    c['kind'] = 'schema'
                    c['scenario'] = scen
                    c['steps'] = [{'op': op, 'commit': commit, 'header': ('a', 'b'), 'rows': rows,
                                   'fault': fault, 'src': 'raw'}]
                    yield c
    elif kind == 'types':
        _, _, op, decl = item
        tables = [[]] + [[(x, y)] for x in TYPED_CELLS for y in TYPED_CELLS]
        if tier == 'thorough':
            tables += [[(x, 'abc'), (y, 1)] for x in TYPED_CELLS for y in TYPED_CELLS]
        for tbl in tables:
            for commit in ((True, False) if tier == 'thorough' else (True,)):
                c = dict(base)
                c['kind'] = 'types'
                c['declared'] = decl
                c['prior'] = [(7, 'old')]
                c['steps'] = [{'op': op, 'commit': commit, 'header': ('a', 'b'), 'rows': tbl,
                               'fault': None, 'src': 'raw'}]
                yield c
    elif kind == 'hostile':
        _, _, op = item
        for n in range(0, 3 if tier == 'thorough' else 2):
            for tbl in itertools.product(_R3, repeat=n):
                for fault in _fault_positions(n, True):
                    for commit in (True, False):
                        for prior in _PRIORS:
                            for header in (('a', 'b'), ('b', 'a')):
                                for schema in (None, 'main'):
                                    c = dict(base)
                                    c['naming'] = 'hostile'
                                    c['prior'] = prior
                                    st = {'op': op, 'commit': commit, 'header': header, 'rows': list(tbl),
                                          'fault': fault, 'src': 'raw'}
                                    if schema is not None:
                                        st['schema'] = schema
                                    c['steps'] = [st]
                                    yield c
    elif kind in ('seq', 'seq3'):
        if kind == 'seq':
            _, _, between, ops, commits = item
            commit_choices = [commits]
            nmax = 2 if tier == 'thorough' else 1
        else:
            _, _, between, ops = item
            commit_choices = list(itertools.product((True, False), repeat=3))
            nmax = 1
        k = len(ops)
        per_load = [(n, f) for n in range(0, nmax + 1) for f in _fault_positions(n, True)]
        per_load.sort(key=lambda nf: (nf[0], nf[1] is not None, nf[1] or 0))
        for combo in itertools.product(per_load, repeat=k):
            for commits in commit_choices:
                for prior in (_PRIORS if k == 2 else _PRIORS[1:]):      # three loads: non-empty prior only
                    c = dict(base)
                    c['between'] = between
                    c['prior'] = prior
                    steps = []
                    for j in range(k):
                        n, f = combo[j]
                        rows = (_SEQROWS[j] + _R3)[:n]
                        steps.append({'op': ops[j], 'commit': commits[j], 'header': ('a', 'b'),
                                      'rows': rows, 'fault': f, 'src': 'raw'})
                        if between == 'reads':
                            steps[-1]['reads'] = [e for e in SEQ_READS
                                                  if not (handle in NO_CALLER_CONNECTION and e[2] == 'connection')]
                    c['steps'] = steps
                    yield c
    else:
        raise ValueError(kind)


# ------------------------------------------------------------------------------------------------
# one case on the real code
# ------------------------------------------------------------------------------------------------

def _q(name):
    """SQL-92 delimited identifier."""
    return '"' + name.replace('"', '""') + '"'


def _ident(v):
    return v


def _select(tname, cols):
    return 'SELECT %s FROM %s' % (', '.join(_q(c) for c in cols), _q(tname))


def _fresh_rows(path, tname, cols):
    c = sqlite3.connect(path)
    try:
        return c.execute(_select(tname, cols)).fetchall()
    finally:
        c.close()


def _connect(path, flavor):
    if flavor == 'pep249':
        return sqlite3.connect(path, autocommit=False)
    return sqlite3.connect(path)


class Boom(Exception):
    """The custom exception class of the failing source."""


# exception the SOURCE raises: name -> factory(message)
EXC_KINDS = collections.OrderedDict([
    ('Boom', lambda m: Boom(m)),
    ('TypeError', lambda m: TypeError(m)),
    ('ValueError', lambda m: ValueError(m)),
    ('KeyError', lambda m: KeyError(m)),
    ('IndexError', lambda m: IndexError(m)),
    ('LookupError', lambda m: LookupError(m)),
    ('RuntimeError', lambda m: RuntimeError(m)),
    ('StopIteration in generator', lambda m: StopIteration(m)),     # PEP 479 turns it into RuntimeError
    ('AttributeError', lambda m: AttributeError(m)),
    ('AssertionError', lambda m: AssertionError(m)),
    ('OSError', lambda m: OSError(5, m)),
    ('UnicodeDecodeError', lambda m: UnicodeDecodeError('utf-8', b'\xff', 0, 1, m)),
    ('ZeroDivisionError', lambda m: ZeroDivisionError(m)),
    ('sqlite3.Warning', lambda m: sqlite3.Warning(m)),
    ('sqlite3.Error', lambda m: sqlite3.Error(m)),
    ('sqlite3.DatabaseError', lambda m: sqlite3.DatabaseError(m)),
    ('sqlite3.OperationalError', lambda m: sqlite3.OperationalError(m)),
    ('sqlite3.IntegrityError', lambda m: sqlite3.IntegrityError(m)),
    ('sqlite3.ProgrammingError', lambda m: sqlite3.ProgrammingError(m)),
    ('sqlite3.InterfaceError', lambda m: sqlite3.InterfaceError(m)),
])
SRC_STYLES = ('raw', 'generator', 'iterator', 'view')


def _failing_gen(header, rows, fault, exc):
    """Generator: header and rows, raising instead of the item at position `fault` (0 = header, 1..n = data
    row, n + 1 = instead of finishing).  Like every generator it is FINISHED after raising."""
    items = [tuple(header)] + [tuple(r) for r in rows]
    for pos, item in enumerate(items):
        if fault == pos:
            raise EXC_KINDS[exc]('injected failure at item %d' % pos)
        yield item
    if fault == len(items):
        raise EXC_KINDS[exc]('injected failure at exhaustion')


class FailingSource(object):
    """Restartable table container; every iter() starts a new failing generator."""

    def __init__(self, header, rows, fault, exc):
        self.args = (header, rows, fault, exc)

    def __iter__(self):
        return _failing_gen(*self.args)


class FailingIterator(object):
    """Class-based one-shot iterator: raises once at the fault position and, if asked again, goes on with the
    items after it (a consumer that swallows the failure and keeps pulling gets the remaining rows)."""

    def __init__(self, header, rows, fault, exc):
        self.items = [tuple(header)] + [tuple(r) for r in rows]
        self.fault, self.exc, self.pos = fault, exc, 0

    def __iter__(self):
        return self

    def __next__(self):
        pos = self.pos
        self.pos += 1
        if pos == self.fault:
            raise EXC_KINDS[self.exc]('injected failure at item %d' % pos)
        if pos >= len(self.items):
            raise StopIteration
        return self.items[pos]


def _rows(step):
    """Data rows of a step: listed explicitly, or generated (long sources: 'nrows')."""
    if 'rows' in step:
        return step['rows']
    return _long_rows(step['nrows'])


def _show(rows):
    """ref.show, abbreviated for long tables."""
    rows = ref.show(rows)
    if len(rows) <= 12:
        return rows
    return {'number of rows': len(rows), 'first': rows[:3], 'last': rows[-3:]}


OTHER_TABLE = ('u', [(7, 'seven'), (8, None)])


def _read_event(ev, handle, conn, path, tname):
    """One petl read: (extent, table, reader).  Returns the rows read (full) or None."""
    extent, table, reader = ev
    target = handle if (reader == 'handle' or conn is None) else conn
    view = etl.fromdb(target, 'SELECT * FROM %s' % _q(tname if table == 'same' else OTHER_TABLE[0]))
    if extent == 'full':
        return [tuple(r) for r in list(view)[1:]]
    it = iter(view)
    next(it)             # header
    next(it, None)       # first row, if any
    del it               # abandoned
    return None


def _source(step, cols):
    actual = tuple(cols[LOGICAL.index(h)] for h in step['header'])
    exc = step.get('exc', 'Boom')
    style = step['src']
    if style == 'generator':
        return _failing_gen(actual, _rows(step), step['fault'], exc)
    if style == 'iterator':
        return FailingIterator(actual, _rows(step), step['fault'], exc)
    src = FailingSource(actual, _rows(step), step['fault'], exc)
    if style == 'view':
        return etl.convert(src, actual[0], _ident)
    if style != 'raw':
        raise ValueError(style)
    return src


def _sig_group(step, case, sig):
    return '%s(%s handle) | %s' % (step['op'], case['handle'], sig)


def run_case(case, counts=None):
    """Execute the case; return a list of problems (group, sig, step index, expected, observed, msg)."""
    global _N
    _N += 1
    path = os.path.join(env.worker_dir(), 'c17-%d-%d.db' % (os.getpid(), _N))
    tname, cols = NAMING[case['naming']]
    problems = []
    conn = None
    counts = counts if counts is not None else {}

    def bump(k, n=1):
        counts[k] = counts.get(k, 0) + n

    try:
        c0 = sqlite3.connect(path)
        c0.execute('CREATE TABLE %s (%s)' % (_q(tname), ', '.join(_q(c) for c in cols)))
        c0.executemany('INSERT INTO %s VALUES (?, ?)' % _q(tname), case['prior'])
        c0.execute('CREATE TABLE %s (k, v)' % _q(OTHER_TABLE[0]))
        c0.executemany('INSERT INTO %s VALUES (?, ?)' % _q(OTHER_TABLE[0]), OTHER_TABLE[1])
        c0.commit()
        c0.close()

        kind = case['handle']
        owns = kind in NO_CALLER_CONNECTION      # no caller-owned connection: pending work dies with the call
        if kind == 'filename':
            handle = path
        elif kind == 'mkcurs-newconn':
            flavor = case['flavor']
            # timeout=0: a load whose statements land on two connections fails at once instead of waiting 5 s
            if flavor == 'pep249':
                handle = lambda: sqlite3.connect(path, timeout=0, autocommit=False).cursor()
            else:
                handle = lambda: sqlite3.connect(path, timeout=0).cursor()
        else:
            conn = _connect(path, case['flavor'])
            if kind == 'connection':
                handle = conn
            elif kind == 'cursor':
                handle = conn.cursor()
            elif kind == 'mkcurs':
                handle = conn.cursor
            else:
                raise ValueError(kind)

        for si, step in enumerate(case['steps']):
            committed_before = _fresh_rows(path, tname, cols)
            view_before = committed_before if owns else conn.execute(_select(tname, cols)).fetchall()
            rows_canon = ref.canonical(step['header'], _rows(step), LOGICAL)
            exp_committed, exp_view = ref.expect(step['op'], owns, step['commit'], step['fault'],
                                                 committed_before, view_before, rows_canon)
            fn = etl.todb if step['op'] == 'todb' else etl.appenddb
            if (si > 0 and case['steps'][si - 1]['fault'] is not None and step['fault'] is None
                    and step['commit'] and step['op'] == 'appenddb'
                    and ref.bag(view_before) != ref.bag(committed_before)):
                # information only (accepted by the oracle, see RULE): the caller did not roll back after a
                # failed load, so this commit also makes the failed load's pending rows durable
                bump('info_pending_of_failed_load_committed_later')
            raised = None
            bump('transitions')
            try:
                if step.get('schema') is not None:
                    fn(_source(step, cols), handle, tname, schema=step['schema'], commit=step['commit'])
                else:
                    fn(_source(step, cols), handle, tname, commit=step['commit'])
            except Exception as e:
                # keep type and text only: the traceback would keep petl's cursors / connections alive
                raised = (type(e).__name__, str(e)[:200])
            if kind == 'mkcurs-newconn':
                # the per-call connections are garbage now; a sqlite3.Connection sits in a reference cycle with
                # its statement cache, so it is only closed (and its pending work rolled back, its lock released)
                # by the cyclic collector - run it, as "the caller has dropped the connection"
                gc.collect()
            committed_after = _fresh_rows(path, tname, cols)
            counts['last'] = (raised is not None, len(committed_after),
                              ref.bag(committed_after) == ref.bag(committed_before))

            # non-triviality: would a commit at the wrong moment have been visible?
            if step['fault'] is not None:
                k = ref.delivered(len(_rows(step)), step['fault'])
                changed = step['fault'] != 0 and ((step['op'] == 'todb' and len(view_before) > 0) or k > 0)
            else:
                changed = ref.bag(ref.load(step['op'], view_before, rows_canon)) != ref.bag(committed_before)
            if changed:
                counts['nontrivial_step'] = True

            if (step['fault'] is None and raised is not None and kind == 'mkcurs-newconn'
                    and step['op'] == 'todb' and ref.bag(committed_after) == ref.bag(committed_before)):
                # todb truncates through one cursor of the factory and inserts through the next one; with one
                # connection per call these are two transactions and the engine refuses (sqlite: 'database is
                # locked').  The documentation shows only factories over one shared connection; accepted as long
                # as the committed table is untouched (all-or-nothing still demanded).
                bump('info_todb_newconn_refused')
                break
            if step['fault'] is None and raised is not None:
                problems.append((_sig_group(step, case, 'raised although the source did not fail'), si,
                                 'returns normally', '%s: %s' % raised,
                                 '%s raised %s on a well-formed source' % (step['op'], raised[0])))
                break
            bump('evals')
            if ref.bag(committed_after) != ref.bag(exp_committed):
                if step['fault'] is not None:
                    sig = 'a fresh connection does not see the previous contents after the source failed'
                elif not step['commit']:
                    sig = 'a fresh connection sees changes although commit=False'
                else:
                    sig = 'a fresh connection does not see the loaded table after a completed load'
                problems.append((_sig_group(step, case, sig), si, _show(exp_committed),
                                 _show(committed_after),
                                 'load %d: %s(commit=%s) fault position %r%s: committed table differs%s'
                                 % (si + 1, step['op'], step['commit'], step['fault'],
                                    (' (source raises %s, style %s)' % (step.get('exc', 'Boom'), step['src']))
                                    if step['fault'] is not None else '',
                                    '' if raised is not None or step['fault'] is None
                                    else '; the call returned normally')))
            if step['fault'] is not None and raised is None and not owns:
                # the failure was swallowed: the call claims success; the caller's connection must then not
                # hold a (partially) loaded table that the caller would go on to commit
                bump('evals')
                view_after = conn.execute(_select(tname, cols)).fetchall()
                if ref.bag(view_after) != ref.bag(view_before):
                    problems.append((_sig_group(step, case, 'returned normally although the source failed, '
                                                            'leaving a changed table on the caller\'s connection'),
                                     si, {'raises': True, 'or table on the connection': _show(view_before)},
                                     {'raises': False, 'table on the connection': _show(view_after)},
                                     'load %d: %s(commit=%s) fault position %r (%s): failure swallowed'
                                     % (si + 1, step['op'], step['commit'], step['fault'],
                                        step.get('exc', 'Boom'))))
            if step['fault'] is None:
                # round trip through the same handle
                bump('evals')
                bump('transitions')
                try:
                    back = list(etl.fromdb(handle, 'SELECT * FROM %s' % _q(tname)))
                    if kind == 'mkcurs-newconn':
                        gc.collect()
                    got_hdr = tuple(back[0]) if back else None
                    got_rows = [tuple(r) for r in back[1:]]
                    obs = None
                except Exception as e:
                    got_hdr, got_rows = None, []
                    obs = '%s: %s' % (type(e).__name__, str(e)[:200])
                if obs is not None or got_hdr != tuple(cols) or ref.bag(got_rows) != ref.bag(exp_view):
                    problems.append((_sig_group(step, case, 'fromdb through the same handle does not return the '
                                                            'rows written'), si,
                                     [tuple(cols)] + ref.show(exp_view),
                                     obs if obs is not None else [got_hdr] + ref.show(got_rows),
                                     'load %d: fromdb after %s(commit=%s)' % (si + 1, step['op'], step['commit'])))
            # follow-up read events: no petl read may commit or roll back
            for ev in step.get('reads', ()):
                ev = tuple(ev)
                c_before = _fresh_rows(path, tname, cols)
                v_before = c_before if owns else conn.execute(_select(tname, cols)).fetchall()
                bump('transitions')
                bump('evals')
                try:
                    got = _read_event(ev, handle, conn, path, tname)
                    err = None
                except Exception as e:
                    got, err = None, '%s: %s' % (type(e).__name__, str(e)[:200])
                if kind == 'mkcurs-newconn':
                    gc.collect()
                c_after = _fresh_rows(path, tname, cols)
                v_after = c_after if owns else conn.execute(_select(tname, cols)).fetchall()
                counts['reads'] = counts.get('reads', 0) + 1
                if ref.bag(v_before) != ref.bag(c_before):
                    counts['nontrivial_read'] = True       # something was pending while petl read
                evname = '%s read of %s table via %s' % (ev[0], ev[1], 'the handle' if ev[2] == 'handle'
                                                         else "the handle's connection")
                if err is not None:
                    problems.append((_sig_group(step, case, 'fromdb after the load raised'), si,
                                     'rows', err, 'load %d: %s' % (si + 1, evname)))
                    continue
                if ref.bag(c_after) != ref.bag(c_before):
                    problems.append((_sig_group(step, case, 'a fromdb read changed what a fresh connection sees '
                                                            '(read committed pending work)'), si,
                                     _show(c_before), _show(c_after),
                                     'load %d (%s, commit=%s, fault %r) then %s'
                                     % (si + 1, step['op'], step['commit'], step['fault'], evname)))
                if ref.bag(v_after) != ref.bag(v_before):
                    problems.append((_sig_group(step, case, 'a fromdb read changed the pending table on the '
                                                            'caller\'s connection'), si,
                                     _show(v_before), _show(v_after),
                                     'load %d (%s, commit=%s, fault %r) then %s'
                                     % (si + 1, step['op'], step['commit'], step['fault'], evname)))
                if got is not None and ev[1] == 'same':
                    # what a reader through the caller's own connection must see: the connection's view;
                    # through a file name: the committed table
                    want = c_before if (owns or conn is None) else v_before
                    if ref.bag(got) != ref.bag(want):
                        problems.append((_sig_group(step, case, 'fromdb after the load does not return the table '
                                                                'as the connection sees it'), si,
                                         _show(want), _show(got), 'load %d then %s' % (si + 1, evname)))
            if case['between'] == 'rollback' and conn is not None and si + 1 < len(case['steps']):
                conn.rollback()
    finally:
        if conn is not None:
            try:
                conn.close()
            except Exception:
                pass
        for p in (path, path + '-journal', path + '-wal', path + '-shm'):
            try:
                os.unlink(p)
            except OSError:
                pass
    return problems


def _make_handle(kind, flavor, path, setup_conn):
    """(handle, caller connection or None).  setup_conn(connection) prepares every connection the caller opens
    (ATTACH ...)."""
    def connect(timeout=None):
        kw = {}
        if timeout is not None:
            kw['timeout'] = timeout
        if flavor == 'pep249':
            c = sqlite3.connect(path, autocommit=True, **kw)
            setup_conn(c)                      # ATTACH is not possible inside the always-open transaction
            c.autocommit = False
        else:
            c = sqlite3.connect(path, **kw)
            setup_conn(c)
        return c
    if kind == 'filename':
        return path, None
    if kind == 'mkcurs-newconn':
        return (lambda: connect(0).cursor()), None
    conn = connect()
    if kind == 'connection':
        return conn, conn
    if kind == 'cursor':
        return conn.cursor(), conn
    if kind == 'mkcurs':
        return conn.cursor, conn
    raise ValueError(kind)


def _cleanup(conn, paths):
    if conn is not None:
        try:
            conn.close()
        except Exception:
            pass
    gc.collect()
    for path in paths:
        for p in (path, path + '-journal', path + '-wal', path + '-shm'):
            try:
                os.unlink(p)
            except OSError:
                pass


def run_schema_case(case, counts=None):
    """todb / appenddb(..., schema=...) in a world where <schema>.t and the unqualified t may be different tables."""
    global _N
    _N += 1
    counts = counts if counts is not None else {}
    base = os.path.join(env.worker_dir(), 'c17s-%d-%d' % (os.getpid(), _N))
    path, apath = base + '.db', base + '-archive.db'
    scen = SCHEMA_SCENARIOS[case['scenario']]
    schema, other = scen['schema'], scen['other']
    step = case['steps'][0]
    kind = case['handle']
    problems = []
    conn = None
    sel = 'SELECT a, b FROM %s."t"'

    def attach(c):
        c.execute('ATTACH DATABASE ? AS archive', (apath,))

    def fresh(which):
        c = sqlite3.connect(path)
        try:
            attach(c)
            return c.execute(sel % _q(which)).fetchall()
        finally:
            c.close()

    def group(sig):
        return '%s(%s handle, schema=) | %s' % (step['op'], kind, sig)

    try:
        for p_, rows in ((path, SCHEMA_PRIORS['main']), (apath, SCHEMA_PRIORS['archive'])):
            c0 = sqlite3.connect(p_)
            c0.execute('CREATE TABLE t (a, b)')
            c0.executemany('INSERT INTO t VALUES (?, ?)', rows)
            c0.commit()
            c0.close()
        handle, conn = _make_handle(kind, case['flavor'], path, attach if kind != 'filename' else (lambda c: None))
        if scen['temp']:
            conn.execute('CREATE TEMP TABLE t (a, b)')
            conn.executemany('INSERT INTO temp.t VALUES (?, ?)', SCHEMA_PRIORS['temp'])
            conn.commit()

        def own(which):
            return conn.execute(sel % _q(which)).fetchall() if conn is not None else fresh(which)

        owns = kind in NO_CALLER_CONNECTION
        t_committed_before = fresh(schema)
        t_view_before = own(schema)
        o_committed_before = fresh(other) if other not in (None, 'temp') else None
        o_view_before = own(other) if other is not None else None
        exp_committed, exp_view = ref.expect(step['op'], owns, step['commit'], step['fault'],
                                             t_committed_before, t_view_before, step['rows'])
        fn = etl.todb if step['op'] == 'todb' else etl.appenddb
        raised = None
        counts['transitions'] = counts.get('transitions', 0) + 1
        try:
            fn(_source(step, LOGICAL), handle, 't', schema=schema, commit=step['commit'])
        except Exception as e:
            raised = (type(e).__name__, str(e)[:200])
        if kind == 'mkcurs-newconn':
            gc.collect()
        t_committed_after = fresh(schema)
        counts['last'] = (raised is not None, len(t_committed_after), 'schema')
        counts['evals'] = counts.get('evals', 0) + 2
        counts['nontrivial_step'] = other is not None       # a wrongly addressed statement would hit the other table
        if (step['fault'] is None and raised is not None and kind == 'mkcurs-newconn' and step['op'] == 'todb'
                and ref.bag(t_committed_after) == ref.bag(t_committed_before)):
            counts['info_todb_newconn_refused'] = 1
            return problems
        if step['fault'] is None and raised is not None:
            problems.append((group('raised although the source did not fail'), 0, 'returns normally',
                             '%s: %s' % raised, '%s(schema=%r) raised %s' % (step['op'], schema, raised[0])))
            return problems
        if ref.bag(t_committed_after) != ref.bag(exp_committed):
            problems.append((group('the table named by schema= does not hold what a fresh connection should see'), 0,
                             _show(exp_committed), _show(t_committed_after),
                             '%s(schema=%r, commit=%s) fault position %r [%s]'
                             % (step['op'], schema, step['commit'], step['fault'], case['scenario'])))
        # the same-named table outside the schema: untouched, committed and on the caller's connection
        if other is not None:
            if o_committed_before is not None:
                o_after = fresh(other)
                if ref.bag(o_after) != ref.bag(o_committed_before):
                    problems.append((group('a table of the same name outside the given schema was changed'), 0,
                                     _show(o_committed_before), _show(o_after),
                                     '%s(schema=%r): %s.t as a fresh connection sees it [%s]'
                                     % (step['op'], schema, other, case['scenario'])))
            o_view_after = own(other)
            if ref.bag(o_view_after) != ref.bag(o_view_before):
                problems.append((group('a table of the same name outside the given schema was changed on the '
                                       'caller\'s connection'), 0, _show(o_view_before), _show(o_view_after),
                                 '%s(schema=%r, commit=%s): %s.t through the caller\'s connection [%s]'
                                 % (step['op'], schema, step['commit'], other, case['scenario'])))
        if step['fault'] is None:
            counts['evals'] += 1
            counts['transitions'] += 1
            try:
                back = list(etl.fromdb(handle, 'SELECT * FROM %s."t"' % _q(schema)))
                got = [tuple(r) for r in back[1:]]
                err = None
            except Exception as e:
                got, err = [], '%s: %s' % (type(e).__name__, str(e)[:200])
            if err is not None or ref.bag(got) != ref.bag(exp_view):
                problems.append((group('fromdb through the same handle does not return the rows written'), 0,
                                 _show(exp_view), err if err is not None else _show(got),
                                 'fromdb of %s.t after %s(schema=, commit=%s)' % (schema, step['op'], step['commit'])))
    finally:
        _cleanup(conn, (path, apath))
    return problems


def run_types_case(case, counts=None):
    """Round trip into a table whose columns have DECLARED types; reference: sqlite's documented type affinity."""
    global _N
    _N += 1
    counts = counts if counts is not None else {}
    path = os.path.join(env.worker_dir(), 'c17t-%d-%d.db' % (os.getpid(), _N))
    decl = case['declared']
    step = case['steps'][0]
    kind = case['handle']
    problems = []
    conn = None
    sel = 'SELECT a, b FROM t'

    def fresh():
        c = sqlite3.connect(path)
        try:
            return c.execute(sel).fetchall()
        finally:
            c.close()

    def group(sig):
        return '%s(%s handle, declared column types) | %s' % (step['op'], kind, sig)

    try:
        c0 = sqlite3.connect(path)
        c0.execute('CREATE TABLE t (a %s, b %s)' % (decl, decl))
        c0.executemany('INSERT INTO t VALUES (?, ?)', case['prior'])
        c0.commit()
        c0.close()
        handle, conn = _make_handle(kind, case['flavor'], path, lambda c: None)
        owns = kind in NO_CALLER_CONNECTION
        committed_before = fresh()
        view_before = conn.execute(sel).fetchall() if conn is not None else committed_before
        rows_stored = [tuple(ref.stored(v, decl) for v in r) for r in step['rows']]
        exp_committed, exp_view = ref.expect(step['op'], owns, step['commit'], None,
                                             committed_before, view_before, rows_stored)
        fn = etl.todb if step['op'] == 'todb' else etl.appenddb
        raised = None
        counts['transitions'] = counts.get('transitions', 0) + 1
        try:
            fn(_source(step, LOGICAL), handle, 't', commit=step['commit'])
        except Exception as e:
            raised = (type(e).__name__, str(e)[:200])
        if kind == 'mkcurs-newconn':
            gc.collect()
        committed_after = fresh()
        counts['last'] = (raised is not None, len(committed_after), 'types')
        counts['evals'] = counts.get('evals', 0) + 1
        counts['nontrivial_step'] = any(ref.cellkey(x) != ref.cellkey(y)
                                        for r, q in zip(step['rows'], rows_stored) for x, y in zip(r, q)) \
            or any(isinstance(v, str) and v[:1].isdigit() for r in step['rows'] for v in r)
        if raised is not None and kind == 'mkcurs-newconn' and step['op'] == 'todb' \
                and ref.bag(committed_after) == ref.bag(committed_before):
            counts['info_todb_newconn_refused'] = 1
            return problems
        if raised is not None:
            problems.append((group('raised although the source did not fail'), 0, 'returns normally',
                             '%s: %s' % raised, '%s raised %s' % (step['op'], raised[0])))
            return problems
        if ref.bag(committed_after) != ref.bag(exp_committed):
            problems.append((group('a fresh connection does not see the values written (after type affinity)'), 0,
                             _show(exp_committed), _show(committed_after),
                             '%s(commit=%s) into columns declared %r' % (step['op'], step['commit'], decl or 'untyped')))
        # read back through petl: the same handle, and a file name
        for reader, target, want in (('the same handle', handle, exp_view), ('a file name', path, exp_committed)):
            counts['evals'] += 1
            counts['transitions'] += 1
            try:
                back = list(etl.fromdb(target, 'SELECT * FROM t'))
                got = [tuple(r) for r in back[1:]]
                err = None
            except Exception as e:
                got, err = [], '%s: %s' % (type(e).__name__, str(e)[:200])
            if kind == 'mkcurs-newconn':
                gc.collect()
            if err is not None or ref.bag(got) != ref.bag(want):
                problems.append((group('fromdb through %s does not return the values written' % reader), 0,
                                 _show(want), err if err is not None else _show(got),
                                 'fromdb via %s after %s(commit=%s) into columns declared %r'
                                 % (reader, step['op'], step['commit'], decl or 'untyped')))
    finally:
        _cleanup(conn, (path,))
    return problems


_RUNNERS = {'schema': run_schema_case, 'types': run_types_case}


def _record(acc, case, problems):
    for group, si, expected, observed, msg in problems:
        vc = dict(case)
        vc['group'] = group
        acc.violation(group, vc, expected, observed, msg)


def run_item(item, acc):
    first = True
    for case in cases_of(item, _TIER):
        counts = {}
        problems = _RUNNERS.get(case.get('kind'), run_case)(case, counts)
        acc.states += 1
        if case.get('kind'):
            acc.counters['%s space:%s' % (case['kind'], case['handle'])] += 1
        acc.evals += counts.get('evals', 0)
        acc.transitions += counts.get('transitions', 0)
        if counts.get('nontrivial_step'):
            acc.nontrivial += 1
        if counts.get('reads'):
            acc.counters['read events'] += counts['reads']
            if counts.get('nontrivial_read'):
                acc.counters['read events:cases with work pending on the connection while petl read'] += 1
        if counts.get('info_todb_newconn_refused'):
            acc.counters['info:todb through a cursor factory with one connection per call was refused by the '
                         'engine, table untouched (accepted)'] += 1
        if any('nrows' in st for st in case['steps']):
            acc.counters['long-source loads'] += 1
        if counts.get('info_pending_of_failed_load_committed_later'):
            acc.counters['info:pending rows of a failed load committed by a later load on the same caller '
                         'connection (no rollback in between; accepted)'] += 1
        acc.outcome(counts.get('last'))
        for st in case['steps']:
            acc.counters['%s:%s:%s' % (st['op'], case['handle'],
                                        'fault' if st['fault'] is not None else 'complete')] += 1
            if st['fault'] is not None:
                acc.counters['source raises:%s' % st.get('exc', 'Boom')] += 1
                acc.counters['source style:%s' % st['src']] += 1
        if first and counts.get('nontrivial_step'):
            acc.sample({'case': case, 'outcome': counts.get('last')}, 1)
            first = False
        _record(acc, case, problems)


def replay(case):
    group = case.get('group')
    case = dict(case)
    case.pop('group', None)
    problems = _RUNNERS.get(case.get('kind'), run_case)(case)
    hit = [p for p in problems if group is None or p[0] == group]
    if not hit:
        return None
    g, si, expected, observed, msg = hit[0]
    return (expected, observed, msg)


def vacuity(cov, tier):
    bad = []
    c = cov['per_case_counters']
    for op in OPS:
        for h in ('filename', 'connection', 'cursor', 'mkcurs', 'mkcurs-newconn'):
            for k in ('fault', 'complete'):
                if not c.get('%s:%s:%s' % (op, h, k)):
                    bad.append('no %s load via %s handle with outcome class %s' % (op, h, k))
    for k in ('read events:cases with work pending on the connection while petl read', 'long-source loads'):
        if not c.get(k):
            bad.append('no case counted under %r' % k)
    for k in ('schema space:connection', 'schema space:cursor', 'schema space:mkcurs', 'schema space:filename',
              'types space:filename', 'types space:connection'):
        if not c.get(k):
            bad.append('no case counted under %r' % k)
    for e in EXC_KINDS:
        if not c.get('source raises:%s' % e):
            bad.append('no failing load with a source raising %s' % e)
    for st in SRC_STYLES:
        if not c.get('source style:%s' % st):
            bad.append('no failing load with source style %s' % st)
    return bad
