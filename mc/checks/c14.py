"""C14 — reshape operators are mutually inverse and cell-exact.

E2: every rectangular table with w in {2,3} fields (every permutation of the field names), <= 3 rows,
every ordered non-empty proper subset of the fields as key, every injective assignment of key cells
over K4 = {None, i1, i2, s1} (compound keys: all injective assignments of pairs), position-tagged
value cells, through melt (exact output) and recast(melt(t)) (== rows sorted by key, variables in sorted
name order); recast on every small molten table (missing pairs, repeated pairs, None keys); transpose and
its square on every shape; flatten/unflatten for every shape, every period and list length; pivot on
every table over (f1, f2) in small alphabets with row-identifying values; unpack / unpackdict /
capture / split / splitdown over every combination of cell contents and arguments; fromdicts(dicts(t))
and fromcolumns(columns(t)).  Oracles: mc/refs/reshape.py (no petl imports).
"""
import itertools
import re

import petl as etl

from .. import spaces
from ..refs import reshape as R

ID = 'C14'
LEVEL = 'model_checking'
ENGINE = 'E2 small-scope enumeration against reference reshape semantics'
RULE = ('melt/recast: all rectangular tables, w in {2,3} x every permutation of the field names x every '
        'ordered non-empty proper key subset x n <= 3 rows x every injective key assignment (single-field keys '
        'over K8 = K4 + tuple- and list-VALUED cells (i1,), (i1,i2), (None,s1), [i2,i1]; compound keys: pairs '
        'over K4, quick: 3-row compound keys over K3) with position-tagged (or None-checkered) value '
        'cells; call forms key by name / index / inferred from variables= / explicit variables subset / custom '
        'variable+value field names / recast key inferred. recast: every molten table <= 3 (4) rows over key K8 '
        'x variable {p,q} with missing=None/marker and with/without reducers. transpose: every shape w<=3(4), '
        'n<=3(4), first column over K4. flatten/unflatten: every shape, every ragged shape vector, every list '
        'length 0..6(8) x period 1..4(5) x missing. pivot: every table <= 4 rows over f1 x f2 alphabets, values '
        '2^i, aggfun sum/list/len/max, two field layouts. unpack/unpackdict/capture/split/splitdown: every '
        'combination of cell contents (<= 2 rows), field position (first/middle/last), name/index, newfields, '
        'include_original, missing/fill/maxsplit (unpackdict: <= 3 rows whose dict key sets differ, keys given or sampled '
        'with samplesize in {0,1,2,1000}: fields = sorted union of the keys of the sampled rows only), the OTHER two cells of each row being position tags or (tables '
        'of <= 1 (thorough 2) rows: every combination of) a value equal to the expanded cell / equal to its first '
        'part. fromdicts(dicts(t)), fromcolumns(columns(t)): every shape w<=3, n<=3 x every KIND of input (list, '
        'tuple, petl dicts() container, generator, iter(list), map object; columns as list/tuple/iterator of '
        'lists/tuples/iterators) x header given / discovered x sample in {default,1,2,1000}; two passes for '
        're-iterable inputs and generators, one pass for one-shot iterators. FIELD-NAME axis: names drawn '
        'injectively from {a, b, 2019, "2019", 2020, 1.5, None, True} (int, float, None, bool, a text equal to '
        'str(int)) for melt and recast(melt(t)) (w in {2,3}, every ordered key subset, fields selected by index '
        'and by str(name) where unambiguous), transpose/transpose^2 and flatten (w<=3), the two untouched fields '
        'of unpack/unpackdict/capture/split/splitdown (<= 1 row), recast with int / float+bool variable values, '
        'and melt(pivot(t)) / recast(melt(pivot(t))) (pivot header = f2 values); header and cells compared '
        'type-faithfully. TABLE WIDTH for unpack/unpackdict/capture/split/splitdown: 1, 2, 3 and 4 fields with the '
        'expanded field in every position, the other cells multi-character text / tuple / int / None in every '
        'combination (<= 2 rows for width <= 2, <= 1 row for width 4), full argument grid. REGEX FLAGS: split / splitdown / capture with flags in {IGNORECASE, VERBOSE, both, 0} '
        'and patterns whose separators / groups only match under the flag, flags by keyword and positionally, '
        'function and method (etl.wrap) syntax, x maxsplit x include_original x fill, on every table <= 2 rows '
        'over cells with lower-/upper-case and spaced separators; oracle re.compile(pattern, flags). '
        'states = distinct (table, call form) points. Non-trivial: round trips whose table is not already in '
        'the output arrangement (rows out of key order or variable fields out of name order); transposes with '
        'w>=2 and n>=1; unflatten with padding or >= 2 rows; pivots with an empty cell or a cell aggregating >= 2 '
        'rows; expanders with >= 1 row and >= 1 new field. EXCLUDED (documentation gives no answer): '
        'recast(melt(t)) for n = 0 (variables are discovered from the data) and for non-unique keys; ragged '
        'input for melt/transpose/pivot/expanders; heterogeneous f2 values in pivot (header sorted natively); '
        'fromdicts without header for n = 0; second passes over one-shot iterators; fromdicts(dicts(t)) / '
        'fromcolumns(columns(t)) with non-text field names (the records carry text names, as the statement '
        'says); explicit variables= and recast round trips where text names are ambiguous (2019 vs "2019") or '
        'the variable names are not natively sortable; the NAME of a non-text key field in recast output (given '
        'as text: text or original accepted); unpackdict on non-dict cells; field names equal to the '
        'variable/value field names')
ASSUMPTIONS = ['key alphabet K4 (None, two ints, one string; seed picks the concrete values): pairwise '
               'non-equivalent under the C04 order, so distinct cells are unique keys',
               'value cells are position-tagged strings (every cell distinct), None on a checkerboard, or the falsy non-None values 0, \'\', False, 0.0, () (wave 9)',
               'tables have <= 3 rows (<= 4 for pivot and in thorough)']

MARK = '∅'
FALSY = (0, '', False, 0.0, ())
NOTHING = ('nothing',)
NAMES = ('a', 'b', 'c', 'd')
_K4 = None
_K3 = None
_K8 = None       # single-field key alphabet: K4 + tuple- and list-valued cells
_TIER = 'quick'
_SEED = 0


def setup(tier, seed):
    global _K4, _K3, _K8, _TIER, _SEED
    _K4 = spaces.K4(seed)
    _K3 = spaces.K3(seed)
    r = spaces.reps(seed)
    # compound VALUES in a single key cell (pairwise non-equivalent under the C04 order)
    _K8 = _K4 + [(r['i1'],), (r['i1'], r['i2']), (None, r['s1']), [r['i2'], r['i1']]]
    _TIER = tier
    _SEED = seed


def bounds(tier, seed):
    return {'K4': [repr(v) for v in _K4], 'single_key_alphabet_K8': [repr(v) for v in _K8],
            'expander_other_cells': ['position tag', 'equal to the expanded cell', 'equal to its first part'],
            'max_rows': 3, 'max_rows_pivot': 4 if tier == 'quick' else 5,
            'widths_melt': [2, 3], 'flat_list_lengths': '0..6' if tier == 'quick' else '0..8',
            'periods': '1..4' if tier == 'quick' else '1..5'}


# ---------------------------------------------------------------------------------------------
# helpers
# ---------------------------------------------------------------------------------------------

def same_cell(a, b):
    if a is b:
        return True
    if type(a) is not type(b):
        return False
    if isinstance(a, (list, tuple)):
        return len(a) == len(b) and all(same_cell(x, y) for x, y in zip(a, b))
    return a == b


def same_table(xs, ys):
    if len(xs) != len(ys):
        return False
    for x, y in zip(xs, ys):
        if len(x) != len(y):
            return False
        for a, b in zip(x, y):
            if not same_cell(a, b):
                return False
    return True


def run(fn):
    """Evaluate a petl table completely: ('ok', rows) or ('exc', name, text, rows delivered before)."""
    out = []
    try:
        for r in iter(fn()):
            out.append(tuple(r))
    except Exception as e:
        return ('exc', type(e).__name__, str(e)[:160], out)
    return ('ok', out)


class Fails(list):
    def add(self, sig, expected, observed, msg):
        self.append((sig, expected, observed, msg))


def compare(fails, label, res, exp, what):
    if res[0] == 'exc':
        fails.add('%s | raises %s' % (label, res[1]), exp, {'raised': res[1], 'text': res[2]},
                  '%s raised %s: %s' % (what, res[1], res[2]))
        return False
    obs = res[1]
    if not same_table(obs, exp):
        if obs and exp and not same_table(obs[:1], exp[:1]):
            sig = 'wrong header'
            if textified(obs[0], exp[0]):
                sig = 'non-text field names converted to text'
                label = label.split('(')[0]
        elif len(obs) != len(exp):
            sig = 'wrong number of rows'
        else:
            sig = 'wrong cells'
        fails.add('%s | %s' % (label, sig), exp, obs, '%s returned %r, documented result is %r' % (what, obs, exp))
        return False
    return True


def textified(obs_hdr, exp_hdr):
    """obs_hdr is exp_hdr with (only) some non-text names replaced by their str()."""
    return len(obs_hdr) == len(exp_hdr) and not same_table([obs_hdr], [exp_hdr]) and all(
        same_cell(a, b) or (isinstance(a, str) and not isinstance(b, str) and a == str(b))
        for a, b in zip(obs_hdr, exp_hdr))


def tag(i, j):
    return 'r%dc%d' % (i, j)


def value_cell(i, j, variant):
    if variant == 'checker' and (i + j) % 2 == 0:
        return None
    if variant == 'falsy':
        # falsy but not None: a cell that is present must not be taken for an absent one (wave 9)
        return FALSY[(2 * i + j) % len(FALSY)]
    return tag(i, j)


def keysel(names, key_idx):
    ks = [names[i] for i in key_idx]
    return ks[0] if len(ks) == 1 else ks


# field-name axis: text, int, a text equal to str(int), float, None, bool
NAMEPOOL = ('a', 'b', 2019, '2019', 2020, 1.5, None, True)


def names_text(names):
    return all(isinstance(x, str) for x in names)


def str_distinct(names):
    return len(set(str(x) for x in names)) == len(names)


def natively_sortable(vals):
    try:
        sorted(vals)
        return True
    except TypeError:
        return False


DICT_KINDS = ('list', 'tuple', 'container', 'generator', 'iter', 'map')
REITERABLE = ('list', 'tuple', 'container', 'generator')


def mk_dicts(kind, t):
    d = etl.dicts(t)
    if kind == 'list':
        return list(d)
    if kind == 'tuple':
        return tuple(d)
    if kind == 'container':
        return d
    if kind == 'generator':
        return (x for x in d)
    if kind == 'iter':
        return iter(list(d))
    if kind == 'map':
        return map(dict, list(d))
    raise ValueError(kind)


COL_KINDS = ('list', 'tuple', 'iter')


def mk_cols(outer, inner, t, hdr):
    cols = etl.columns(t)
    cs = [cols[str(f)] for f in hdr]
    cs = [list(c) if inner == 'list' else tuple(c) if inner == 'tuple' else iter(list(c)) for c in cs]
    return list(cs) if outer == 'list' else tuple(cs) if outer == 'tuple' else iter(cs)


REDUCERS = {'count': len, 'first': lambda vs: vs[0], 'joined': lambda vs: '+'.join(str(x) for x in vs)}
AGG = {'sum': sum, 'list': list, 'len': len, 'max': max}


# ---------------------------------------------------------------------------------------------
# evaluation of ONE case (shared by run_item and replay).  Returns (fails, stats) with
# stats = [points, petl evaluations, comparisons, nontrivial, outcome]
# ---------------------------------------------------------------------------------------------

def evaluate(case):
    fails = Fails()
    st = [0, 0, 0, 0, None]
    form = case['form']
    t = case.get('table')
    if t is not None:
        t = [tuple(r) for r in t]

    def pt(res, exp, label, what):
        st[0] += 1
        st[1] += 1
        st[2] += 1
        return compare(fails, label, res, exp, what)

    if form == 'melt':
        hdr = t[0]
        K = list(case['key'])
        V = [i for i in range(len(hdr)) if i not in K]
        kn = keysel(hdr, K)
        pt(run(lambda: etl.melt(t, key=kn)), R.melt(t, K, V), 'melt(key=names)', 'melt(t, key=%r)' % (kn,))
        ki = K[0] if len(K) == 1 else tuple(K)
        pt(run(lambda: etl.melt(t, key=ki)), R.melt(t, K, V), 'melt(key=indices)', 'melt(t, key=%r)' % (ki,))
        if len(K) > 1:
            pt(run(lambda: etl.melt(t, key=tuple(kn))), R.melt(t, K, V), 'melt(key=names)',
               'melt(t, key=%r)' % (tuple(kn),))
        vn = [hdr[i] for i in V]
        pt(run(lambda: etl.melt(t, variables=vn)), R.melt(t, sorted(K), V), 'melt(variables=)',
           'melt(t, variables=%r)' % (vn,))
        for m in range(1, len(V) + 1):
            for sub in itertools.permutations(V, m):
                sn = [hdr[i] for i in sub]
                pt(run(lambda: etl.melt(t, key=kn, variables=sn)), R.melt(t, K, list(sub)),
                   'melt(key=, variables=)', 'melt(t, key=%r, variables=%r)' % (kn, sn))
        if len(V) == 1:
            pt(run(lambda: etl.melt(t, key=kn, variables=hdr[V[0]])), R.melt(t, K, V),
               'melt(key=, variables=)', 'melt(t, key=%r, variables=%r)' % (kn, hdr[V[0]]))
        pt(run(lambda: etl.melt(t, key=kn, variablefield='var', valuefield='val')),
           R.melt(t, K, V, 'var', 'val'), 'melt(variablefield=, valuefield=)',
           'melt(t, key=%r, variablefield="var", valuefield="val")' % (kn,))
        # exactly one row per (row, variable) cell — stated independently of the reference
        r = run(lambda: etl.melt(t, key=kn))
        st[2] += 1
        if r[0] == 'ok' and len(r[1]) - 1 != (len(t) - 1) * len(V):
            fails.add('melt | not one row per (row, variable) cell', (len(t) - 1) * len(V), len(r[1]) - 1,
                      'melt(t, key=%r) emitted %d rows for %d cells' % (kn, len(r[1]) - 1, (len(t) - 1) * len(V)))
        n = len(t) - 1
        if n >= 1 and len(V) >= 1:
            st[3] += 1
        if n >= 1:
            exp = R.melt_recast_roundtrip(t, K)
            pt(run(lambda: etl.recast(etl.melt(t, key=kn), key=kn)), exp, 'recast(melt(t, key), key)',
               'recast(melt(t, key=%r), key=%r)' % (kn, kn))
            pt(run(lambda: etl.recast(etl.melt(t, key=kn))), exp, 'recast(melt(t, key))',
               'recast(melt(t, key=%r)) with the key inferred' % (kn,))
            pt(run(lambda: etl.recast(etl.melt(t, key=kn, variablefield='var', valuefield='val'), key=kn,
                                      variablefield='var', valuefield='val')), exp,
               'recast(melt) with custom variable/value fields',
               'recast(melt(t, key=%r, "var", "val"), key=%r, "var", "val")' % (kn, kn))
            arranged = same_table(exp, t)
            if not arranged:
                st[3] += 1
            st[4] = ('melt', tuple(K), tuple(hdr), tuple(tuple(x[:len(K)]) for x in exp[1:]) == tuple(
                tuple(r[i] for i in K) for r in t[1:]))
        else:
            st[4] = ('melt', 'n0')
        return fails, st

    if form == 'melt_names':
        # field NAMES of any type (int / float / None / bool / text equal to str(int)); fields are
        # selected by index, or by str(name) where that is unambiguous
        hdr = t[0]
        K = list(case['key'])
        V = [i for i in range(len(hdr)) if i not in K]
        ki = K[0] if len(K) == 1 else tuple(K)
        exp_m = R.melt(t, K, V)
        pt(run(lambda: etl.melt(t, key=ki)), exp_m, 'melt(key=indices)', 'melt(t, key=%r)' % (ki,))
        byname = str_distinct(hdr)
        if byname:
            kn = keysel([str(h) for h in hdr], K)
            pt(run(lambda: etl.melt(t, key=kn)), exp_m, 'melt(key=names)', 'melt(t, key=%r)' % (kn,))
        n = len(t) - 1
        vnames = [hdr[i] for i in V]
        if n >= 1 and byname and natively_sortable(vnames):
            # recast names its key fields by text (it is given text); their output name may be the text
            exp = R.melt_recast_roundtrip(t, K)
            alt = [tuple(str(x) if j < len(K) else x for j, x in enumerate(exp[0]))] + exp[1:]
            for lab, fn in (('recast(melt(t, key), key)', lambda: etl.recast(etl.melt(t, key=ki), key=kn)),
                            ('recast(melt(t, key))', lambda: etl.recast(etl.melt(t, key=ki)))):
                res = run(fn)
                st[0] += 1
                st[1] += 1
                st[2] += 1
                if not (res[0] == 'ok' and same_table(res[1], alt)):
                    compare(fails, lab, res, exp, lab + ' with key=%r on header %r' % (ki, hdr))
            if not names_text(vnames):
                st[3] += 1
        else:
            st[0] += 1     # excluded: see RULE (ambiguous text names / unsortable variable names / n = 0)
        if not names_text(hdr):
            st[3] += 1
        st[4] = ('melt_names', tuple(type(h).__name__ for h in hdr), tuple(K))
        return fails, st

    if form == 'recast':
        hdr = t[0]
        ki, vi, xi = hdr.index('k'), hdr.index('variable'), hdr.index('value')
        for missing in (None, MARK):
            for rname in (None,) + tuple(sorted(REDUCERS)):
                kw = {}
                if missing is not None:
                    kw['missing'] = missing
                red = None
                if rname is not None:
                    red = {case.get('var0', 'p'): REDUCERS[rname]}
                    kw['reducers'] = red
                exp = R.recast(t, [ki], vi, xi, missing=missing, reducers=red)
                for keyform in ('k', None):
                    kk = dict(kw)
                    if keyform is not None:
                        kk['key'] = keyform
                    pt(run(lambda: etl.recast(t, **kk)), exp, 'recast(molten)',
                       'recast(t%s%s%s)' % (', key="k"' if keyform else '',
                                            ', missing=%r' % missing if missing is not None else '',
                                            ', reducers={"p": %s}' % rname if rname else ''))
        exp = R.recast(t, [ki], vi, xi)
        cells = [c for r in exp[1:] for c in r[1:]]
        if any(c is None for c in cells) or any(isinstance(c, list) for c in cells):
            st[3] += 1
        st[4] = ('recast', len(exp), len(exp[0]))
        return fails, st

    if form == 'transpose':
        exp = R.transpose(t)
        pt(run(lambda: etl.transpose(t)), exp, 'transpose', 'transpose(t)')
        pt(run(lambda: etl.transpose(etl.transpose(t))), t, 'transpose(transpose(t))',
           'transpose(transpose(t))')
        if len(t[0]) >= 2 and len(t) >= 2:
            st[3] += 1
        st[4] = ('transpose', len(t[0]), len(t))
        return fails, st

    if form == 'unflatten_table':
        w = len(t[0])
        flat_exp = R.flatten(t)
        try:
            flat = list(iter(etl.flatten(t)))
        except Exception as e:
            fails.add('flatten | raises %s' % type(e).__name__, flat_exp, type(e).__name__, str(e)[:160])
            return fails, st
        st[0] += 1
        st[1] += 1
        st[2] += 1
        if not same_table([tuple(flat)], [tuple(flat_exp)]):
            fails.add('flatten | wrong values', flat_exp, flat, 'flatten(t) is not the row-major cell sequence')
        if case.get('rect'):
            exp = [tuple('f%d' % i for i in range(w))] + list(t[1:])
            pt(run(lambda: etl.unflatten(etl.flatten(t), w)), exp, 'unflatten(flatten(t), w)',
               'unflatten(flatten(t), %d)' % w)
            if len(t) > 2:
                st[3] += 1
        elif len(set(len(r) for r in t[1:])) > 1:
            st[3] += 1
        st[4] = ('flatten', tuple(len(r) for r in t[1:]))
        return fails, st

    if form == 'unflatten_list':
        vals, period, missing = list(case['values']), case['period'], case['missing']
        kw = {} if missing is None else {'missing': missing}
        exp = R.unflatten(vals, period, missing)
        pt(run(lambda: etl.unflatten(vals, period, **kw)), exp, 'unflatten(values, period)',
           'unflatten(%r, %d%s)' % (vals, period, ', missing=%r' % missing if kw else ''))
        tbl = [('lines',)] + [(v,) for v in vals]
        pt(run(lambda: etl.unflatten(tbl, 'lines', period, **kw)), exp, 'unflatten(table, field, period)',
           'unflatten(<one-column table>, "lines", %d)' % period)
        if len(vals) % period or len(vals) > period:
            st[3] += 1
        st[4] = ('unflatten', len(vals), period)
        return fails, st

    if form == 'pivot':
        hdr = t[0]
        i1, i2, i3 = hdr.index('r'), hdr.index('c'), hdr.index('v')
        nontriv = False
        for missing in (None, MARK):
            sentinel = ('missing',)
            ehdr, erows = R.pivot(t, i1, i2, i3, missing=sentinel)
            for aname in ('sum', 'list', 'len', 'max'):
                agg = AGG[aname]
                kw = {} if missing is None else {'missing': missing}
                res = run(lambda: etl.pivot(t, 'r', 'c', 'v', agg, **kw))
                exp = [ehdr]
                for row in erows:
                    exp.append((row[0],) + tuple(missing if c is sentinel else agg(c) for c in row[1:]))
                st[0] += 1
                st[1] += 1
                st[2] += 1
                if res[0] == 'ok' and aname == 'list':
                    # a list cell holds exactly the values of the rows with that pair; order not demanded
                    norm = lambda rows: [tuple(sorted(c) if isinstance(c, list) else c for c in r)
                                         for r in rows]
                    ok = same_table(norm(res[1]), norm(exp))
                    if not ok:
                        compare(fails, 'pivot(aggfun=list)', res, exp, 'pivot(t, "r", "c", "v", list)')
                else:
                    compare(fails, 'pivot(aggfun=%s)' % aname, res, exp,
                            'pivot(t, "r", "c", "v", %s%s)' % (aname, ', missing=%r' % missing if kw else ''))
            for row in erows:
                for c in row[1:]:
                    if c is sentinel or len(c) > 1:
                        nontriv = True
        # the pivot table (header = f2 VALUES, e.g. ints) fed to melt, and back through recast
        ehdr, erows = R.pivot(t, i1, i2, i3, missing=sentinel)
        ptab = [ehdr] + [(row[0],) + tuple(None if c is sentinel else sum(c) for c in row[1:]) for row in erows]
        V = list(range(1, len(ehdr)))
        pt(run(lambda: etl.melt(etl.pivot(t, 'r', 'c', 'v', sum), key='r')), R.melt(ptab, [0], V),
           'melt(pivot(t))', 'melt(pivot(t, "r", "c", "v", sum), key="r")')
        if len(ptab) > 1:
            pt(run(lambda: etl.recast(etl.melt(etl.pivot(t, 'r', 'c', 'v', sum), key='r'), key='r')), ptab,
               'recast(melt(pivot(t)))', 'recast(melt(pivot(t, "r", "c", "v", sum), key="r"), key="r")')
        if nontriv:
            st[3] += 1
        st[4] = ('pivot', len(ehdr), tuple(tuple(0 if c is sentinel else len(c) for c in r[1:]) for r in erows))
        return fails, st

    if form == 'unpack':
        fi = case['fi']
        hdr = t[0]
        for field in (hdr[fi], fi):
            for nf in (None, 0, 1, 2, 3, [], ['n1'], ['n1', 'n2'], ('n1', 'n2', 'n3')):
                for inc in (False, True):
                    for missing in (None, MARK):
                        kw = {}
                        if nf is not None:
                            kw['newfields'] = nf
                        if inc:
                            kw['include_original'] = True
                        if missing is not None:
                            kw['missing'] = missing
                        exp = R.unpack(t, fi, nf, inc, missing)
                        res = run(lambda: etl.unpack(t, field, **kw))
                        what = 'unpack(t, %r%s)' % (field, ''.join(', %s=%r' % kv for kv in kw.items()))
                        lab = 'unpack(field=%s)' % ('name' if isinstance(field, str) else 'index')
                        if pt(res, exp, lab, what):
                            frame(fails, lab, t, res[1], fi, inc, what)
                        if len(t) > 1 and nf not in (None, 0, []):
                            st[3] += 1
        st[4] = ('unpack', fi, tuple(len(r[fi]) for r in t[1:]))
        return fails, st

    if form == 'unpackdict':
        fi = case['fi']
        hdr = t[0]
        for keys in (None, ['p'], ['q', 'p'], ('p', 'z')):
            for inc in (False, True):
                for missing in (None, MARK):
                    kw = {}
                    if keys is not None:
                        kw['keys'] = keys
                    if inc:
                        kw['includeoriginal'] = True
                    if missing is not None:
                        kw['missing'] = missing
                    exp = R.unpackdict(t, fi, keys, inc, missing)
                    res = run(lambda: etl.unpackdict(t, hdr[fi], **kw))
                    what = 'unpackdict(t, %r%s)' % (hdr[fi], ''.join(', %s=%r' % kv for kv in kw.items()))
                    if pt(res, exp, 'unpackdict', what):
                        frame(fails, 'unpackdict', t, res[1], fi, inc, what)
                    if len(t) > 1:
                        st[3] += 1
        # keys discovered by sampling the first `samplesize` rows only
        for ss in (0, 1, 2, 1000):
            for inc in (False, True):
                for missing in (None, MARK):
                    kw = {'samplesize': ss}
                    if inc:
                        kw['includeoriginal'] = True
                    if missing is not None:
                        kw['missing'] = missing
                    exp = R.unpackdict(t, fi, None, inc, missing, samplesize=ss)
                    res = run(lambda: etl.unpackdict(t, hdr[fi], **kw))
                    what = 'unpackdict(t, %r%s)' % (hdr[fi], ''.join(', %s=%r' % kv for kv in kw.items()))
                    if pt(res, exp, 'unpackdict(samplesize=)', what):
                        frame(fails, 'unpackdict(samplesize=)', t, res[1], fi, inc, what)
                    sampled = set()
                    for r in t[1:1 + ss]:
                        sampled |= set(r[fi])
                    if any(set(r[fi]) - sampled for r in t[1 + ss:]):
                        st[3] += 1       # a later row carries a key outside the sampled set
        st[4] = ('unpackdict', fi, tuple(tuple(sorted(r[fi])) for r in t[1:]))
        return fails, st

    if form == 'capture':
        fi = case['fi']
        hdr = t[0]
        pattern = '([A-Z,a-z]+)([0-9]+)'
        for field in (hdr[fi], fi):
            for nf in (None, ['g1', 'g2']):
                for inc in (False, True):
                    for fill in (None, ['F1', 'F2'], ()):
                        kw = {}
                        if nf is not None:
                            kw['newfields'] = nf
                        if inc:
                            kw['include_original'] = True
                        if fill is not None:
                            kw['fill'] = fill
                        exp, raises = R.capture(t, fi, pattern, nf, inc, fill)
                        res = run(lambda: etl.capture(t, field, pattern, **kw))
                        what = 'capture(t, %r, %r%s)' % (field, pattern,
                                                         ''.join(', %s=%r' % kv for kv in kw.items()))
                        lab = 'capture(field=%s)' % ('name' if isinstance(field, str) else 'index')
                        st[0] += 1
                        st[1] += 1
                        st[2] += 1
                        if raises:
                            # documented: an error on the first non-matching value (type not compared);
                            # the rows before it must have been delivered unchanged
                            if res[0] == 'ok':
                                fails.add('%s | no error on a non-matching value' % lab, 'an exception',
                                          res[1], '%s: fill=None and a value does not match' % what)
                            elif res[3] and exp and textified(res[3][0], exp[0]) and same_table(res[3][1:], exp[1:]):
                                fails.add('capture | non-text field names converted to text', exp, res[3],
                                          '%s delivered %r before the documented error' % (what, res[3]))
                            elif not same_table(res[3], exp):
                                # an error earlier (or later) than the documented one: same signature as
                                # an undocumented exception
                                fails.add('%s | raises %s' % (lab, res[1]), exp,
                                          {'raised': res[1], 'text': res[2], 'delivered_before': res[3]},
                                          '%s delivered %r before raising %s: %s' % (what, res[3], res[1], res[2]))
                        elif compare(fails, lab, res, exp, what):
                            frame(fails, lab, t, res[1], fi, inc, what)
                        if len(t) > 1:
                            st[3] += 1
        st[4] = ('capture', fi, tuple(r[fi] for r in t[1:]))
        return fails, st

    if form == 'split':
        fi = case['fi']
        hdr = t[0]
        for field in (hdr[fi], fi):
            for nf in (None, ['s1', 's2']):
                for inc in (False, True):
                    for maxsplit in (0, 1, 2):
                        kw = {}
                        if nf is not None:
                            kw['newfields'] = nf
                        if inc:
                            kw['include_original'] = True
                        if maxsplit:
                            kw['maxsplit'] = maxsplit
                        exp = R.split(t, fi, ',', nf, inc, maxsplit)
                        res = run(lambda: etl.split(t, field, ',', **kw))
                        what = 'split(t, %r, ","%s)' % (field, ''.join(', %s=%r' % kv for kv in kw.items()))
                        lab = 'split(field=%s)' % ('name' if isinstance(field, str) else 'index')
                        if pt(res, exp, lab, what):
                            frame(fails, lab, t, res[1], fi, inc, what)
                        if len(t) > 1:
                            st[3] += 1
            for maxsplit in (0, 1):
                kw = {'maxsplit': maxsplit} if maxsplit else {}
                exp = R.splitdown(t, fi, ',', maxsplit)
                res = run(lambda: etl.splitdown(t, field, ',', **kw))
                lab = 'splitdown(field=%s)' % ('name' if isinstance(field, str) else 'index')
                pt(res, exp, lab, 'splitdown(t, %r, ","%s)' % (field, ', maxsplit=1' if maxsplit else ''))
                if len(exp) > len(t):
                    st[3] += 1
        st[4] = ('split', fi, tuple(r[fi] for r in t[1:]))
        return fails, st

    if form == 'regex_flags':
        # non-default regex flags, by keyword and positionally, function and method syntax; the
        # separators / groups only match under the flag
        fi = case['fi']
        hdr = t[0]
        w = etl.wrap(t)
        nontriv = False
        for field in (hdr[fi], fi):
            for pattern, flags in (('x', re.IGNORECASE), (' x ', re.VERBOSE), (' X ', re.IGNORECASE | re.VERBOSE),
                                   ('x', 0)):
                F = int(flags)
                for maxsplit in (0, 1):
                    exp = R.splitdown(t, fi, pattern, maxsplit, flags=F)
                    calls = [('splitdown(flags=)', lambda: etl.splitdown(t, field, pattern, maxsplit=maxsplit, flags=F)),
                             ('splitdown(positional flags)', lambda: etl.splitdown(t, field, pattern, maxsplit, F)),
                             ('splitdown(flags=)', lambda: w.splitdown(field, pattern, maxsplit=maxsplit, flags=F)),
                             ('splitdown(positional flags)', lambda: w.splitdown(field, pattern, maxsplit, F))]
                    for lab, fn in calls:
                        pt(run(fn), exp, lab, 'splitdown(t, %r, %r, maxsplit=%d, flags=%d)' % (field, pattern, maxsplit, F))
                    if F and not same_table(exp, R.splitdown(t, fi, pattern, maxsplit, flags=0)):
                        nontriv = True
                    for inc in (False, True):
                        exp = R.split(t, fi, pattern, None, inc, maxsplit, flags=F)
                        calls = [('split(flags=)', lambda: etl.split(t, field, pattern, include_original=inc,
                                                                    maxsplit=maxsplit, flags=F)),
                                 ('split(positional flags)', lambda: etl.split(t, field, pattern, None, inc, maxsplit, F)),
                                 ('split(flags=)', lambda: w.split(field, pattern, include_original=inc,
                                                                  maxsplit=maxsplit, flags=F)),
                                 ('split(positional flags)', lambda: w.split(field, pattern, None, inc, maxsplit, F))]
                        for lab, fn in calls:
                            pt(run(fn), exp, lab, 'split(t, %r, %r, include_original=%r, maxsplit=%d, flags=%d)'
                               % (field, pattern, inc, maxsplit, F))
            for pattern, flags in (('([a-w]+)([0-9]+)', re.IGNORECASE), (' ( [a-w]+ ) ( [0-9]+ ) ', re.VERBOSE),
                                   (' ( [A-W]+ ) ( [0-9]+ ) ', re.IGNORECASE | re.VERBOSE), ('([a-w]+)([0-9]+)', 0)):
                F = int(flags)
                for inc in (False, True):
                    for fill in (None, ('F1', 'F2')):
                        exp, raises = R.capture(t, fi, pattern, None, inc, fill, flags=F)
                        calls = [('capture(flags=)', lambda: etl.capture(t, field, pattern, include_original=inc,
                                                                        flags=F, fill=fill)),
                                 ('capture(positional flags)', lambda: etl.capture(t, field, pattern, None, inc, F, fill)),
                                 ('capture(flags=)', lambda: w.capture(field, pattern, include_original=inc, flags=F,
                                                                      fill=fill)),
                                 ('capture(positional flags)', lambda: w.capture(field, pattern, None, inc, F, fill))]
                        for lab, fn in calls:
                            res = run(fn)
                            what = 'capture(t, %r, %r, include_original=%r, flags=%d, fill=%r)' % (field, pattern, inc, F, fill)
                            st[0] += 1
                            st[1] += 1
                            st[2] += 1
                            if raises:
                                if res[0] == 'ok':
                                    fails.add('%s | no error on a non-matching value' % lab, 'an exception', res[1], what)
                                elif not same_table(res[3], exp):
                                    fails.add('%s | raises %s' % (lab, res[1]), exp,
                                              {'raised': res[1], 'text': res[2], 'delivered_before': res[3]}, what)
                            else:
                                compare(fails, lab, res, exp, what)
                        if F and fill is not None and not same_table(exp, R.capture(t, fi, pattern, None, inc, fill, 0)[0]):
                            nontriv = True
        if nontriv:
            st[3] += 1
        st[4] = ('regex_flags', fi, tuple(r[fi] for r in t[1:]))
        return fails, st

    if form == 'dicts':
        hdr = list(t[0])
        n = len(t) - 1
        # fromdicts over every kind of input x header given / discovered x sample; one-shot inputs
        # (iter(list), map object) define one pass only, the others must also give a second pass
        for kind in DICT_KINDS:
            for header in (None, hdr):
                if header is None and n == 0:
                    continue                      # nothing to discover the fields from
                for sample in ((None, 1, 2, 1000) if header is None else (None,)):
                    kw = {}
                    if header is not None:
                        kw['header'] = header
                    if sample is not None:
                        kw['sample'] = sample
                    lab = 'fromdicts(%s, %s)' % ('generator' if kind == 'generator' else 'one-shot iterator'
                                                 if kind in ('iter', 'map') else 'container',
                                                 'header=' if header is not None else
                                                 'header discovered, sample=1' if sample == 1 else 'header discovered')
                    what = 'fromdicts(<%s over dicts(t)>%s)' % (kind, ''.join(', %s=%r' % kv for kv in kw.items()))
                    try:
                        v = etl.fromdicts(mk_dicts(kind, t), **kw)
                    except Exception as e:
                        fails.add('%s | raises %s' % (lab, type(e).__name__), t, type(e).__name__, what)
                        continue
                    pt(run(lambda: v), t, lab, what)
                    if kind in REITERABLE:
                        pt(run(lambda: v), t, lab, 'second pass of ' + what)
                    del v
        for outer in COL_KINDS:
            for inner in COL_KINDS:
                lab = 'fromcolumns(columns(t))'
                pt(run(lambda: etl.fromcolumns(mk_cols(outer, inner, t, hdr), header=hdr)), t, lab,
                   'fromcolumns(<%s of %ss from columns(t)>, header=%r)' % (outer, inner, hdr))
                if outer != 'iter':               # the default header needs len(cols)
                    exp = [tuple('f%d' % i for i in range(len(hdr)))] + t[1:]
                    pt(run(lambda: etl.fromcolumns(mk_cols(outer, inner, t, hdr))), exp, lab + ' default header',
                       'fromcolumns(<%s of %ss from columns(t)>)' % (outer, inner))

        def viacols():
            cols = etl.columns(t)
            return etl.fromcolumns(list(cols.values()), header=list(cols.keys()))
        pt(run(viacols), t, 'fromcolumns(columns(t))', 'fromcolumns(columns(t).values(), header=keys)')
        if n >= 1 and len(hdr) >= 2:
            st[3] += 1
        st[4] = ('dicts', len(hdr), n)
        return fails, st

    raise ValueError(form)


def frame(fails, label, t, out, fi, include_original, what):
    """Frame condition, independent of the reference: every other field's cells are the input's own
    objects, in place, in every output row (1:1 expanders)."""
    for i, row in enumerate(t):
        if i >= len(out):
            break
        keep = list(row) if include_original else [v for j, v in enumerate(row) if j != fi]
        got = out[i][:len(keep)]
        if i == 0:
            ok = tuple(got) == tuple(keep)
        else:
            ok = len(got) == len(keep) and all(a is b for a, b in zip(got, keep))
        if not ok:
            fails.add('%s | other fields changed' % label, keep, list(got),
                      '%s: cells of the fields that are not expanded differ in row %d' % (what, i))
            return


def replay(case):
    fails, _ = evaluate(case)
    if not fails:
        return None
    want = case.get('_sig')
    for sig, exp, obs, msg in fails:
        if want is None or sig == want:
            return (exp, obs, msg)
    return None


# ---------------------------------------------------------------------------------------------
# enumeration
# ---------------------------------------------------------------------------------------------

def _do(acc, case, counter):
    fails, st = evaluate(case)
    acc.states += st[0]
    acc.transitions += st[1]
    acc.evals += st[2]
    acc.nontrivial += st[3]
    acc.counters['op:' + counter] += st[1]
    if st[3]:
        acc.counters['nontrivial:' + counter] += st[3]
    acc.outcome(st[4])
    for sig, exp, obs, msg in fails:
        c = dict(case)
        c['_sig'] = sig
        acc.violation(sig, c, exp, obs, msg)


def items(tier, seed):
    # heavy families first (packing); inside a family simplest first, so that the first case of a
    # violation group is a smallest one (no cost(): the runner would merge the biggest items first)
    out = []
    for m in (2, 1):
        for w in (2, 3):
            for perm in itertools.permutations(NAMES[:w]):
                if m < w:
                    for K in itertools.permutations(range(w), m):
                        out.append(('melt', perm, K))
    nmol = 4 if tier == 'thorough' else 3
    for n in range(nmol + 1):
        for layout in (0, 1):
            if n == nmol:
                for first in range(8):
                    out.append(('recast', n, layout, first))
            else:
                out.append(('recast', n, layout, None))
    wmax = 4 if tier == 'thorough' else 3
    for w in range(1, wmax + 1):
        out.append(('transpose', w))
        out.append(('flatten', w))
    out.append(('flatten-ragged',))
    for period in range(1, (5 if tier == 'thorough' else 4) + 1):
        out.append(('unflatten', period))
    for n in range(0, (5 if tier == 'thorough' else 4) + 1):
        for layout in (0, 1):
            for f2 in (0, 1):
                if n >= 4:     # split the big ones by the first row's (f1, f2) option
                    for first in range(8 if tier == 'thorough' else 4):
                        out.append(('pivot', n, layout, f2, first))
                else:
                    out.append(('pivot', n, layout, f2, None))
    for fi in range(3):
        for fam in ('unpack', 'unpackdict', 'capture', 'split'):
            out.append((fam, fi))
    for w in range(1, 4):
        out.append(('dicts', w))
    for w in (2, 3):
        for first in range(len(NAMEPOOL)):
            out.append(('melt-names', w, first))
    out.append(('names-transpose',))
    for fi in range(3):
        out.append(('regex-flags', fi))
    for width in (1, 2, 4):
        for fam in ('unpack', 'unpackdict', 'capture', 'split'):
            out.append((fam + '-width', width))
    for fi in range(3):
        for fam in ('unpack', 'unpackdict', 'capture', 'split'):
            out.append((fam + '-names', fi))
    return out


def key_assignments(m, n, tier):
    """Every injective assignment of n keys; a key is an m-tuple of cells: single-field keys over K8
    (K4 + tuple/list-valued cells), compound keys over K4 (quick: 3-row compound keys over K3)."""
    alpha = _K4 if m >= 2 else _K8
    if m >= 2 and n >= 3 and tier != 'thorough':
        alpha = _K3
    keys = list(itertools.product(alpha, repeat=m))
    return itertools.permutations(keys, n)


def mk_melt_table(perm, K, keys, variant):
    w = len(perm)
    rows = [tuple(perm)]
    for i, kt in enumerate(keys):
        row = [None] * w
        for j in range(w):
            row[j] = value_cell(i, j, variant)
        for pos, v in zip(K, kt):
            row[pos] = v
        rows.append(tuple(row))
    return rows


def run_item(item, acc):
    fam = item[0]
    tier = _TIER
    if fam == 'melt':
        _, perm, K = item
        first = True
        for n in range(0, 4):
            for keys in key_assignments(len(K), n, tier):
                for variant in (('tagged', 'checker', 'falsy') if len(K) == 1 or tier == 'thorough'
                                else ('tagged', 'falsy')):
                    t = mk_melt_table(perm, K, keys, variant)
                    _do(acc, {'form': 'melt', 'table': t, 'key': list(K)}, 'melt/recast')
                    if first and n == 2:
                        acc.sample({'form': 'melt', 'table': t, 'key': list(K)}, 1)
                        first = False
        if tier == 'thorough' and len(K) == 2:
            # 4-row tables with compound keys over K3
            for keys in itertools.permutations(list(itertools.product(_K3, repeat=2)), 4):
                t = mk_melt_table(perm, K, keys, 'tagged')
                _do(acc, {'form': 'melt', 'table': t, 'key': list(K)}, 'melt/recast')
        elif tier == 'thorough':
            for keys in itertools.permutations([(k,) for k in _K8], 4):
                t = mk_melt_table(perm, K, keys, 'tagged')
                _do(acc, {'form': 'melt', 'table': t, 'key': list(K)}, 'melt/recast')
        return
    if fam == 'recast':
        _, n, layout, first = item
        hdr = ('k', 'variable', 'value') if layout == 0 else ('variable', 'value', 'k')
        # variable VALUES become field names: text, int and int/float/bool mixes
        for varset in (('p', 'q'), (2019, 2020), (1.5, True)):
            if varset != ('p', 'q') and n > 2:
                continue
            opts = [(k, v) for k in _K8 for v in varset]
            for combo in itertools.product(range(len(opts)), repeat=n):
                if first is not None and (not combo or combo[0] // 2 != first):
                    continue
                for valkind in ('tag', 'falsy'):
                    rows = [hdr]
                    for i, o in enumerate(combo):
                        k, v = opts[o]
                        d = {'k': k, 'variable': v, 'value': 'v%d' % i if valkind == 'tag' else FALSY[i % len(FALSY)]}
                        rows.append(tuple(d[h] for h in hdr))
                    _do(acc, {'form': 'recast', 'table': rows, 'var0': varset[0]}, 'recast')
        acc.sample({'form': 'recast', 'rows': n, 'header': hdr}, 1)
        return
    if fam == 'transpose':
        w = item[1]
        nmax = 4 if tier == 'thorough' else 3
        for n in range(0, nmax + 1):
            for variant in ('tagged', 'checker'):
                t = [tuple(NAMES[:w])] + [tuple(value_cell(i, j, variant) for j in range(w)) for i in range(n)]
                _do(acc, {'form': 'transpose', 'table': t}, 'transpose')
            for col in itertools.product(_K4, repeat=n):
                t = [tuple(NAMES[:w])] + [(col[i],) + tuple(tag(i, j) for j in range(1, w)) for i in range(n)]
                _do(acc, {'form': 'transpose', 'table': t}, 'transpose')
        acc.sample({'form': 'transpose', 'width': w}, 1)
        return
    if fam == 'flatten':
        w = item[1]
        nmax = 4 if tier == 'thorough' else 3
        for n in range(0, nmax + 1):
            for variant in ('tagged', 'checker'):
                t = [tuple(NAMES[:w])] + [tuple(value_cell(i, j, variant) for j in range(w)) for i in range(n)]
                _do(acc, {'form': 'unflatten_table', 'table': t, 'rect': True}, 'flatten/unflatten')
            for col in itertools.product(_K4, repeat=n):
                t = [tuple(NAMES[:w])] + [(col[i],) + tuple(tag(i, j) for j in range(1, w)) for i in range(n)]
                _do(acc, {'form': 'unflatten_table', 'table': t, 'rect': True}, 'flatten/unflatten')
        return
    if fam == 'flatten-ragged':
        for n in range(0, 4):
            for lens in itertools.product(range(4), repeat=n):
                t = [tuple(NAMES[:2])] + [tuple(tag(i, j) for j in range(L)) for i, L in enumerate(lens)]
                _do(acc, {'form': 'unflatten_table', 'table': t, 'rect': False}, 'flatten-ragged')
        return
    if fam == 'unflatten':
        period = item[1]
        lmax = 8 if tier == 'thorough' else 6
        for L in range(0, lmax + 1):
            for variant in ('tagged', 'none-inside'):
                vals = ['v%d' % i if (variant == 'tagged' or i % 2) else None for i in range(L)]
                for missing in (None, MARK):
                    _do(acc, {'form': 'unflatten_list', 'values': vals, 'period': period, 'missing': missing},
                        'unflatten')
        return
    if fam == 'pivot':
        _, n, layout, f2kind, first = item
        r = spaces.reps(_SEED)
        f1s = _K4 if tier == 'thorough' else [r['i1'], r['i2']]
        f2s = [r['i1'], r['i2']] if f2kind == 0 else [r['s1'], r['s2']]
        hdr = ('r', 'c', 'v') if layout == 0 else ('v', 'x', 'c', 'r')
        opts = [(a, b) for a in f1s for b in f2s]
        for combo in itertools.product(range(len(opts)), repeat=n):
            if first is not None and combo[0] != first:
                continue
            rows = [hdr]
            for i, o in enumerate(combo):
                a, b = opts[o]
                d = {'r': a, 'c': b, 'v': 2 ** i, 'x': tag(i, 1)}
                rows.append(tuple(d[h] for h in hdr))
            _do(acc, {'form': 'pivot', 'table': rows}, 'pivot')
        acc.sample({'form': 'pivot', 'rows': n, 'header': hdr}, 1)
        return
    if fam == 'melt-names':
        _, w, first = item
        keycells = [_K4[3], _K4[0], _K4[2]]        # s1, None, i2: not in key order
        for names in itertools.permutations(NAMEPOOL, w):
            if NAMEPOOL.index(names[0]) != first:
                continue
            for m in range(1, w):
                for K in itertools.permutations(range(w), m):
                    for n in range(0, 3):
                        rows = [tuple(names)]
                        for i in range(n):
                            row = [tag(i, j) for j in range(w)]
                            for q, pos in enumerate(K):
                                row[pos] = keycells[(i + q) % 3]
                            rows.append(tuple(row))
                        _do(acc, {'form': 'melt_names', 'table': rows, 'key': list(K)}, 'melt-fieldnames')
        return
    if fam == 'regex-flags':
        fi = item[1]
        h = ['id', 'z']
        h.insert(fi, 'u')
        cells = ['pxq1', 'pXq2', 'p x q', 'PXQX3']
        for n in range(0, 3):
            for combo in itertools.product(cells, repeat=n):
                rows = [tuple(h)]
                for i, c in enumerate(combo):
                    row = [tag(i, 0), tag(i, 2)]
                    row.insert(fi, c)
                    rows.append(tuple(row))
                _do(acc, {'form': 'regex_flags', 'table': rows, 'fi': fi}, 'regex-flags')
        return
    if fam == 'names-transpose':
        for w in (1, 2, 3):
            for names in itertools.permutations(NAMEPOOL, w):
                for n in range(0, 3):
                    t = [tuple(names)] + [tuple(tag(i, j) for j in range(w)) for i in range(n)]
                    _do(acc, {'form': 'transpose', 'table': t}, 'transpose-fieldnames')
                    if n <= 1:
                        _do(acc, {'form': 'unflatten_table', 'table': t, 'rect': True}, 'flatten-fieldnames')
        return
    if fam.endswith('-width'):
        # table WIDTH axis: 1, 2 and 4 fields (3 is the main family), expanded field in every position,
        # the other cells multi-character text / tuple / int / None in every combination
        fam = fam[:-6]
        width = item[1]
        cellopts = {
            'unpack': [lambda i: ['r%du0' % i, 'r%du1' % i], lambda i: ('r%du0' % i,)],
            'unpackdict': [lambda i: {'p': 'r%dp' % i}, lambda i: {'q': 'r%dq' % i, 'p': None}],
            'capture': [lambda i: 'A1', lambda i: '--'],
            'split': [lambda i: 'p,q', lambda i: 'p'],
        }[fam]
        counter = {'unpack': 'unpack', 'unpackdict': 'unpackdict', 'capture': 'capture',
                   'split': 'split/splitdown'}[fam] + '-width'
        kinds = ('text', 'tuple', 'int', 'none')

        def other(kind, i, j):
            return {'text': tag(i, j), 'tuple': ('r%d' % i, 'c%d' % j), 'int': 10 * (i + 1) + j, 'none': None}[kind]
        others = ['o%d' % j for j in range(width - 1)]
        for fi in range(width):
            h = list(others)
            h.insert(fi, 'u')
            rowopts = list(itertools.product(range(len(cellopts)), itertools.product(kinds, repeat=width - 1)))
            for n in range(0, (2 if width <= 2 else 1) + 1):
                for combo in itertools.product(rowopts, repeat=n):
                    rows = [tuple(h)]
                    for i, (co, ks) in enumerate(combo):
                        row = [other(k, i, j) for j, k in enumerate(ks)]
                        row.insert(fi, cellopts[co](i))
                        rows.append(tuple(row))
                    _do(acc, {'form': fam, 'table': rows, 'fi': fi}, counter)
        return
    fi = item[1]
    hdr = ['id', 'z']
    named = fam.endswith('-names')
    if named:
        fam = fam[:-6]
    hdr.insert(fi, 'u')
    if named:
        # the two OTHER fields carry names of every type; cells tagged; <= 1 row
        cellopts = {
            'unpack': [lambda i: ['r0u0', 'r0u1'], lambda i: ('r0u0',)],
            'unpackdict': [lambda i: {'p': 'r0p'}, lambda i: {'q': 'r0q', 'p': None}],
            'capture': [lambda i: 'A1', lambda i: '--'],
            'split': [lambda i: 'p,q', lambda i: 'p'],
        }[fam]
        counter = {'unpack': 'unpack', 'unpackdict': 'unpackdict', 'capture': 'capture',
                   'split': 'split/splitdown'}[fam] + '-fieldnames'
        for o0, o2 in itertools.permutations(NAMEPOOL, 2):
            h = [o0, o2]
            h.insert(fi, 'u')
            tabs = [[tuple(h)]]
            for co in cellopts:
                row = [tag(0, 0), tag(0, 2)]
                row.insert(fi, co(0))
                tabs.append([tuple(h), tuple(row)])
            for t in tabs:
                _do(acc, {'form': fam, 'table': t, 'fi': fi}, counter)
        return

    alias_rows = 2 if tier == 'thorough' else 1

    def tables(cellopts, nmax, part):
        """Every combination of expanded-cell contents; the two OTHER cells of a row are position tags
        or (tables with <= alias_rows rows: every combination per row of) a value EQUAL to the expanded
        cell / equal to its first part, so that expanding 'by value' instead of 'by position' shows."""
        def alias(kind, i, j, v):
            if kind == 'tag':
                return tag(i, j)
            if kind == 'same':
                return type(v)(v) if isinstance(v, (list, dict)) else v
            return part(v)          # may be NOTHING: no such part
        kinds = ('tag', 'same', 'part')
        for n in range(0, nmax + 1):
            for combo in itertools.product(range(len(cellopts)), repeat=n):
                if n <= alias_rows:
                    others = itertools.product(itertools.product(kinds, repeat=2), repeat=n)
                else:
                    others = [(('tag', 'tag'),) * n]
                seen = set()
                for oth in others:
                    rows = [tuple(hdr)]
                    ok = True
                    for i, o in enumerate(combo):
                        v = cellopts[o](i)
                        row = [alias(oth[i][0], i, 0, v), alias(oth[i][1], i, 2, v)]
                        if any(x is NOTHING for x in row):
                            ok = False
                            break
                        row.insert(fi, v)
                        rows.append(tuple(row))
                    if not ok:
                        continue
                    sig = repr(rows)
                    if sig in seen:
                        continue
                    seen.add(sig)
                    if any(k != ('tag', 'tag') for k in oth):
                        acc.counters['tables:other-cell-equals-expanded-value-or-part'] += 1
                    yield rows

    def first_item(v):
        return v[0] if len(v) else NOTHING

    def first_dict_value(v):
        for x in v.values():
            return x
        return NOTHING

    def first_group(v):
        import re
        m = re.search('([A-Z,a-z]+)([0-9]+)', v)
        return m.group(1) if m else NOTHING

    def first_piece(v):
        return v.split(',')[0]
    if fam == 'unpack':
        opts = []
        for L in range(4):
            opts.append(lambda i, L=L: ['r%du%d' % (i, k) for k in range(L)])
            opts.append(lambda i, L=L: tuple('r%du%d' % (i, k) for k in range(L)))
        for t in tables(opts, 2, first_item):
            _do(acc, {'form': 'unpack', 'table': t, 'fi': fi}, 'unpack')
    elif fam == 'unpackdict':
        opts = [lambda i: {}, lambda i: {'p': 'r%dp' % i}, lambda i: {'q': 'r%dq' % i},
                lambda i: {'q': 'r%dq' % i, 'p': None}]
        for t in tables(opts, 3, first_dict_value):
            _do(acc, {'form': 'unpackdict', 'table': t, 'fi': fi}, 'unpackdict')
    elif fam == 'capture':
        opts = [lambda i: 'A1', lambda i: 'Bc22', lambda i: 'x9y', lambda i: '--', lambda i: '-A1']
        for t in tables(opts, 3 if tier == 'thorough' else 2, first_group):
            _do(acc, {'form': 'capture', 'table': t, 'fi': fi}, 'capture')
    elif fam == 'split':
        opts = [lambda i: 'p,q', lambda i: 'p', lambda i: 'p,q,r', lambda i: '', lambda i: ',p']
        for t in tables(opts, 3 if tier == 'thorough' else 2, first_piece):
            _do(acc, {'form': 'split', 'table': t, 'fi': fi}, 'split/splitdown')
    elif fam == 'dicts':
        w = item[1]
        for perm in itertools.permutations(NAMES[:w]):
            for n in range(0, 4):
                for variant in ('tagged', 'checker'):
                    t = [tuple(perm)] + [tuple(value_cell(i, j, variant) for j in range(w)) for i in range(n)]
                    _do(acc, {'form': 'dicts', 'table': t}, 'dicts/columns')
                for col in itertools.product(_K4, repeat=n):
                    t = [tuple(perm)] + [(col[i],) + tuple(tag(i, j) for j in range(1, w)) for i in range(n)]
                    _do(acc, {'form': 'dicts', 'table': t}, 'dicts/columns')
    else:
        raise ValueError(item)


def vacuity(cov, tier):
    probs = []
    c = cov['per_case_counters']
    for k in ('melt/recast', 'recast', 'transpose', 'flatten/unflatten', 'flatten-ragged', 'unflatten', 'pivot',
              'unpack', 'unpackdict', 'capture', 'split/splitdown', 'dicts/columns', 'melt-fieldnames',
              'transpose-fieldnames', 'unpack-fieldnames', 'unpackdict-fieldnames', 'capture-fieldnames',
              'split/splitdown-fieldnames', 'regex-flags', 'unpack-width', 'unpackdict-width', 'capture-width',
              'split/splitdown-width'):
        if not c.get('op:' + k):
            probs.append('no evaluation of ' + k)
        elif not c.get('nontrivial:' + k):
            probs.append('no non-trivial case for ' + k)
    return probs


def _capture_index(group, case, params):
    return case.get('form') == 'capture' and group.startswith('capture(field=index)') and 'ValueError' in group


def _textified_names(group, case, params):
    return (case.get('form') in ('unpack', 'unpackdict', 'capture', 'split')
            and group.endswith('| non-text field names converted to text'))


def _fromdicts_sample1(group, case, params):
    return case.get('form') == 'dicts' and group.startswith('fromdicts(') and 'sample=1)' in group \
        and 'generator' not in group


CLASSIFIERS = {'capture_index_without_original': _capture_index,
               'expander_textifies_other_field_names': _textified_names,
               'fromdicts_sample_1_non_generator': _fromdicts_sample1}
