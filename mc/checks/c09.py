"""C09 - grouping and aggregation conserve rows: each row in exactly one group.

Enumerates ALL tables up to a row bound over small key / value alphabets (duplicate, None, mixed-type and
compound keys; header-only) and runs every grouping operator in every call form under every execution
strategy (default, buffersize 1 and 2, presorted on key-sorted input) on the real petl code.  Oracle: the
dictionary-based reference grouping of mc/refs/grouping.py plus the conservation laws.
"""
import functools
import itertools
import operator
from collections import OrderedDict

import petl as etl
from petl.util.materialise import cache as etl_cache

from .. import refmodel as ref
from .. import spaces
from ..refs import grouping as rg

ID = 'C09'
LEVEL = 'model_checking'
ENGINE = 'E2 small-scope enumeration against a dictionary reference grouping'
RULE = ('all tables with 0..n rows: kind kv = key over K4 {None, i1, i2, s1} x value over 3 ints + row id; '
        'kv2 = keys {None, i1} x 2 values (the 4-row tables of the quick tier); kv4 = K4 x 2 values (the 4-row tables of the thorough tier); vk = kv2-like with the key in the second column (3 keys); kv6 = key over K6 (adds float(i1) == i1 and a '
        'second string); ck = compound key (2 columns over {None, i1}) x 2 values + id; mv = key and value over '
        '{None, i1, s1} + id (mixed-type values for min/max, missing values for mergeduplicates). x every call '
        'form: aggregate with callable (len, list, sum; value none / field / fields; field=), single-element-list '
        'key, callable key, key=None, OrderedDict / dict / list / tuple of specs, aggregation=None + __setitem__; '
        'rowreduce; rowgroupmap; fold (order-revealing, sum, whole rows); groupselectfirst/last/min/max; '
        'mergeduplicates (missing default / given); merge of every consecutive split, the interleaved split and a '
        'split with differing headers; groupcountdistinctvalues; valuecounts / valuecounter; rowgroupby. '
        'x spelling of the key / value arguments (kinds kv2: key is column 0, vk: key is column 1, ck: compound; '
        'ek: the key field is named ""): field name, field index, one-element list, one-element tuple, '
        'one-element list of an index, list instead of tuple, all indices, index+name, name+index; value fields '
        'by name / by index (thorough: full cross; quick: every key spelling and every value spelling, index '
        'forms tied). Under an alternative spelling the output header may carry the index instead of the name and '
        'a one-element key may come back bare or as a 1-tuple (neither is documented). '
        'x kind of the input table (on the small kinds, default strategy, never presorted): etl.sort(t, key), '
        'etl.sort(t, key, reverse=True), etl.sort(t, value field), etl.sort(t, key, buffersize=1) - each with exactly '
        'the key spec that is then the grouping key -, cache(t), a generator-backed Table; the expected groups are '
        'those of the row sequence such an operand delivers (computed with the reference order); and one-shot '
        'sources that can be read in a single pass only (generator, iter(list), etl.wrap(iterator), reader object '
        'whose __iter__ returns itself) under every configuration that reads the input once: default strategy, '
        'presorted=True and the sorted-input forms on key-sorted tables (field-name and field-index keys), '
        'key=None - the result is consumed by one iter() pass and must equal that of the list table. One-shot '
        'sources are an extension beyond petl\'s table contract, exercised only in configurations where the '
        'unchanged code reads its input once, with aggregation functions that read their argument in one pass '
        '(key=None hands over a re-iterable container on which plain list() would call len() first). '
        'plus kind rg = ragged rows (key in the last column, a row may end before it: its key is None; forms that '
        'do not project value fields) and kind sq = sequence-valued key cells {(i1,i2), [i1,i2], (i1,), None} (a list '
        'and a tuple of equal items are ONE key under petl\'s order; hash-based counting forms, '
        'groupcountdistinctvalues and callable keys excluded); callable keys with presorted=True also for rowreduce, '
        'fold, groupselectfirst, groupselectlast. '
        'x transient-failure histories (kinds kv2, ck; thorough also vk): the source fails once at each position '
        '(header, each row, exhaustion) during pass 1 of aggregate (simple / multi), rowreduce, fold, '
        'groupselectfirst/last/min/max, mergeduplicates built with buffersize 1..nrows (the sort spills, cache=True), '
        'then passes 2 and 3 on the same view must equal the reference. '
        'x strategy: petl.config.sort_buffersize = 1..nrows with NO buffersize argument, kept set while the view is '
        'built and iterated (kinds vk, ek; thorough also ck, rg, sq); '
        'x strategy: default, buffersize=1, buffersize=2, presorted=True (only on tables whose key column is '
        'already non-decreasing under the reference order). states = (table, form, strategy) points; a table is '
        'non-trivial when it has >= 2 distinct keys and some key occurs more than once. '
        'Excluded (no documented answer): key=None with a dict/list of specs on a header-only table; a callable '
        'key without presorted=True (sort() cannot take a callable); compound key for groupcountdistinctvalues; '
        'rowgroupmap without header; mergeduplicates / merge with a key containing a field index (their output '
        'fields are computed from the key field NAMES); groupcountdistinctvalues with a list / tuple key; source '
        'fields by index inside a dict/list of aggregation specs (looked up by name). For min/max any member with '
        'an extreme value is accepted (tie-break free).')
ASSUMPTIONS = ['tables have <= 4 rows; one or two representatives per key type class',
               'reducers / mappers / fold functions are pure and only index the rows they are given',
               'key equality is ==-equivalence (1 and 1.0 form one group); order is the documented None < numbers < rest']


# ---------------------------------------------------------------------------------------------
# kinds of tables
# ---------------------------------------------------------------------------------------------

class Kind(object):
    """Column layout of one table kind (key columns, one value column, the row-id column - always last) plus
    the SPELLING of the key / value arguments handed to petl: field names (canonical) or one of the
    alternative accepted forms (field index, one-element list / tuple, list instead of tuple, compound key
    mixing index and name).  The layout (kidx, vidx, ididx, keyhdr) is what the reference model uses."""

    def __init__(self, name, hdr, kidx, vidx, numeric, base=None, kspell='name', vspell='name', ididx=None):
        self.name = name
        self.base = base or name
        self.hdr = hdr
        self.kidx = list(kidx)
        nkey = len(self.kidx)
        self.keyhdr = tuple(hdr[i] for i in self.kidx)
        self.vidx = vidx
        self.vname = hdr[vidx]
        self.ididx = len(hdr) - 1 if ididx is None else ididx
        self.idname = hdr[self.ididx]
        self.numeric = numeric
        self.single = nkey == 1
        self.kspell, self.vspell = kspell, vspell
        self.spelled = (kspell, vspell) != ('name', 'name')
        names, idx = self.keyhdr, tuple(self.kidx)
        if nkey == 1:
            self.key = {'name': names[0], 'index': idx[0], 'list1': [names[0]], 'tuple1': (names[0],),
                        'list1-index': [idx[0]]}[kspell]
        else:
            self.key = {'name': names, 'list': list(names), 'indices': idx, 'index+name': (idx[0], names[1]),
                        'name+index': (names[0], idx[1])}[kspell]
        self.keyargs = tuple(self.key) if isinstance(self.key, (list, tuple)) else (self.key,)
        self.keyseq1 = isinstance(self.key, (list, tuple)) and len(self.key) == 1
        self.keyhasindex = any(isinstance(x, int) for x in self.keyargs)
        self.v = self.vname if vspell == 'name' else vidx
        self.id = self.idname if vspell == 'name' else self.ididx


KINDS = {
    'kv': Kind('kv', ('k', 'v', 'id'), [0], 1, True),
    'kv2': Kind('kv2', ('k', 'v', 'id'), [0], 1, True),
    'kv4': Kind('kv4', ('k', 'v', 'id'), [0], 1, True),
    'kv6': Kind('kv6', ('k', 'v', 'id'), [0], 1, True),
    'vk': Kind('vk', ('v', 'k', 'id'), [1], 0, True),          # key is not the first column
    'ek': Kind('ek', ('', 'v', 'id'), [0], 1, True),           # the key field is named '' (a falsy field name)
    'ck': Kind('ck', ('k1', 'k2', 'v', 'id'), [0, 1], 2, True),
    'mv': Kind('mv', ('k', 'v', 'id'), [0], 1, False),
    # ragged: the key is the LAST column and a row may be too short to hold it (its key is then None)
    'rg': Kind('rg', ('id', 'v', 'k'), [2], 1, True, ididx=0),
    # sequence-valued key cells: (i1, i2) and [i1, i2] are ONE key under petl's order (lists and tuples interchangeable)
    'sq': Kind('sq', ('k', 'v', 'id'), [0], 1, True),
}
MISSING_CELL = ('<cell missing>',)      # marker in the 'rg' row alphabet: the row ends before the key column

# alternative spellings of the key / value arguments, on the small kinds (kv2: key is column 0 = index 0,
# vk: key is column 1, ck: compound key)
KSPELL_SINGLE = ('index', 'list1', 'tuple1', 'list1-index')
KSPELL_COMPOUND = ('list', 'indices', 'index+name', 'name+index')
SPELLED = {'kv2': [], 'vk': [], 'ck': []}       # base kind -> [(spelled kind name, in the quick tier?)]


def _register_spellings():
    for base in ('kv2', 'vk', 'ck'):
        B = KINDS[base]
        kspells = KSPELL_SINGLE if B.single else KSPELL_COMPOUND
        for ks in ('name',) + kspells:
            for vs in ('name', 'index'):
                if (ks, vs) == ('name', 'name'):
                    continue
                name = '%s~%s~%s' % (base, ks, vs)
                KINDS[name] = Kind(name, B.hdr, B.kidx, B.vidx, B.numeric, base=base, kspell=ks, vspell=vs)
                # quick tier: every key spelling and every value spelling, index spellings tied together
                quick = (vs == 'index') == (ks in ('name', 'index', 'list1-index', 'indices', 'index+name'))
                SPELLED[base].append((name, quick))


_register_spellings()

_ALPHA = {}
_SEED = 0
_MISSING_ALT = 1


def _alphabets(seed):
    r = spaces.reps(seed)
    i1, i2, s1 = r['i1'], r['i2'], r['s1']
    k4, k6, k3 = spaces.K4(seed), spaces.K6(seed), spaces.K3(seed)
    v3 = [i1, i2, i1 + i2 + 1]
    return {'kv': [(k, v) for k in k4 for v in v3],
            'kv2': [(k, v) for k in (None, i1) for v in (i1, i2)],
            'kv4': [(k, v) for k in k4 for v in (i1, i2)],
            'kv6': [(k, v) for k in k6 for v in (i1, i2)],
            'vk': [(v, k) for k in k3 for v in (i1, i2)],
            'ek': [(k, v) for k in (None, i1) for v in (i1, i2)],
            'ck': [(a, b, v) for a in (None, i1) for b in (None, i1) for v in (i1, i2)],
            'mv': [(k, v) for k in k3 for v in k3],
            'rg': [(v, k) for k in (None, i1, s1, MISSING_CELL) for v in (i1, i2)],
            'sq': [(k, v) for k in ((i1, i2), [i1, i2], (i1,), None) for v in (i1, i2)]}


_TIER = 'quick'


def setup(tier, seed):
    global _SEED, _MISSING_ALT, _TIER
    _SEED = seed
    _TIER = tier
    _ALPHA.clear()
    _ALPHA.update(_alphabets(seed))
    _MISSING_ALT = spaces.reps(seed)['i1']


def _tables(kind, n, lo=0, hi=None):
    rows = spaces.rotate(_ALPHA[KINDS[kind].base], _SEED)
    if KINDS[kind].base == 'rg':
        for t in itertools.islice(itertools.product(rows, repeat=n), lo, hi):
            yield tuple((i, v) if k is MISSING_CELL else (i, v, k) for i, (v, k) in enumerate(t))
        return
    for t in itertools.islice(itertools.product(rows, repeat=n), lo, hi):
        yield tuple(r + (i,) for i, r in enumerate(t))


# ---------------------------------------------------------------------------------------------
# user functions handed to petl and to the reference alike (pure; index access only)
# ---------------------------------------------------------------------------------------------

def _red(key, rows):
    rows = list(rows)
    return [key, len(rows), tuple(r[-1] for r in rows)]


def _mapper(key, rows):
    for i, r in enumerate(rows):
        yield (key, r[-1], i)


def _seq(a, b):
    return (a if isinstance(a, tuple) else (a,)) + (b,)


def _catrows(a, b):
    return tuple(a) + tuple(b)


def _key0(r):
    return r[0]


def _key1(r):
    return r[1]


def _key01(r):
    return (r[0], r[1])


def _key2pad(r):
    return r[2] if len(r) > 2 else None


def _keyfn(K):
    return {(0,): _key0, (1,): _key1, (0, 1): _key01, (2,): _key2pad}[tuple(K.kidx)]


def _aslist(vals):
    return list(vals)


def _onepass_list(vals):
    return list(iter(vals))


def _keynone_list():
    """The list-building aggregation function for aggregate(key=None, ...).  With key=None petl hands the
    aggregation function a re-iterable values container (users may call len() on it); plain `list` asks that
    container for its length first, which is a second pass over the table.  That is fine on a re-iterable
    table and is kept there, but on a one-shot source the harness itself must read its argument once."""
    return _onepass_list if _CUR_OPERAND in ONE_SHOT_KINDS else list


# ---------------------------------------------------------------------------------------------
# call forms
# ---------------------------------------------------------------------------------------------

ALL = ('kv', 'kv2', 'kv4', 'kv6', 'vk', 'ek', 'ck', 'mv')
NUM = ('kv', 'kv2', 'kv4', 'kv6', 'vk', 'ek', 'ck')
MAIN = ('kv', 'kv2', 'kv4', 'kv6', 'vk', 'ek', 'ck')
SINGLE = ('kv', 'kv2', 'kv4', 'kv6', 'vk', 'ek', 'mv')
SINGLE_MAIN = ('kv', 'kv2', 'kv4', 'kv6', 'vk', 'ek')


class Form(object):
    """strat: 'sorted' (takes buffersize / presorted), 'plain' (no strategy arguments),
    'presorted-only' (only callable with presorted=True on key-sorted input), 'sorted-input' (rowgroupby)."""

    def __init__(self, name, kinds, strat, mode, run, exp, nkey=None, law=None, nonempty=False, params=None,
                 srcrows=False, rawinput=False):
        self.name, self.kinds, self.strat, self.mode = name, kinds, strat, mode
        self.run, self.exp, self.nkey, self.law, self.nonempty = run, exp, nkey, law, nonempty
        self.rawinput = rawinput
        self.srcrows = srcrows        # output rows are input rows (key cells sit at the input's key positions)
        self.params = params or (lambda n: [None])


FORMS = OrderedDict()


def form(name, kinds, strat, mode, run, exp, **kw):
    assert name not in FORMS
    FORMS[name] = Form(name, kinds, strat, mode, run, exp, **kw)


def _nk(K):
    return len(K.kidx)


# --- aggregate, simple -------------------------------------------------------------------------
form('aggregate(len)', MAIN, 'sorted', 'table',
     lambda t, K, kw, p: etl.aggregate(t, K.key, len, **kw),
     lambda h, rows, K, p: (K.keyhdr + ('value',), rg.aggregate_simple(rows, K.kidx, len, None)), law='count')
form('aggregate(list)', MAIN, 'sorted', 'table',
     lambda t, K, kw, p: etl.aggregate(t, K.key, list, **kw),
     lambda h, rows, K, p: (K.keyhdr + ('value',), rg.aggregate_simple(rows, K.kidx, list, None)))
form('aggregate(sum,v)', NUM, 'sorted', 'table',
     lambda t, K, kw, p: etl.aggregate(t, K.key, sum, K.v, **kw),
     lambda h, rows, K, p: (K.keyhdr + ('value',), rg.aggregate_simple(rows, K.kidx, sum, K.vidx)), law='sum')
form('aggregate(list,id)', MAIN, 'sorted', 'table',
     lambda t, K, kw, p: etl.aggregate(t, K.key, list, K.id, **kw),
     lambda h, rows, K, p: (K.keyhdr + ('value',), rg.aggregate_simple(rows, K.kidx, list, K.ididx)))
form('aggregate(list,(v,id))', ALL, 'sorted', 'table',
     lambda t, K, kw, p: etl.aggregate(t, key=K.key, aggregation=list, value=(K.v, K.id), **kw),
     lambda h, rows, K, p: (K.keyhdr + ('value',), rg.aggregate_simple(rows, K.kidx, list, [K.vidx, K.ididx])))
form('aggregate([k],len)', SINGLE_MAIN, 'sorted', 'table',
     lambda t, K, kw, p: etl.aggregate(t, [K.key], len, **kw),
     lambda h, rows, K, p: (K.keyhdr + ('value',), rg.aggregate_simple(rows, K.kidx, len, None)), law='count')
form('aggregate(len,field=n)', MAIN, 'sorted', 'table',
     lambda t, K, kw, p: etl.aggregate(t, K.key, len, field='n', **kw),
     lambda h, rows, K, p: (K.keyhdr + ('n',), rg.aggregate_simple(rows, K.kidx, len, None)), law='count')
form('aggregate(key=callable,list,id)', MAIN, 'presorted-only', 'table',
     lambda t, K, kw, p: etl.aggregate(t, _keyfn(K), list, K.id, **kw),
     lambda h, rows, K, p: (('key', 'value'), rg.aggregate_keyfn(rows, _keyfn(K), list, K.ididx)), nkey=1)
form('aggregate(key=callable,len)', MAIN, 'presorted-only', 'table',
     lambda t, K, kw, p: etl.aggregate(t, _keyfn(K), len, **kw),
     lambda h, rows, K, p: (('key', 'value'), rg.aggregate_keyfn(rows, _keyfn(K), len, None)), nkey=1, law='count')
form('aggregate(key=None,len)', MAIN, 'plain', 'table',
     lambda t, K, kw, p: etl.aggregate(t, None, len),
     lambda h, rows, K, p: (('value',), rg.aggregate_simple(rows, None, len, None)), nkey=0, law='count')
form('aggregate(key=None,sum,v)', NUM, 'plain', 'table',
     lambda t, K, kw, p: etl.aggregate(t, None, sum, K.v),
     lambda h, rows, K, p: (('value',), rg.aggregate_simple(rows, None, sum, K.vidx)), nkey=0, law='sum')
form('aggregate(key=None,list,(v,id))', MAIN, 'plain', 'table',
     lambda t, K, kw, p: etl.aggregate(t, key=None, aggregation=_keynone_list(), value=(K.v, K.id)),
     lambda h, rows, K, p: (('value',), rg.aggregate_simple(rows, None, list, [K.vidx, K.ididx])), nkey=0)


# --- aggregate, multiple ------------------------------------------------------------------------
def _specs_petl(K, shape):
    """The same aggregation in the documented spellings: values are fn | (field, fn) | field | (fields, fn)."""
    if shape in ('OrderedDict', 'dict'):
        d = OrderedDict() if shape == 'OrderedDict' else {}
        d['n'] = len
        if K.numeric:
            d['s'] = K.vname, sum
        d['ids'] = K.idname
        d['pairs'] = (K.vname, K.idname), list
        return d
    specs = [('n', len)]
    if K.numeric:
        specs.append(('s', K.vname, sum))
    specs.append(('ids', K.idname))
    specs.append(('pairs', (K.vname, K.idname), list))
    return specs if shape == 'list' else tuple(specs)


def _specs_ref(K):
    specs = [(None, len)]
    if K.numeric:
        specs.append((K.vidx, sum))
    specs.append((K.ididx, _aslist))
    specs.append(([K.vidx, K.ididx], _aslist))
    return specs


def _multi_hdr(K):
    return ('n',) + (('s',) if K.numeric else ()) + ('ids', 'pairs')


def _multi_exp(h, rows, K, p):
    return (K.keyhdr + _multi_hdr(K), rg.aggregate_multi(rows, K.kidx, _specs_ref(K)))


for _shape in ('OrderedDict', 'dict', 'list', 'tuple'):
    form('aggregate(%s of specs)' % _shape, MAIN, 'sorted', 'table',
         (lambda shape: lambda t, K, kw, p: etl.aggregate(t, K.key, _specs_petl(K, shape), **kw))(_shape),
         _multi_exp, law='count-col')


def _run_setitem(t, K, kw, p):
    a = etl.aggregate(t, K.key, **kw)
    for name, spec in _specs_petl(K, 'OrderedDict').items():
        a[name] = spec
    return a


form('aggregate(None)+setitem', MAIN, 'sorted', 'table', _run_setitem, _multi_exp, law='count-col')
form('aggregate(key=None,OrderedDict of specs)', MAIN, 'plain', 'table',
     lambda t, K, kw, p: etl.aggregate(t, None, _specs_petl(K, 'OrderedDict')),
     lambda h, rows, K, p: (_multi_hdr(K), rg.aggregate_multi(rows, None, _specs_ref(K))),
     nkey=0, nonempty=True, law='count-col')

# --- rowreduce / rowgroupmap / fold ---------------------------------------------------------------
form('rowreduce', MAIN, 'sorted', 'table',
     lambda t, K, kw, p: etl.rowreduce(t, K.key, _red, header=['key', 'n', 'ids'], **kw),
     lambda h, rows, K, p: (('key', 'n', 'ids'), rg.per_group(rows, K.kidx, _red)), nkey=1)
form('rowgroupmap', MAIN, 'sorted', 'table',
     lambda t, K, kw, p: etl.rowgroupmap(t, K.key, _mapper, header=['key', 'id', 'pos'], **kw),
     lambda h, rows, K, p: (('key', 'id', 'pos'), rg.per_group_many(rows, K.kidx, _mapper)), nkey=1)
form('fold(sequence of ids)', MAIN, 'sorted', 'table',
     lambda t, K, kw, p: etl.fold(t, K.key, _seq, K.id, **kw),
     lambda h, rows, K, p: (('key', 'value'), rg.fold(rows, K.kidx, _seq, K.ididx)), nkey=1)
form('fold(add,v)', NUM, 'sorted', 'table',
     lambda t, K, kw, p: etl.fold(t, K.key, operator.add, K.v, **kw),
     lambda h, rows, K, p: (('key', 'value'), rg.fold(rows, K.kidx, operator.add, K.vidx)), nkey=1, law='sum')
form('fold(whole rows)', MAIN, 'sorted', 'table',
     lambda t, K, kw, p: etl.fold(t, K.key, _catrows, **kw),
     lambda h, rows, K, p: (('key', 'value'), rg.fold(rows, K.kidx, _catrows, None)), nkey=1)

form('rowreduce(key=callable)', MAIN, 'presorted-only', 'table',
     lambda t, K, kw, p: etl.rowreduce(t, _keyfn(K), _red, header=['key', 'n', 'ids'], **kw),
     lambda h, rows, K, p: (('key', 'n', 'ids'), [_red(k, g) for k, g in rg.groups(rows, keyfn=_keyfn(K))]), nkey=1)
form('fold(key=callable)', MAIN, 'presorted-only', 'table',
     lambda t, K, kw, p: etl.fold(t, _keyfn(K), _seq, K.id, **kw),
     lambda h, rows, K, p: (('key', 'value'), [(k, functools.reduce(_seq, rg.project(g, K.ididx)))
                                               for k, g in rg.groups(rows, keyfn=_keyfn(K))]), nkey=1)
form('groupselectfirst(key=callable)', MAIN, 'presorted-only', 'table',
     lambda t, K, kw, p: etl.groupselectfirst(t, _keyfn(K), **kw),
     lambda h, rows, K, p: (h, [g[0] for k, g in rg.groups(rows, keyfn=_keyfn(K))]), srcrows=True)
form('groupselectlast(key=callable)', MAIN, 'presorted-only', 'table',
     lambda t, K, kw, p: etl.groupselectlast(t, _keyfn(K), **kw),
     lambda h, rows, K, p: (h, [g[-1] for k, g in rg.groups(rows, keyfn=_keyfn(K))]), srcrows=True)

# --- groupselect* -----------------------------------------------------------------------------------
form('groupselectfirst', MAIN, 'sorted', 'table',
     lambda t, K, kw, p: etl.groupselectfirst(t, K.key, **kw),
     lambda h, rows, K, p: (h, rg.select_first(rows, K.kidx)), srcrows=True)
form('groupselectlast', MAIN, 'sorted', 'table',
     lambda t, K, kw, p: etl.groupselectlast(t, K.key, **kw),
     lambda h, rows, K, p: (h, rg.select_last(rows, K.kidx)), srcrows=True)
form('groupselectmin', ALL, 'sorted', 'minmax',
     lambda t, K, kw, p: etl.groupselectmin(t, K.key, K.v, **kw),
     lambda h, rows, K, p: (h, rg.extreme_values(rows, K.kidx, K.vidx, False)), srcrows=True)
form('groupselectmax', ALL, 'sorted', 'minmax',
     lambda t, K, kw, p: etl.groupselectmax(t, K.key, K.v, **kw),
     lambda h, rows, K, p: (h, rg.extreme_values(rows, K.kidx, K.vidx, True)), srcrows=True)

# --- mergeduplicates / merge -------------------------------------------------------------------------
form('mergeduplicates', ALL, 'sorted', 'table',
     lambda t, K, kw, p: etl.mergeduplicates(t, K.key, **kw),
     lambda h, rows, K, p: rg.mergeduplicates(h, rows, K.kidx))
form('mergeduplicates(missing=i1)', ('mv',), 'sorted', 'table',
     lambda t, K, kw, p: etl.mergeduplicates(t, K.key, missing=_MISSING_ALT, **kw),
     lambda h, rows, K, p: rg.mergeduplicates(h, rows, K.kidx, missing=_MISSING_ALT))


def _merge_params(n):
    return [('cut', c) for c in range(n + 1)] + [('interleaved', 0)] + [('headers differ', n // 2),
                                                                         ('columns rotated', n // 2)]


def _merge_parts(h, rows, K, p):
    """The (header, rows) input tables of one merge() call."""
    how, c = p
    rows = list(rows)
    if how == 'cut':
        return [(h, rows[:c]), (h, rows[c:])]
    if how == 'interleaved':
        return [(h, rows[0::2]), (h, rows[1::2])]
    if how == 'columns rotated':                        # key columns are not the leading ones
        h2 = tuple(h[1:]) + tuple(h[:1])
        rows = [tuple(r[1:]) + tuple(r[:1]) for r in rows]
        return [(h2, rows[:c]), (h2, rows[c:])]
    h2 = tuple('w' if f == K.vname else f for f in h)      # second table carries the value under another name
    return [(h, rows[:c]), (h2, rows[c:])]


def _run_merge(t, K, kw, p):
    # takes the plain table (rawinput): the operand kind is applied to each of the merged parts
    parts = [make_input((tuple(ph),) + tuple(pr), K, _CUR_OPERAND) for ph, pr in _merge_parts(t[0], t[1:], K, p)]
    return etl.merge(*parts, key=K.key, **kw)


form('merge', ALL, 'sorted', 'table', _run_merge,
     lambda h, rows, K, p: rg.merge(_merge_parts(h, rows, K, p), K.keyhdr), params=_merge_params, rawinput=True)

# --- counting -------------------------------------------------------------------------------------------
form('groupcountdistinctvalues', SINGLE, 'plain', 'table',
     lambda t, K, kw, p: etl.groupcountdistinctvalues(t, K.key, K.v),
     lambda h, rows, K, p: (K.keyhdr + ('value',), rg.countdistinct(rows, K.kidx, K.vidx)))
form('valuecounts(key)', MAIN, 'plain', 'valuecounts',
     lambda t, K, kw, p: etl.valuecounts(t, *K.keyargs),
     lambda h, rows, K, p: (K.keyhdr + ('count', 'frequency'), rg.valuecounts(rows, K.kidx), K.kidx))
form('valuecounts(v)', ('kv', 'kv2', 'kv4', 'vk', 'ek', 'mv'), 'plain', 'valuecounts',
     lambda t, K, kw, p: etl.valuecounts(t, K.v),
     lambda h, rows, K, p: ((K.vname, 'count', 'frequency'), rg.valuecounts(rows, [K.vidx]), [K.vidx]))
form('valuecounter(key)', MAIN, 'plain', 'counter',
     lambda t, K, kw, p: etl.valuecounter(t, *K.keyargs),
     lambda h, rows, K, p: rg.valuecounts(rows, K.kidx))

# --- rowgroupby itself (input must be sorted by key) ----------------------------------------------------------
form('rowgroupby', MAIN, 'sorted-input', 'groups',
     lambda t, K, kw, p: etl.rowgroupby(t, K.key),
     lambda h, rows, K, p: [(k, g) for k, g in rg.groups(rows, K.kidx)])
form('rowgroupby(value=id)', MAIN, 'sorted-input', 'groups',
     lambda t, K, kw, p: etl.rowgroupby(t, K.key, K.id),
     lambda h, rows, K, p: [(k, rg.project(g, K.ididx)) for k, g in rg.groups(rows, K.kidx)])
form('rowgroupby(value=(v,id))', MAIN, 'sorted-input', 'groups',
     lambda t, K, kw, p: etl.rowgroupby(t, K.key, (K.v, K.id)),
     lambda h, rows, K, p: [(k, rg.project(g, [K.vidx, K.ididx])) for k, g in rg.groups(rows, K.kidx)])
form('rowgroupby(callable key)', MAIN, 'sorted-input', 'groups',
     lambda t, K, kw, p: etl.rowgroupby(t, _keyfn(K), K.id),
     lambda h, rows, K, p: [(k, rg.project(g, K.ididx)) for k, g in rg.groups(rows, keyfn=_keyfn(K))])


# ---------------------------------------------------------------------------------------------
# observation and comparison
# ---------------------------------------------------------------------------------------------

def norm(x):
    """Row / value containers normalised (tuple, list, Record -> tuple); frozensets kept."""
    if isinstance(x, frozenset):
        return x
    if isinstance(x, (list, tuple)):
        return tuple(norm(e) for e in x)
    return x


# ---------------------------------------------------------------------------------------------
# operand-kind axis: what kind of object the input table is (the operators are called WITHOUT presorted,
# so they have to establish the key order themselves, whatever order / caches the operand brings along)
#   'sort'       etl.sort(t, <the grouping key spec>)          ascending sort view on the same key
#   'sort-rev'   etl.sort(t, <the grouping key spec>, reverse=True)
#   'sort-other' etl.sort(t, <the value field>)                sort view on another key
#   'sort-buf1'  etl.sort(t, <the grouping key spec>, buffersize=1)   served from chunk files
#   'cache'      petl.util.materialise.cache(t)
#   'gen'        a Table whose __iter__ returns a generator producing fresh list rows
# ---------------------------------------------------------------------------------------------

OPERAND_KINDS = ('sort', 'sort-rev', 'sort-other', 'sort-buf1', 'cache', 'gen')
# one-shot (streaming) sources: the rows can be read in ONE pass only; a second iter() finds them gone.  They are an
# EXTENSION beyond petl's table contract (a table is a container whose every iter() starts a fresh pass) and are
# exercised only in configurations where the unchanged code reads its input exactly once; the aggregation
# functions handed over on this axis read their argument in one pass themselves (see _keynone_list).  Every
# operator is run in the configurations that read their input once - default strategy (the internal sort opens
# the source once), presorted=True and key=None (no sort in front at all) - and the result is consumed by a
# single iter() pass.
#   'generator'      a generator object            'iterator'  iter(list of lists)
#   'wrap(iterator)' etl.wrap(iter(list of lists)) 'reader'    an object whose __iter__ returns itself
ONE_SHOT_KINDS = ('generator', 'iterator', 'wrap(iterator)', 'reader')
_CUR_OPERAND = 'tuple'


class GenTable(etl.Table):
    def __init__(self, rows):
        self.rows = rows

    def __iter__(self):
        return (list(r) for r in self.rows)


class Reader(object):
    """A streaming source (rows arriving over a pipe): its __iter__ returns the object itself."""

    def __init__(self, rows):
        self._it = iter(rows)

    def __iter__(self):
        return self

    def __next__(self):
        return next(self._it)


def _generate(rows):
    for r in rows:
        yield r


def make_input(t, K, operand):
    """The object handed to petl for the table t (tuple of tuples, header first)."""
    if operand == 'tuple':
        return t
    lol = [list(r) for r in t]
    if operand == 'generator':
        return _generate(lol)
    if operand == 'iterator':
        return iter(lol)
    if operand == 'wrap(iterator)':
        return etl.wrap(iter(lol))
    if operand == 'reader':
        return Reader(lol)
    if operand == 'sort':
        return etl.sort(lol, K.key)
    if operand == 'sort-rev':
        return etl.sort(lol, K.key, reverse=True)
    if operand == 'sort-other':
        other = K.v
        if not isinstance(other, int) and other not in lol[0]:
            other = lol[0][K.vidx]          # merge part that carries the value under another name
        return etl.sort(lol, other)
    if operand == 'sort-buf1':
        return etl.sort(lol, K.key, buffersize=1)
    if operand == 'cache':
        return etl_cache(lol)
    if operand == 'gen':
        return GenTable(lol)
    raise ValueError(operand)


def seen_rows(rows, K, operand):
    """The row sequence such an operand delivers, computed with the reference order (not with petl): this is
    the 'input order' the rows of a group must keep."""
    if operand in ('sort', 'sort-buf1'):
        return ref.stable_sort(rows, K.kidx)
    if operand == 'sort-rev':
        return ref.stable_sort(rows, K.kidx, reverse=True)
    if operand == 'sort-other':
        return ref.stable_sort(rows, [K.vidx])
    return list(rows)


def observe(f, t, K, kw, p, operand='tuple'):
    """Build the view and read it in one pass.  The pseudo argument '_config' = c stands for: NO buffersize
    argument, petl.config.sort_buffersize = c while the view is built AND while it is iterated."""
    global _CUR_OPERAND
    _CUR_OPERAND = operand
    saved = etl.config.sort_buffersize
    try:
        if '_config' in kw:
            kw = dict(kw)
            etl.config.sort_buffersize = kw.pop('_config')
        return _observe(f, t, K, kw, p, operand)
    finally:
        etl.config.sort_buffersize = saved


def _observe(f, t, K, kw, p, operand):
    try:
        out = f.run(t if f.rawinput else make_input(t, K, operand), K, kw, p)
        if f.mode == 'counter':
            return ('ok', dict(out))
        if f.mode == 'groups':
            return ('ok', [(norm(k), norm(list(vals))) for k, vals in out])
        it = iter(out)
        hdr = norm(next(it))
        return ('ok', (hdr, [norm(r) for r in it]))
    except Exception as e:
        return ('raises', type(e).__name__, str(e)[:200])


def cell_ok(e, o):
    if isinstance(e, rg.ConflictOf):
        return e.matches(o)
    if isinstance(o, frozenset):
        return False
    return norm(e) == o


def row_ok(e, o):
    return len(e) == len(o) and all(cell_ok(x, y) for x, y in zip(e, o))


def key_ok(e, o, K):
    """Key cells equal; a key spelled as a one-element list / tuple may come back as the bare value or as a
    1-tuple (the documentation does not say which)."""
    if row_ok(e, o):
        return True
    return K.keyseq1 and len(e) == 1 and len(o) == 1 and cell_ok((e[0],), o[0])


def hdr_ok(ehdr, ohdr, K):
    """Output header as documented for field names; where the caller selected a field by index the header
    cell may be that index instead of the field's name (not documented either way)."""
    if tuple(ohdr) == tuple(ehdr):
        return True
    if not (K.keyhasindex or K.vspell == 'index') or len(ohdr) != len(ehdr):
        return False
    for e, o in zip(ehdr, ohdr):
        if e == o and type(e) == type(o):
            continue
        if isinstance(o, int) and not isinstance(o, bool):
            continue
        return False
    return True


# ragged rows (only the key cell can be missing): forms that do not project value fields out of the rows
RG_FORMS = ('groupselectfirst', 'groupselectlast', 'groupselectmin', 'groupselectmax', 'aggregate(len)',
            'aggregate(list)', 'rowreduce', 'rowgroupmap', 'fold(whole rows)', 'rowgroupby',
            'aggregate(key=callable,len)', 'rowreduce(key=callable)', 'groupselectfirst(key=callable)',
            'groupselectlast(key=callable)', 'rowgroupby(callable key)')
# sequence-valued key cells: hash-based counting cannot take list cells; groupcountdistinctvalues is distinct()
# (C10's subject); a callable key groups by native ==, for which list != tuple
SQ_EXCLUDED = ('valuecounts(key)', 'valuecounter(key)', 'groupcountdistinctvalues')


def applicable(f, K):
    """Call form x argument spelling combinations that petl accepts (see RULE for the exclusions)."""
    if K.base == 'rg':
        return f.name in RG_FORMS
    if K.base == 'sq':
        return 'kv' in f.kinds and f.name not in SQ_EXCLUDED and 'callable' not in f.name
    if K.base not in f.kinds:
        return False
    if not K.spelled:
        return True
    if f.name == 'aggregate([k],len)':
        return False                                   # wraps the canonical key itself
    if f.name in ('mergeduplicates', 'mergeduplicates(missing=i1)', 'merge') and K.keyhasindex:
        return False                                   # output fields are computed from the key's field NAMES
    if f.name == 'groupcountdistinctvalues' and isinstance(K.key, (list, tuple)):
        return False                                   # documented for one key field
    return True


def judge(f, t, K, kw, p, obs=None, operand='tuple'):
    """Failures of one (form, table, strategy) point: list of (signature, expected, observed, message)."""
    if obs is None:
        obs = observe(f, t, K, kw, p, operand)
    hdr, rows = tuple(t[0]), [tuple(r) for r in t[1:]]
    if not f.rawinput:
        rows = seen_rows(rows, K, operand)      # the input order of the operand
    n = len(rows)
    if obs[0] == 'raises':
        return [('raises', 'a result', '%s: %s' % (obs[1], obs[2]), '%s raised %s' % (f.name, obs[1]))]
    got = obs[1]
    exp = f.exp(hdr, rows, K, p)
    bad = []
    nkey = f.nkey if f.nkey is not None else len(K.kidx)
    if f.srcrows:
        keypart = lambda r: tuple(r[i] if i < len(r) else None for i in K.kidx)
    else:
        keypart = lambda r: tuple(r[:nkey])

    if f.mode == 'table':
        ehdr, erows = tuple(exp[0]), [tuple(r) for r in exp[1]]
        ohdr, orows = got
        shown = (ehdr, [tuple(repr(c) if isinstance(c, rg.ConflictOf) else norm(c) for c in r) for r in erows])
        if f.srcrows:
            restpart = lambda r: tuple(r)
        else:
            restpart = lambda r: tuple(r[nkey:])
        if not hdr_ok(ehdr, ohdr, K):
            bad.append(('header', ehdr, ohdr, '%s: header %r, expected %r' % (f.name, ohdr, ehdr)))
        if len(orows) != len(erows) or any(not key_ok(keypart(e), keypart(o), K) for e, o in zip(erows, orows)):
            bad.append(('group keys or their order differ', shown, got,
                        '%s: not one output group per distinct key in ascending key order' % f.name))
        elif any(not row_ok(restpart(e), restpart(o)) for e, o in zip(erows, orows)):
            bad.append(('group contents differ', shown, got,
                        '%s: a group does not consist of exactly the rows with its key in input order' % f.name))
        if f.law and not bad:
            try:
                if f.law == 'count' and sum(r[-1] for r in orows) != n:
                    bad.append(('counts do not add up to nrows', n, got, '%s: group counts do not sum to nrows' % f.name))
                if f.law == 'count-col' and sum(r[nkey] for r in orows) != n:
                    bad.append(('counts do not add up to nrows', n, got, '%s: group counts do not sum to nrows' % f.name))
                if f.law == 'sum' and sum(r[-1] for r in orows) != sum(r[K.vidx] for r in rows):
                    bad.append(('sums do not add up to the overall sum', sum(r[K.vidx] for r in rows), got,
                                '%s: group sums do not add up' % f.name))
            except TypeError:
                bad.append(('law not evaluable', None, got, '%s: aggregated values are not numbers' % f.name))
        return bad

    if f.mode == 'minmax':
        ehdr, egroups = exp
        ohdr, orows = got
        shown = [(norm(k), [norm(r) for r in cands]) for k, g, cands in egroups]
        if not hdr_ok(ehdr, ohdr, K):
            bad.append(('header', ehdr, ohdr, '%s: header' % f.name))
        if len(orows) != len(egroups) or any(not row_ok(rg.keycells(k, K.kidx), keypart(o))
                                             for (k, g, c), o in zip(egroups, orows)):
            bad.append(('group keys or their order differ', shown, got,
                        '%s: not one selected row per distinct key in ascending key order' % f.name))
        else:
            for (k, g, cands), o in zip(egroups, orows):
                if not any(norm(r) == o for r in g):
                    bad.append(('selected row is not a member of its group', shown, got,
                                '%s: selected a row that is not in the group' % f.name))
                    break
                if not any(norm(r) == o for r in cands):
                    bad.append(('selected row does not have the extreme value', shown, got,
                                '%s: selected row is a member but its value is not the minimum/maximum' % f.name))
                    break
        return bad

    if f.mode == 'valuecounts':
        ehdr, ecounts, kidx = exp
        ohdr, orows = got
        if not hdr_ok(ehdr, ohdr, K):
            bad.append(('header', ehdr, ohdr, '%s: header' % f.name))
        nk = len(kidx)
        shown = [(norm(k), c) for k, c in ecounts]
        want = sorted(((rg.keycells(k, kidx), c) for k, c in ecounts), key=lambda kc: ref.sortkey(kc[0]))
        try:
            have = sorted(((o[:nk], o[nk]) for o in orows), key=lambda kc: ref.sortkey(kc[0]))
        except Exception:
            have = None
        if have is None or len(have) != len(want) or any(not (row_ok(a[0], b[0]) and a[1] == b[1])
                                                         for a, b in zip(want, have)):
            bad.append(('counts differ from group sizes', shown, got, '%s: counts are not the group sizes' % f.name))
        else:
            cs = [o[nk] for o in orows]
            if sum(cs) != n:
                bad.append(('counts do not add up to nrows', n, got, '%s: counts do not sum to nrows' % f.name))
            if any(x < y for x, y in zip(cs, cs[1:])):
                bad.append(('not most common first', shown, got, '%s: counts are not non-increasing' % f.name))
            if any(len(o) != nk + 2 or o[nk + 1] != float(o[nk]) / n for o in orows):
                bad.append(('frequency is not count / nrows', shown, got, '%s: frequency column' % f.name))
        return bad

    if f.mode == 'counter':
        shown = [(norm(k), c) for k, c in exp]
        ok = len(got) == len(exp) and sum(got.values()) == n
        if ok:
            for k, c in exp:
                kk = norm(k)
                if kk not in got or got[kk] != c:
                    ok = False
        if not ok:
            bad.append(('counts differ from group sizes', shown, sorted(got.items(), key=repr),
                        '%s: counter is not the group sizes' % f.name))
        return bad

    if f.mode == 'groups':
        shown = [(norm(k), norm(g)) for k, g in exp]
        if len(got) != len(shown) or any(not key_ok((e[0],), (o[0],), K) for e, o in zip(shown, got)):
            bad.append(('group keys or their order differ', shown, got, '%s: keys' % f.name))
        elif any(e[1] != o[1] for e, o in zip(shown, got)):
            bad.append(('group contents differ', shown, got, '%s: group members' % f.name))
        return bad
    raise ValueError(f.mode)


# ---------------------------------------------------------------------------------------------
# enumeration
# ---------------------------------------------------------------------------------------------

STRATS = [('default', {}), ('buffersize', {'buffersize': 1}), ('buffersize', {'buffersize': 2})]
PRESORTED = ('presorted', {'presorted': True})


CONFIG_KINDS = {'quick': ('vk', 'ek'), 'thorough': ('vk', 'ek', 'ck', 'rg', 'sq')}


def strategies(f, keysorted, K=None, nrows=0):
    if f.strat == 'sorted':
        strats = STRATS
        if K is not None and K.spelled:             # argument-spelling blocks: fewer chunked sorts
            strats = STRATS[:1] if _TIER == 'quick' else STRATS[:2]
        if K is not None and K.name in CONFIG_KINDS[_TIER] and nrows:
            # chunk size from petl.config.sort_buffersize (every value 1..nrows), no buffersize argument
            strats = strats + [('config', {'_config': c}) for c in range(1, nrows + 1)]
        return strats + ([PRESORTED] if keysorted else [])
    if f.strat == 'plain':
        return [('default', {})]
    if f.strat == 'presorted-only':
        return [PRESORTED] if keysorted else []
    if f.strat == 'sorted-input':
        return [('default', {})] if keysorted else []
    raise ValueError(f.strat)


_SPELL_ROWS = {'quick': {'kv2': 3, 'vk': 2, 'ck': 2}, 'thorough': {'kv2': 3, 'vk': 3, 'ck': 2}}


def _plan(tier):
    if tier == 'quick':
        plan = [('kv', 0, 3), ('vk', 0, 3), ('ck', 0, 3), ('mv', 0, 3), ('kv2', 4, 4), ('ek', 0, 3),
                ('rg', 0, 3), ('sq', 0, 3)]
    else:
        plan = [('kv', 0, 3), ('kv4', 4, 4), ('vk', 0, 4), ('ck', 0, 4), ('mv', 0, 4), ('kv6', 0, 3), ('ek', 0, 4),
                ('rg', 0, 4), ('sq', 0, 4)]
    # alternative spellings of the key / value arguments (quick: the tied subset, thorough: the full cross)
    for base in ('kv2', 'vk', 'ck'):
        for name, quick in SPELLED[base]:
            if quick or tier != 'quick':
                plan.append((name, 0, _SPELL_ROWS[tier][base]))
    return plan


_PER_ITEM = {0: 1, 1: 64, 2: 48, 3: 32, 4: 24}


def _operand_plan(tier):
    """Blocks on which the operand-kind axis is enumerated (all six kinds, default strategy, no presorted)."""
    if tier == 'quick':
        return [('kv2', 0, 3), ('vk', 0, 2), ('ck', 0, 2), ('mv', 0, 2), ('ek', 0, 2),
                ('kv2~index~index', 0, 2), ('ck~indices~index', 0, 2)]
    return [('kv', 0, 3), ('vk', 0, 3), ('ck', 0, 3), ('mv', 0, 3), ('ek', 0, 3),
            ('kv2~index~index', 0, 3), ('kv2~list1~name', 0, 3), ('ck~indices~index', 0, 2), ('ck~list~name', 0, 2)]


def items(tier, seed):
    out = []
    for n in range(0, 5):
        flaky_plan = [('kv2', 1, 3), ('ck', 1, 2)] if tier == 'quick' else [('kv2', 1, 3), ('vk', 1, 3), ('ck', 1, 2)]
        for axis, plan in (('plain', _plan(tier)), ('operand', _operand_plan(tier)), ('flaky', flaky_plan)):
            for kind, lo_n, hi_n in plan:
                if not (lo_n <= n <= hi_n):
                    continue
                total = len(_ALPHA[KINDS[kind].base]) ** n
                step = _PER_ITEM[n] * (3 if kind == 'mv' else 1) * (2 if KINDS[kind].spelled else 1)
                if axis == 'operand':
                    step = max(1, step // 3)
                if axis == 'flaky':
                    step = max(1, step // 4)
                for lo in range(0, total, step):
                    out.append((kind, n, lo, min(total, lo + step), axis))
    return out


def bounds(tier, seed):
    tables = {}
    optables = {}
    for kind, n, lo, hi, axis in items(tier, seed):
        if axis == 'flaky':
            continue
        d = tables if axis == 'plain' else optables
        d[kind] = d.get(kind, 0) + hi - lo
    return {'plan': [list(p) for p in _plan(tier)], 'tables_per_kind': tables, 'call_forms': len(FORMS),
            'operand_kinds': list(OPERAND_KINDS), 'one_shot_source_kinds': list(ONE_SHOT_KINDS), 'tables_per_kind_on_operand_axis': optables,
            'argument_spellings': {'single key': ['name'] + list(KSPELL_SINGLE),
                                   'compound key': ['name'] + list(KSPELL_COMPOUND), 'value fields': ['name', 'index'],
                                   'strategies on spelled kinds': 'default + presorted (quick), + buffersize=1 (thorough)'},
            'strategies': ['default', 'buffersize=1', 'buffersize=2', 'presorted=True (key-sorted tables only)',
                           'petl.config.sort_buffersize = 1..nrows with no buffersize argument (kinds %s)'
                           % ', '.join(CONFIG_KINDS[tier])],
            'row_alphabets': {k: [repr(r) for r in v] for k, v in _ALPHA.items()}}


def key_sorted(rows, K):
    return ref.is_sorted([rg.keyof(r, K.kidx) for r in rows])


def is_nontrivial(rows, K):
    gs = rg.groups(rows, K.kidx)
    return len(gs) >= 2 and any(len(g) >= 2 for k, g in gs)


def case_of(f, K, t, sname, kw, p, sig, operand='tuple'):
    return {'kind': K.name, 'form': f.name, 'param': p, 'strategy': dict(kw), 'strategy_class': sname,
            'operand': operand, 'table': [tuple(r) for r in t], 'sig': sig, 'missing_alt': _MISSING_ALT}


def family(f):
    if f.name.startswith('aggregate(') and ('of specs' in f.name or 'setitem' in f.name):
        return 'aggregate(dict/list of specs)'
    if f.name.startswith('mergeduplicates'):
        return 'mergeduplicates'
    return f.name


def group_of(f, sname, K, sig, operand='tuple'):
    """Violation group: call form x strategy class for the canonical spelling; for the alternative argument
    spellings one group per (form family, spelling) - the strategy is then in the case only; on the
    operand-kind axis one group per (form family, operand kind)."""
    if operand in ONE_SHOT_KINDS:
        return '%s [%s; input is a one-shot source] | %s' % (family(f), sname, sig)
    if operand != 'tuple':
        return '%s [input is %s] | %s' % (family(f), OPERAND_LABEL[operand], sig)
    if not K.spelled:
        return '%s [%s] | %s' % (f.name, sname, sig)
    return '%s [key as %s%s] | %s' % (family(f), K.kspell, ', value fields by index' if K.vspell == 'index' else '', sig)


OPERAND_LABEL = {'generator': 'a one-shot generator', 'iterator': 'a one-shot iterator',
                 'wrap(iterator)': 'wrap(one-shot iterator)', 'reader': 'a one-shot reader object (__iter__ returns self)',
                 'sort': 'sort(t, key)', 'sort-rev': 'sort(t, key, reverse=True)', 'sort-other': 'sort(t, other key)',
                 'sort-buf1': 'sort(t, key, buffersize=1)', 'cache': 'cache(t)', 'gen': 'a generator-backed Table'}


def operand_strategies(f, operand, keysorted):
    """View kinds: default strategy only (the operator must sort by itself).  One-shot sources: every
    configuration that reads the input once - default, plus presorted=True / the sorted-input forms on
    key-sorted tables (nothing in front of the grouping)."""
    if operand not in ONE_SHOT_KINDS:
        return [('default', {})] if f.strat in ('sorted', 'plain') else []
    if f.strat == 'sorted':
        return [('default', {})] + ([PRESORTED] if keysorted else [])
    if f.strat == 'plain':
        return [('default', {})]
    if f.strat == 'presorted-only':
        return [PRESORTED] if keysorted else []
    if f.strat == 'sorted-input':
        return [('default', {})] if keysorted else []
    raise ValueError(f.strat)


def run_operand_item(item, acc):
    """Operand-kind axis: every applicable form on every operand kind (see operand_strategies)."""
    kind, n, lo, hi, axis = item
    K = KINDS[kind]
    forms = [f for f in FORMS.values() if applicable(f, K)]
    for rows in _tables(kind, n, lo, hi):
        t = (K.hdr,) + rows
        nt = is_nontrivial(rows, K)
        ks = key_sorted(rows, K)
        for operand in OPERAND_KINDS + ONE_SHOT_KINDS:
            for f in forms:
                if f.nonempty and not rows:
                    continue
                for p in f.params(n):
                    for sname, kw in operand_strategies(f, operand, ks):
                        obs = observe(f, t, K, kw, p, operand)
                        acc.states += 1
                        acc.transitions += 1
                        acc.evals += 1
                        acc.counters['op:' + f.name] += 1
                        acc.counters['operand:' + operand] += 1
                        if nt:
                            acc.nontrivial += 1
                        if not ks:
                            acc.counters['unsorted-operand:%s:%s' % (operand, family(f))] += 1
                        if rows and operand in ONE_SHOT_KINDS:
                            acc.counters['one-shot:%s:%s:%s' % (operand, sname, family(f))] += 1
                        for sig, e, o, msg in judge(f, t, K, kw, p, obs, operand):
                            acc.violation(group_of(f, sname, K, sig, operand),
                                          case_of(f, K, t, sname, kw, p, sig, operand), e, o,
                                          msg + ' (input table is %s, strategy %r)' % (OPERAND_LABEL[operand], kw))
                        if f.name == 'aggregate(list,id)':
                            acc.outcome((operand, obs))


# ---------------------------------------------------------------------------------------------
# transient-failure histories: the source fails ONCE (at each position: header, each row, exhaustion) during
# pass 1 of a view built with buffersize <= rows (the internal sort spills; cache left at True); passes 2 and 3
# on the SAME view must equal the reference
# ---------------------------------------------------------------------------------------------

class Boom(Exception):
    pass


class FlakyTable(object):
    def __init__(self, table, fail_at):
        self.table = table
        self.fail_at = fail_at
        self.failed = False

    def __iter__(self):
        return self._gen()

    def _gen(self):
        for pos, item in enumerate(self.table):
            if pos == self.fail_at and not self.failed:
                self.failed = True
                raise Boom('transient failure at item %d' % pos)
            yield item
        if self.fail_at == len(self.table) and not self.failed:
            self.failed = True
            raise Boom('transient failure at exhaustion')


FLAKY_FORMS = ('aggregate(len)', 'aggregate(list,id)', 'aggregate(OrderedDict of specs)', 'rowreduce',
               'fold(sequence of ids)', 'groupselectfirst', 'groupselectlast', 'groupselectmin', 'groupselectmax',
               'mergeduplicates')


def flaky_history(f, t, K, fail_at, bs):
    """[pass1, pass2, pass3] observations of one view over a source that fails once at fail_at; None when the
    failure already hits while the view is built."""
    global _CUR_OPERAND
    _CUR_OPERAND = 'tuple'
    try:
        view = f.run(FlakyTable(t, fail_at), K, {'buffersize': bs}, None)
    except Boom:
        return None
    hist = []
    for _ in range(3):
        try:
            it = iter(view)
            hdr = norm(next(it))
            hist.append(('ok', (hdr, [norm(r) for r in it])))
        except Exception as e:
            hist.append(('raises', type(e).__name__, str(e)[:120]))
    return hist


def judge_flaky(f, t, K, fail_at, bs, hist=None):
    if hist is None:
        hist = flaky_history(f, t, K, fail_at, bs)
    if hist is None:
        return []
    for i, obs in enumerate(hist):
        if i == 0 and obs[0] == 'raises':
            continue                        # the transient failure itself - not judged
        for sig, e, o, msg in judge(f, t, K, {'buffersize': bs}, None, obs):
            return [('a later pass after a transient source failure: ' + sig, e, o,
                     '%s: pass %d on the same view after the source failed once during pass 1 - %s' % (f.name, i + 1, msg))]
    return []


def run_flaky_item(item, acc):
    kind, n, lo, hi, axis = item
    K = KINDS[kind]
    forms = [FORMS[name] for name in FLAKY_FORMS if applicable(FORMS[name], K)]
    for rows in _tables(kind, n, lo, hi):
        t = (K.hdr,) + rows
        for bs in range(1, n + 1):
            for fail_at in range(0, n + 2):
                for f in forms:
                    hist = flaky_history(f, t, K, fail_at, bs)
                    acc.states += 1
                    acc.counters['flaky-histories'] += 1
                    if hist is None:
                        continue
                    acc.transitions += 3
                    acc.evals += 2 if hist[0][0] == 'raises' else 3
                    if hist[0][0] == 'raises':
                        acc.counters['flaky-pass1-raised:' + f.name] += 1
                        if is_nontrivial(rows, K):
                            acc.nontrivial += 1
                    for sig, e, o, msg in judge_flaky(f, t, K, fail_at, bs, hist):
                        c = case_of(f, K, t, 'buffersize', {'buffersize': bs}, None, sig)
                        c['flaky_fail_at'] = fail_at
                        acc.violation('%s | %s' % (f.name, sig), c, e, o, msg)
        acc.outcome(('flaky', kind, n))


def run_item(item, acc):
    if len(item) == 5 and item[4] == 'operand':
        return run_operand_item(item, acc)
    if len(item) == 5 and item[4] == 'flaky':
        return run_flaky_item(item, acc)
    kind, n, lo, hi = item[:4]
    K = KINDS[kind]
    forms = [f for f in FORMS.values() if applicable(f, K)]
    for rows in _tables(kind, n, lo, hi):
        t = (K.hdr,) + rows
        ks = key_sorted(rows, K)
        nt = is_nontrivial(rows, K)
        for f in forms:
            if f.nonempty and not rows:
                continue
            for p in f.params(n):
                for sname, kw in strategies(f, ks, K, len(rows)):
                    obs = observe(f, t, K, kw, p)
                    acc.states += 1
                    acc.transitions += 1
                    acc.evals += 1
                    acc.counters['op:' + f.name] += 1
                    acc.counters['strategy:' + sname] += 1
                    if nt:
                        acc.nontrivial += 1
                        acc.counters['nt:' + f.name] += 1
                    if not ks:
                        acc.counters['unsorted-spelling:%s:key=%s,value=%s' % (K.base, K.kspell, K.vspell)] += 1
                    for sig, e, o, msg in judge(f, t, K, kw, p, obs):
                        acc.violation(group_of(f, sname, K, sig),
                                      case_of(f, K, t, sname, kw, p, sig), e, o,
                                      msg + ' (strategy %r)' % (kw,))
                    if f.name == 'aggregate(list,id)' and sname == 'default':
                        acc.outcome(obs)
        if nt:
            acc.sample({'table': t, 'groups': [(norm(k), g) for k, g in rg.groups(rows, K.kidx)]}, 1)


def replay(case):
    global _MISSING_ALT
    _MISSING_ALT = case.get('missing_alt', _MISSING_ALT)
    K = KINDS[case['kind']]
    f = FORMS[case['form']]
    t = tuple(tuple(r) for r in case['table'])
    p = case['param']
    if isinstance(p, list):
        p = tuple(p)
    if 'flaky_fail_at' in case:
        bad = [b for b in judge_flaky(f, t, K, case['flaky_fail_at'], case['strategy']['buffersize'])
               if b[0] == case['sig']]
    else:
        bad = [b for b in judge(f, t, K, dict(case['strategy']), p, operand=case.get('operand', 'tuple'))
               if b[0] == case['sig']]
    if not bad:
        return None
    sig, e, o, msg = bad[0]
    return (e, o, msg)


def vacuity(cov, tier):
    c = cov['per_case_counters']
    problems = ['no non-trivial case for ' + name for name in FORMS if not c.get('nt:' + name)]
    for name in FLAKY_FORMS:
        if not c.get('flaky-pass1-raised:' + name):
            problems.append('no transient-failure history for ' + name)
    for s in ('default', 'buffersize', 'presorted', 'config'):
        if not c.get('strategy:' + s):
            problems.append('strategy %s never ran' % s)
    fams = sorted(set(family(f) for f in FORMS.values() if f.strat in ('sorted', 'plain')))
    for operand in OPERAND_KINDS:
        for fam in fams:
            if not c.get('unsorted-operand:%s:%s' % (operand, fam)):
                problems.append('operand kind %s never met %s on a table with unsorted keys' % (operand, fam))
    for operand in ONE_SHOT_KINDS:
        for f in FORMS.values():
            want = {'sorted': ('default', 'presorted'), 'plain': ('default',), 'presorted-only': ('presorted',),
                    'sorted-input': ('default',)}[f.strat]
            for sname in want:
                if not c.get('one-shot:%s:%s:%s' % (operand, sname, family(f))):
                    problems.append('one-shot source %s never met %s [%s] on a table with rows' % (operand, f.name, sname))
    for base in ('kv2', 'vk', 'ck'):
        for name, quick in SPELLED[base]:
            K = KINDS[name]
            if (quick or tier != 'quick') and not c.get('unsorted-spelling:%s:key=%s,value=%s'
                                                        % (base, K.kspell, K.vspell)):
                problems.append('no table with unsorted keys for spelling %s' % name)
    return problems


# ---------------------------------------------------------------------------------------------
# classifiers for known_findings.json
# ---------------------------------------------------------------------------------------------

def _minmax_presorted(group, case, params):
    return case.get('form') in ('groupselectmin', 'groupselectmax') and bool(case.get('strategy', {}).get('presorted'))


def _one_element_key(group, case, params):
    """Key given as a one-element list / tuple to the dict/list-of-specs form of aggregate, to mergeduplicates
    or to merge (params['forms'] restricts the form families)."""
    K = KINDS.get(case.get('kind'))
    f = FORMS.get(case.get('form'))
    if K is None or f is None or not K.keyseq1:
        return False
    return family(f) in (params.get('forms') or ['aggregate(dict/list of specs)', 'mergeduplicates', 'merge'])


def _gcdv_index_key(group, case, params):
    K = KINDS.get(case.get('kind'))
    return K is not None and case.get('form') == 'groupcountdistinctvalues' and isinstance(K.key, int)


CLASSIFIERS = {'groupselectminmax_presorted': _minmax_presorted,
               'one_element_key': _one_element_key,
               'groupcountdistinctvalues_index_key': _gcdv_index_key}
