"""C15 — writing a table and reading it back returns the same table.

E2: every table of a bounded family x every configuration is written with the real to*/append*
functions and read back with the matching from* function; the result is compared with the reference
rendering in mc/refs/ioref.py (csv: str() of every cell, None -> ''; pickle: exact; json: squared-up
records with JSON types).  Append sequences are compared, content for content, with one to* call on the
concatenation.
"""
import codecs
import csv
import itertools
import os
from decimal import Decimal

import petl as etl
from petl.io.sources import MemorySource

from .. import env
from .. import spaces
from ..refs import ioref as ref

ID = 'C15'
LEVEL = 'model_checking'
ENGINE = 'E2 small-scope enumeration of tables x io configurations against a reference rendering'
RULE = ('state = (table, format, dialect/encoder arguments, text encoding, target kind, write_header, reader '
        'header=) ; every state is one write with to* (plus 0-2 append*) and one read with the matching from*. '
        'Tables: every string of length <= L over a 12-character hostile alphabet (letter , " \' CR LF NUL space '
        'non-ASCII TAB ; backslash) and every string of length <= L over an 11-character line-boundary alphabet '
        '(letter , " VT FF FS GS RS NEL U+2028 U+2029: where str.splitlines splits but csv / json-lines must not) '
        'and over a 7-character signature alphabet (letter , " U+FEFF U+FFFE U+200B U+00A0: what a decoder or a '
        'tolerant reader may swallow, in particular as the very first character of the file; run with utf-8 under '
        'three spellings, utf-8-sig, utf-16, latin-1, ascii, locale default, and with reader errors=replace/ignore) '
        'in every cell position of header-only, 1x1, 1x2 and 2x1 tables, all 2x2 grids '
        'of single hostile characters (as data and as header+row), typed cells (None int float bool str) in '
        'ragged / empty / over-long rows. A csv state is non-trivial when the written text holds a character '
        'special under that dialect (its delimiter, its quotechar, CR, LF), NUL, VT/FF/FS/GS/RS, a non-ASCII character, an empty '
        'or non-text cell or a row whose length differs from the first row; pickle/json: a non-str cell or a '
        'ragged row; append: at least one appended row; target reuse: always. Append sequences are crossed with every '
        'csv call form (34) and with hostile cell text (all strings <= 2 incl. backslash) in the written and the '
        'appended table. Target reuse: the same source object / path is written by to* twice (first rendering '
        'longer, equal, shorter than the second; all 16 ordered pairs of 4 tables), read back and appended to, '
        'for csv, tsv, pickle, json (array, lines) and jsonarrays on every target kind - the second to* must '
        'replace the first completely. Header clause: write_header on/off x reader header= in {absent, (), [], 1, 2, 3 '
        'names as tuple or list} on every typed table with <= 1 data row and every table with a zero-field or non-text '
        'header row (thorough: also every one-column typed table) x 34 call forms (MemorySource) and default forms x 4 target kinds x 3 '
        'codecs, and on to* + append* sequences of such tables. json reader sample= (records inspected for field names): sample in '
        '{absent, 1, 2, n-1, n, n+1} x n in 1..5 records (rectangular and ragged) x array / lines form x header= '
        'absent / same / reversed x 4 target kinds; thorough adds 999..1002 records x sample in {absent, 1000, n-1, 1}. '
        'Excluded: states on which csv.writer itself raises '
        'csv.Error (QUOTE_NONE without escapechar, lone empty field), numeric cells under QUOTE_NONNUMERIC (read '
        'back as float by the csv module), text not encodable in the chosen codec (ascii / locale default are '
        'run on the ASCII subset, latin-1 on code points < 256), QUOTE_STRINGS/QUOTE_NOTNULL (reader side differs between 3.12 and 3.13), '
        'tables without a header row, json tables with zero rows / non-text or duplicate field names')
ASSUMPTIONS = ['cell text bounded to length 2 (quick) / 3 (thorough) over 12 hostile, 11 line-boundary and 7 signature characters (three separate families, not mixed); tables have <= 3 rows, <= 3 cells per row',
               'five codecs stand for "every text encoding": utf-8, utf-16 (BOM-writing), latin-1, ascii, locale default (None)',
               'lineterminator, doublequote, escapechar, skipinitialspace left at their defaults (statement)',
               'compressed appends are compared after decompression with the stdlib (multi-member streams differ bytewise by design)',
               'remote / zip / stdin / stdout sources are not exercised']

QM, QA, QNN, QN = csv.QUOTE_MINIMAL, csv.QUOTE_ALL, csv.QUOTE_NONNUMERIC, csv.QUOTE_NONE
DIALECTS = [(d, q, m) for m in (QM, QA, QNN, QN) for d in (',', '\t', ';', '|') for q in ('"', "'")]
FORMS = [('csv', None), ('tsv', None)] + [('csv', d) for d in DIALECTS]
ENCS = ['utf-8', 'utf-16', 'latin-1', 'ascii', None]
APPEND_ENCS = ENCS + ['utf-8-sig', 'utf-32']
BOM_CODECS = ('utf-16', 'utf-32', 'utf-8-sig')
KINDS = ['mem', 'path', 'gz', 'bz2']
HDR = ('h1', 'h2')
FLAGS = [(True, None), (False, None), (True, HDR), (False, HDR)]
# the reader's header= argument as an axis of its own (part H): absent, EMPTY (tuple and list: a header row with
# zero fields is a header row), one / two / three names, given as tuple or list
HARGS = [None, (), [], ('h1',), ['h1', 'h2'], ('h1', 'h2', 'h3')]
EXT = {'path': '', 'gz': '.gz', 'bz2': '.bz2'}
PROTOCOLS = [-1, 0, 2]

CROSSING = {
    'quick': 'signature strings(<=2) x 12 placements: [34 forms x {utf-8, utf-8-sig, utf-16} x write_header on/off on MemorySource] + '
             '[2 default forms x 8 codec spellings x 4 kinds x 2 flag combinations] + [2 default forms x 8 spellings x reader '
             'errors in {replace, ignore}]; hostile strings(<=2) x 12 placements: [34 call forms on MemorySource/utf-8] + [2 default forms x 5 codecs x 4 target '
             'kinds x 2 header-flag combinations (write_header, header= both default / both flipped)]; line-boundary strings(<=2) x 12 placements: [34 forms on MemorySource/utf-8] + '
             '[2 default forms x 5 codecs x 4 kinds]; 2x2 grids: 2 default forms on MemorySource/utf-8; typed/ragged tables: '
             '34 forms x 2 flag combinations on MemorySource/utf-8 (all write_header x header= combinations: part H); append: 39 sequences x all write_header flags x 2 '
             'dialects x 7 codecs x 4 target kinds + all 32 explicit dialects (utf-8, MemorySource and .gz); append with hostile strings(<=2) in the '
             'written / appended table x 34 forms x 3 flag combinations on MemorySource and .gz; target reuse: 16 (prior, table) '
             'pairs x [read back, 2 appended tables] x write_header x {3 dialects x 3 codecs | 3 pickle protocols | json array, '
             'lines | jsonarrays with/without header} x 4 target kinds',
    'thorough': 'signature strings(<=3) as quick on MemorySource; signature strings(<=2): [34 forms x 8 codec spellings x 4 kinds] + '
                '[2 default forms x 8 spellings x 4 kinds x 4 flag combinations] + reader errors; line-boundary strings(<=3) x 12 placements: [34 forms on MemorySource/utf-8]; line-boundary strings(<=2): as '
                'hostile strings(<=2) below; hostile strings(<=3) x 12 placements: [34 forms on MemorySource/utf-8] + [2 default forms x 5 codecs x 4 kinds]; '
                'strings(<=2) x 12 placements: [34 forms x 5 codecs x 4 kinds] + [2 default forms x 5 codecs x 4 kinds x 4 '
                'flag combinations]; 2x2 grids: 34 forms on MemorySource/utf-8; typed/ragged tables: [34 forms x 4 kinds x 4 '
                'flag combinations, utf-8] + [2 default forms x 4 other codecs x 4 kinds x 4 flag combinations]; append: 258 '
                'sequences x all write_header flags x 4 dialects x 7 codecs x 4 target kinds + all 32 explicit dialects (utf-8); '
                'append with hostile strings(<=2) x 34 forms x 3 flag combinations x 4 target kinds; target reuse as in quick',
}

_G = {}


def csvargs_of(dialect):
    if dialect is None:
        return {}
    d, q, m = dialect
    return {'delimiter': d, 'quotechar': q, 'quoting': m}


# ---------------------------------------------------------------------------------------------
# spaces
# ---------------------------------------------------------------------------------------------

def alphabet(seed):
    r = spaces.reps(seed)
    letter = r['s1']
    nonascii = ['\xe9', '\xfc', '\xf1', '\xf8'][seed % 4]      # all of them exist in latin-1
    return [letter, ',', '"', "'", '\r', '\n', '\0', ' ', nonascii, '\t', ';', '\\']


def boundary_alphabet(seed):
    """Characters at which str.splitlines() / codecs StreamReader.readline() split but the csv module, the
    json lines form and io.TextIOWrapper(newline='') do not (VT, FF, FS, GS, RS, NEL, LS, PS), together with
    a letter, the default delimiter and the default quotechar.  csv.writer does not quote any of them."""
    letter = spaces.reps(seed)['s1']
    return [letter, ',', '"', '\x0b', '\x0c', '\x1c', '\x1d', '\x1e', '\x85', '\u2028', '\u2029']


def boundary_strings(seed, maxlen):
    return [''.join(t) for t in spaces.tuples_upto(boundary_alphabet(seed), maxlen)]


def signature_alphabet(seed):
    """Characters a decoder or a 'tolerant' reader may swallow or normalise: U+FEFF (the BOM / zero width
    no-break space, legitimate cell text), U+FFFE (its byte-swapped twin), U+200B zero width space, U+00A0
    no-break space - with a letter, the default delimiter and the default quotechar."""
    letter = spaces.reps(seed)['s1']
    return [letter, ',', '"', '\ufeff', '\ufffe', '\u200b', '\xa0']


def signature_strings(seed, maxlen):
    return [''.join(t) for t in spaces.tuples_upto(signature_alphabet(seed), maxlen)]


# the same codec under several spellings, utf-8-sig as a codec of its own (it writes a signature and strips
# exactly one on reading, so it is lossless too)
Z_ENCS = ['utf-8', 'UTF8', 'utf_8', 'utf-8-sig', 'utf-16', 'latin-1', 'ascii', None]


def filler(seed):
    return ['x', 'y', 'z', 'w'][seed % 4]


def strings(seed, maxlen):
    return [''.join(t) for t in spaces.tuples_upto(alphabet(seed), maxlen)]


def placements(s, f):
    """The string in every cell position of header-only, 1x1, 1x2 and 2x1 tables (other cells = f)."""
    return [
        ((s,),), ((s, f),), ((f, s),),
        ((s,), (f,)), ((f,), (s,)),
        ((s, f), (f, f)), ((f, s), (f, f)), ((f, f), (s, f)), ((f, f), (f, s)),
        ((s,), (f,), (f,)), ((f,), (s,), (f,)), ((f,), (f,), (s,)),
    ]


def typed_cells(seed):
    r = spaces.reps(seed)
    return [None, r['i1'], r['i1'] + 0.5, True, r['s1']]


def typed_tables(seed):
    """Ragged / empty / over-long rows of typed cells; headers of text, int and None names."""
    T = typed_cells(seed)
    f = filler(seed)
    out = []
    rows1 = [r for n in range(0, 3) for r in itertools.product(T, repeat=n)]        # w=1: len 0,1,2 (31)
    for n in range(0, 3):
        for rs in itertools.product(rows1, repeat=n):
            out.append(((f,),) + rs)
    rows2 = [r for n in range(0, 4) for r in itertools.product(T, repeat=n)]        # w=2: len 0..3 (156)
    for r in rows2:
        out.append(((f, 'k'), r))
    for rs in itertools.product(rows1, repeat=2):                                   # w=2, two short/full rows
        out.append(((f, 'k'),) + rs)
    for h in [(), (1,), (None,), (1, f), (f, None), (2.5, True)]:                   # unusual header rows
        out.append((h,))
        out.append((h, (f,)))
        out.append((h, (), (f, 1, None)))
    # zero-field header rows on ragged tables (what etl.empty() and header-less data look like)
    out.append(((), (f, 'k'), (), ('c',)))
    out.append(((), ()))
    out.append(((), (), ()))
    out.append(((), (None,), (f, 'k', 'm')))
    return out


def header_axis_tables(seed, tier):
    """Tables for the write_header / header= clause: every typed table with at most one data row, every table
    whose header row is unusual (zero fields, non-text names); thorough adds every one-column typed table."""
    T = typed_tables(seed)
    return [t for t in T if len(t) <= 2 or len(t[0]) == 0 or not all(isinstance(h, str) for h in t[0])
            or (tier != 'quick' and len(t[0]) == 1)]


def append_tables(seed):
    """Six tables (0, 1, 2+ data rows, twice) whose rows are all distinguishable and carry hostile text:
    line-boundary characters, non-ASCII, delimiter / quote / LF, backslash + apostrophe + TAB (a row that
    QUOTE_NONE accepts under the default delimiter), CR, None, numbers, an empty row."""
    a = alphabet(seed)
    na = a[8]
    first = [('r0\x0b', '1\x0c\x1c'), (na + ',"\x85', 'l1\nl2')]
    second = [("q'\\" + '\t', '', 7), ('\r\x1d\x1e', None, 2.5), ()]
    tabs = [(('c0', 'd'),) + tuple(first[:n]) for n in (0, 1, 2)]
    tabs += [(('c3', 'd'),) + tuple(second[:n]) for n in (0, 1, 3)]
    return tabs


def pickle_cells(seed):
    r = spaces.reps(seed)
    return [None, True, r['i1'], r['i1'] + 0.5, r['s1'], '\xe9\n', '\x0b\x1c\x85\u2028', b'\x00\xff', (1, r['s1']), [1, [2]],
            {'k': (1,)}, Decimal('1.5'), r['d1'], 1.0]


def pickle_tables(seed):
    P = pickle_cells(seed)
    f = filler(seed)
    out = []
    for c in P:
        out.append(((c,),))                 # header-only, typed header cell
        out.append(((f,), (c,)))
        out.append(((c,), (f,)))
        out.append(((f,), [c]))             # row given as a list
    for c1, c2 in itertools.product(P, repeat=2):
        out.append(((f, 'k'), (c1, c2)))
        out.append(((f,), (c1,), (c2,)))
    return out + typed_tables(seed)


def json_cells(seed):
    r = spaces.reps(seed)
    return [None, True, r['i1'], r['i1'] + 0.5, 1.0, r['s1'], '\xe9\n"', [1, r['s1']], {'k': 1}, (1, 2),
            [], {}, '', -3, 1e100, False]


def json_names(seed):
    f = filler(seed)
    return [f, '\xe9', 'a b', '"', '', '1', 'k\n']


def json_tables(seed, maxlen):
    J = json_cells(seed)
    J4 = [None, J[2], J[5], J[7]]
    N = json_names(seed)
    f = filler(seed)
    out = []
    # cell variety, fixed names
    rows1 = [()] + [(c,) for c in J] + [(c, 'L') for c in J]
    for r in rows1:
        out.append(((f,), r))
    for r1, r2 in itertools.product(rows1, repeat=2):
        out.append(((f,), r1, r2))
    rows2 = [()] + [(c,) for c in J] + [(a, b) for a in J for b in J] + [(a, b, 'L') for a in J4 for b in J4]
    for r in rows2:
        out.append(((f, 'k'), r))
    rows2s = [()] + [(c,) for c in J4] + [(a, b) for a in J4 for b in J4] + [(J4[1], J4[2], 'L')]
    for r1, r2 in itertools.product(rows2s, repeat=2):
        out.append(((f, 'k'), r1, r2))
    # name variety, small cells
    for n in N:
        for r in [(), (1,), ('v', 'L')]:
            out.append(((n,), r))
    for n1, n2 in itertools.permutations(N, 2):
        for r in [(), (1,), (1, 'v'), (None, 2, 'L')]:
            out.append(((n1, n2), r))
            out.append(((n1, n2), r, (3, 4)))
    for n1, n2, n3 in itertools.permutations(N[:4], 3):
        out.append(((n1, n2, n3), (1, 2, 3), (4,)))
    # hostile text as cell and as field name
    for s in strings(seed, maxlen) + boundary_strings(seed, 2)[1:] + signature_strings(seed, 2)[1:]:
        out.append(((f,), (s,)))
        if s != f:
            out.append(((s,), (f,)))
            out.append(((s, f), (1, s)))
    return out


# ---------------------------------------------------------------------------------------------
# targets
# ---------------------------------------------------------------------------------------------

class Target(object):
    """One write target of a given kind; `name` keeps two targets of a case apart."""

    def __init__(self, kind, name):
        self.kind = kind
        self.mem = None
        self.path = None
        if kind != 'mem':
            self.path = os.path.join(env.worker_dir(), 'c15-' + name + EXT[kind])

    def fresh(self):
        if self.kind == 'mem':
            self.mem = MemorySource()
            return self.mem
        return self.path

    def again(self):
        return self.mem if self.kind == 'mem' else self.path

    def source(self):
        if self.kind == 'mem':
            return MemorySource(self.mem.getvalue())
        return self.path

    def raw(self):
        if self.kind == 'mem':
            return self.mem.getvalue()
        with open(self.path, 'rb') as fh:
            return fh.read()

    def content(self):
        return ref.decompress(self.kind, self.raw())


_TARGETS = {}


def target(kind, name):
    key = (os.getpid(), kind, name)
    t = _TARGETS.get(key)
    if t is None:
        t = _TARGETS[key] = Target(kind, name)
    return t


def _exc(e):
    return '%s: %s' % (type(e).__name__, str(e)[:160])


# ---------------------------------------------------------------------------------------------
# single cases (used by the enumeration and by replay)
# ---------------------------------------------------------------------------------------------

TO = {'csv': etl.tocsv, 'tsv': etl.totsv, 'pickle': etl.topickle}
FROM = {'csv': etl.fromcsv, 'tsv': etl.fromtsv, 'pickle': etl.frompickle}
APPEND = {'csv': etl.appendcsv, 'tsv': etl.appendtsv, 'pickle': etl.appendpickle}


def _full_csvargs(fn, args):
    full = dict(args)
    full.setdefault('dialect', 'excel' if fn == 'csv' else 'excel-tab')
    return full


def csv_case(fn, table, kind, enc, wh, hdr, dialect, prior=None, rerrors=None):
    """None = holds; 'excluded'; or (signature, expected, observed).  With `prior` the SAME source object /
    path is first written with to*(prior): the second to* must replace that content completely."""
    args = csvargs_of(dialect)
    written = ref.written_rows(table, wh)
    exp = ([tuple(hdr)] if hdr is not None else []) + ref.csv_rows(written)
    t = target(kind, 'rt.csv')
    try:
        sink = t.fresh()
        if prior is not None:
            if ref.stdlib_writer_refuses(list(prior), _full_csvargs(fn, args)):
                return 'excluded'
            TO[fn](prior, sink, encoding=enc, write_header=True, **args)
            sink = t.again()
        TO[fn](table, sink, encoding=enc, write_header=wh, **args)
    except csv.Error as e:
        if ref.stdlib_writer_refuses(written, _full_csvargs(fn, args)):
            return 'excluded'
        return ('write raises csv.Error although csv.writer accepts the rows', exp, _exc(e))
    except Exception as e:
        return ('write raises %s' % type(e).__name__, exp, _exc(e))
    try:
        if rerrors is not None:       # a lenient reader must read a validly encoded file exactly like a strict one
            args = dict(args, errors=rerrors)
        got = list(FROM[fn](t.source(), encoding=enc, header=hdr, **args))
    except Exception as e:
        return ('read-back raises %s' % type(e).__name__, exp, _exc(e))
    if not ref.rows_same(got, exp):
        return ('read-back differs', exp, ref.norm_rows(got))
    return None


def pickle_case(table, kind, wh, protocol, prior=None):
    exp = ref.norm_rows(ref.written_rows(table, wh))
    t = target(kind, 'rt.p')
    try:
        sink = t.fresh()
        if prior is not None:
            etl.topickle(prior, sink, protocol=protocol)
            sink = t.again()
        etl.topickle(table, sink, protocol=protocol, write_header=wh)
        got = list(etl.frompickle(t.source()))
    except Exception as e:
        return ('raises %s' % type(e).__name__, exp, _exc(e))
    if not ref.rows_same(got, exp):
        return ('read-back differs', exp, ref.norm_rows(got))
    return None


def json_case(table, kind, lines, ensure_ascii, hdrmode, prior=None, sample=None):
    flds = [str(x) for x in table[0]]
    header = {'none': None, 'same': list(flds), 'reversed': list(reversed(flds))}[hdrmode]
    exp = ref.json_table(table, header=header)
    t = target(kind, 'rt.json')
    kw = {}
    if lines:
        kw['lines'] = True
    if ensure_ascii is not None:
        kw['ensure_ascii'] = ensure_ascii
    try:
        sink = t.fresh()
        if prior is not None:
            etl.tojson(prior, sink, **kw)
            sink = t.again()
        etl.tojson(table, sink, **kw)
        rkw = {'lines': True} if lines else {}
        if header is not None:
            rkw['header'] = header
        if sample is not None:      # how many records the reader inspects for field names: never changes the rows
            rkw['sample'] = sample
        got = list(etl.fromjson(t.source(), **rkw))
    except Exception as e:
        return ('raises %s' % type(e).__name__, exp, _exc(e))
    if not ref.rows_same(got, exp):
        return ('read-back differs', exp, ref.norm_rows(got))
    return None


def jsonarrays_case(table, kind, output_header, ensure_ascii, prior=None):
    exp = ref.json_arrays(table, output_header)
    t = target(kind, 'rt.json')
    kw = {}
    if ensure_ascii is not None:
        kw['ensure_ascii'] = ensure_ascii
    try:
        sink = t.fresh()
        if prior is not None:
            etl.tojsonarrays(prior, sink, output_header=True, **kw)
            sink = t.again()
        etl.tojsonarrays(table, sink, output_header=output_header, **kw)
        got = ref.parse_json(t.content())
    except Exception as e:
        return ('raises %s' % type(e).__name__, exp, _exc(e))
    if not ref.same(got, exp):
        return ('stdlib parse of the file differs', exp, got)
    return None


def append_case(fmt, tables, whs, kind, enc, dialect, protocol, prior=None, hdr=None):
    """to*(tables[0]) then append*(tables[1:]) on target A; to*(concatenation) on target B.  With `prior`,
    target A (the same source object / path) has been written with to*(prior) before."""
    cat = ref.concat_rows(tables[0], whs[0], list(zip(tables[1:], whs[1:])))
    if fmt == 'pickle':
        kw = {'protocol': protocol}
        rkw = {}
        exp = ref.norm_rows(cat)
    else:
        kw = dict(csvargs_of(dialect), encoding=enc)
        rkw = dict(kw)
        exp = ref.csv_rows(cat)
        if hdr is not None:         # the reader's header= argument adds exactly that row in front
            rkw['header'] = hdr
            exp = [tuple(hdr)] + exp
    if fmt != 'pickle':
        # the exclusion is decided by the reference: csv.writer itself refuses these rows with these arguments
        full = _full_csvargs(fmt, csvargs_of(dialect))
        if ref.stdlib_writer_refuses(cat + (list(prior) if prior is not None else []), full):
            return 'excluded'
    a, b = target(kind, 'app-a.' + fmt), target(kind, 'app-b.' + fmt)
    try:
        sink = a.fresh()
        if prior is not None:
            TO[fmt](prior, sink, write_header=True, **kw)
            sink = a.again()
        TO[fmt](tables[0], sink, write_header=whs[0], **kw)
        for t, wh in zip(tables[1:], whs[1:]):
            APPEND[fmt](t, a.again(), write_header=wh, **kw)
        TO[fmt](cat, b.fresh(), write_header=True, **kw)
    except Exception as e:
        return ('write raises %s' % type(e).__name__, None, _exc(e))
    ca, cb = a.content(), b.content()
    if ca != cb:
        return ('content differs from to*(concatenation)', cb, ca)
    try:
        got = list(FROM[fmt](a.source(), **rkw))
    except Exception as e:
        return ('read-back raises %s' % type(e).__name__, exp, _exc(e))
    if not ref.rows_same(got, exp):
        return ('read-back differs', exp, ref.norm_rows(got))
    return None


def replay(case):
    k = case['kind']
    tb = lambda t: tuple(tuple(r) if isinstance(r, tuple) else r for r in t)
    prior = case.get('prior')
    if prior is not None:
        prior = tb(prior)
    if k == 'csv':
        hdr = case['hdr']
        r = csv_case(case['fn'], tb(case['table']), case['target'], case['enc'], case['wh'],
                     hdr,
                     None if case['dialect'] is None else tuple(case['dialect']), prior=prior,
                     rerrors=case.get('rerrors'))
    elif k == 'pickle':
        r = pickle_case(tb(case['table']), case['target'], case['wh'], case['protocol'], prior=prior)
    elif k == 'json':
        if 'nrecords' in case:      # large tables are stored by size, not by value
            table = sample_table(_G.get('f', 'x'), case['nrecords'])
        else:
            table = tb(case['table'])
        r = json_case(table, case['target'], case['lines'], case['ensure_ascii'], case['hdrmode'],
                      prior=prior, sample=case.get('sample'))
    elif k == 'jsonarrays':
        r = jsonarrays_case(tb(case['table']), case['target'], case['output_header'], case['ensure_ascii'],
                            prior=prior)
    elif k == 'append':
        r = append_case(case['fmt'], [tb(t) for t in case['tables']], list(case['whs']), case['target'],
                        case['enc'], None if case['dialect'] is None else tuple(case['dialect']),
                        case['protocol'], prior=prior, hdr=case.get('hdr'))
    else:
        raise ValueError(k)
    if r is None or r == 'excluded':
        return None
    return (r[1], r[2], r[0])


KINDNAME = {'mem': 'MemorySource', 'path': 'plain file', 'gz': '.gz file', 'bz2': '.bz2 file'}


def _codec_name(enc):
    if enc is None:
        return None
    try:
        return codecs.lookup(enc).name
    except LookupError:
        return enc


def _where(kind, enc='utf-8'):
    """Configuration class used in group names: target kind and whether the codec writes a BOM (the two
    known defect regions are exactly 'BOM-writing codec on a compressed target'; keeping them in groups
    of their own means a known finding can never hide a different failure)."""
    if kind in ('gz', 'bz2') and _codec_name(enc) in BOM_CODECS:
        return '%s, BOM-writing codec' % KINDNAME[kind]
    return KINDNAME[kind]


# ---------------------------------------------------------------------------------------------
# classifiers for known_findings.json
# ---------------------------------------------------------------------------------------------

def _rows_written(case):
    """(rows written by the to* call, rows written by append* calls) of a csv / append case."""
    if case.get('kind') == 'csv':
        return len(ref.written_rows(case['table'], case['wh'])), 0
    ns = [len(ref.written_rows(t, wh)) for t, wh in zip(case['tables'], case['whs'])]
    return ns[0], sum(ns[1:])


def _is_csv_case(case):
    return case.get('kind') == 'csv' or (case.get('kind') == 'append' and case.get('fmt') in ('csv', 'tsv'))


def _bom_lost_on_bz2(group, case, params):
    """to{csv,tsv} of >= 1 row to a .bz2 target with utf-16 / utf-32: BZ2File is not seekable in write mode,
    io.TextIOWrapper then never writes the BOM, and from{csv,tsv} with the same encoding refuses the file."""
    if not _is_csv_case(case) or case.get('target') != 'bz2':
        return False
    if _codec_name(case.get('enc')) not in ('utf-16', 'utf-32'):
        return False
    first, later = _rows_written(case)
    return first + later > 0


def _bom_on_compressed_append(group, case, params):
    """append{csv,tsv} of >= 1 row to a .gz/.bz2 target that already holds data, with a BOM-writing codec:
    the compressed append stream reports position 0 / unseekable, so a second BOM lands mid-file."""
    if case.get('kind') != 'append' or case.get('fmt') not in ('csv', 'tsv'):
        return False
    if case.get('target') not in ('gz', 'bz2') or _codec_name(case.get('enc')) not in BOM_CODECS:
        return False
    first, later = _rows_written(case)
    return later > 0


CLASSIFIERS = {'bom_lost_on_bz2': _bom_lost_on_bz2, 'bom_on_compressed_append': _bom_on_compressed_append}


# ---------------------------------------------------------------------------------------------
# enumeration
# ---------------------------------------------------------------------------------------------

def setup(tier, seed):
    L = 2 if tier == 'quick' else 3
    f = filler(seed)
    S = strings(seed, L)
    _G.clear()
    _G.update({
        'tier': tier, 'seed': seed, 'L': L, 'f': f,
        'S': S, 'S2': strings(seed, 2), 'A': alphabet(seed),
        'LB': boundary_strings(seed, L), 'LB2': boundary_strings(seed, 2),
        'Z': signature_strings(seed, L), 'Z2': signature_strings(seed, 2),
        'typed': typed_tables(seed), 'app': append_tables(seed), 'reuse': reuse_tables(seed),
        'hdr': header_axis_tables(seed, tier),
        'pickle': pickle_tables(seed), 'json': json_tables(seed, 2 if tier == 'quick' else 3),
    })


def bounds(tier, seed):
    return {'max_cell_text_length': _G['L'], 'alphabet': 12, 'strings': len(_G['S']),
            'line_boundary_alphabet': 11, 'line_boundary_strings': len(_G['LB']),
            'signature_alphabet': 7, 'signature_strings': len(_G['Z']), 'signature_encodings': [str(e) for e in Z_ENCS],
            'placements_per_string': 12, 'grid_tables': 2 * 12 ** 4, 'typed_tables': len(_G['typed']),
            'pickle_tables': len(_G['pickle']), 'json_tables': len(_G['json']),
            'append_base_tables': len(_G['app']), 'reuse_tables': len(_G['reuse']),
            'json_sample_values': 'absent, 1, 2, n-1, n, n+1 for n = 1..5' + ('; 999..1002 records at the default' if tier != 'quick' else ''),
            'header_axis_tables': len(_G['hdr']), 'header_arguments': [repr(h) for h in HARGS],
            'reuse_pairs': len(_G['reuse']) ** 2,
            'append_sequences': 3 * (1 + 3 + 9) if tier == 'quick' else 6 * (1 + 6 + 36),
            'csv_forms': len(FORMS), 'encodings': [str(e) for e in ENCS], 'append_encodings': [str(e) for e in APPEND_ENCS],
            'target_kinds': KINDS, 'header_flag_combinations': len(FLAGS), 'pickle_protocols': PROTOCOLS,
            'csv_crossing': CROSSING[tier]}


def vacuity(cov, tier):
    """Every format x target kind must have been exercised, and the exclusions must not eat the space."""
    c = cov['per_case_counters']
    problems = []
    for fam in ('op:tocsv/fromcsv', 'op:totsv/fromtsv', 'op:topickle/frompickle', 'op:tojson/fromjson',
                'op:tojson(lines)/fromjson', 'op:tojsonarrays', 'op:tocsv+appendcsv x2', 'op:totsv+appendtsv x1',
                'op:topickle+appendpickle x2'):
        for kind in KINDS:
            if not c.get('%s %s' % (fam, kind)):
                problems.append('no case for %s on %s' % (fam, kind))
    excluded = sum(v for k, v in c.items() if k.startswith('excluded:'))
    if excluded > cov['evaluations']:
        problems.append('more states excluded (%d) than evaluated (%d)' % (excluded, cov['evaluations']))
    if cov['distinct_nontrivial'] * 2 < cov['evaluations']:
        problems.append('fewer than half of the evaluated states are non-trivial')
    return problems


def _slices(n, size):
    return [(lo, min(n, lo + size)) for lo in range(0, n, size)]


def items(tier, seed):
    out = []
    nS, nS2 = len(_G['S']), len(_G['S2'])
    if tier == 'quick':
        out += [('A', 'dialects', lo, hi) for lo, hi in _slices(nS, 8)]
        out += [('A', 'env', lo, hi) for lo, hi in _slices(nS, 4)]
        out += [('L', 'dialects', lo, hi) for lo, hi in _slices(len(_G['LB']), 8)]
        out += [('L', 'envlite', lo, hi) for lo, hi in _slices(len(_G['LB']), 8)]
        out += [('Z', 'zmem', lo, hi) for lo, hi in _slices(len(_G['Z']), 4)]
        out += [('Z', 'zenv', lo, hi) for lo, hi in _slices(len(_G['Z']), 4)]
        out += [('B', v, i, 'default') for v in ('data', 'hdr') for i in range(12)]
        out += [('C', 'mem', lo, hi) for lo, hi in _slices(len(_G['typed']), 120)]
    else:
        out += [('A', 'dialects', lo, hi) for lo, hi in _slices(nS, 24)]
        out += [('A', 'envlite', lo, hi) for lo, hi in _slices(nS, 16)]
        out += [('A', 'full', lo, hi) for lo, hi in _slices(nS2, 2)]
        out += [('L', 'dialects', lo, hi) for lo, hi in _slices(len(_G['LB']), 24)]
        out += [('L', 'full', lo, hi) for lo, hi in _slices(len(_G['LB2']), 2)]
        out += [('Z', 'zmem', lo, hi) for lo, hi in _slices(len(_G['Z']), 8)]
        out += [('Z', 'zfull', lo, hi) for lo, hi in _slices(len(_G['Z2']), 1)]
        out += [('B', v, i, 'all') for v in ('data', 'hdr') for i in range(12)]
        out += [('C', 'all', lo, hi) for lo, hi in _slices(len(_G['typed']), 20)]
    out += [('D', fmt, kind, i) for fmt in ('csv', 'tsv', 'pickle') for kind in KINDS
            for i in range(3 if tier == 'quick' else 6)]
    out += [('H', lo, hi) for lo, hi in _slices(len(_G['hdr']), 10 if tier == 'quick' else 25)]
    out += [('HA', fmt) for fmt in ('csv', 'tsv')]
    out += [('FS', kind) for kind in KINDS]
    out += [('DA', lo, hi) for lo, hi in _slices(len(_G['S2']), 8 if tier == 'quick' else 4)]
    out += [('R', fmt, kind) for fmt in ('csv', 'tsv', 'pickle', 'json', 'jsonarrays') for kind in KINDS]
    out += [('E', lo, hi) for lo, hi in _slices(len(_G['pickle']), 150 if tier == 'quick' else 100)]
    out += [('F', lo, hi) for lo, hi in _slices(len(_G['json']), 120 if tier == 'quick' else 200)]
    out += [('G', lo, hi) for lo, hi in _slices(len(_G['json']), 400 if tier == 'quick' else 800)]
    # simplest first inside each part; the seed rotates the order of the parts' slices
    return spaces.rotate(out, seed * 7)


def cost(item):
    p = item[0]
    if p in ('A', 'L', 'Z'):
        return {'dialects': 3, 'env': 4, 'envlite': 6, 'full': 9, 'zmem': 3, 'zenv': 4, 'zfull': 9}[item[1]]
    if p == 'B':
        return 8 if item[3] == 'all' else 2
    return {'C': 5, 'D': 2, 'DA': 3, 'R': 2, 'E': 3, 'F': 3, 'G': 1, 'H': 4, 'HA': 1, 'FS': 2}[p]


def _cfgs_A(name):
    if name == 'dialects':
        return [(fn, d, 'mem', 'utf-8', True, None) for fn, d in FORMS]
    if name == 'env':
        return [(fn, d, kind, enc, wh, hdr) for fn, d in FORMS[:2] for enc in ENCS for kind in KINDS
                for wh, hdr in (FLAGS[0], FLAGS[3])]
    if name == 'envlite':
        return [(fn, d, kind, enc, True, None) for fn, d in FORMS[:2] for enc in ENCS for kind in KINDS]
    if name == 'full':
        # every call form x codec x target kind; the header flags are crossed on the two default forms
        return [(fn, d, kind, enc, True, None) for fn, d in FORMS for enc in ENCS for kind in KINDS] + \
               [(fn, d, kind, enc, wh, hdr) for fn, d in FORMS[:2] for enc in ENCS for kind in KINDS
                for wh, hdr in FLAGS[1:]]
    rd = [(fn, d, 'mem', enc, True, None, rerr) for fn, d in FORMS[:2] for enc in Z_ENCS
          for rerr in ('replace', 'ignore')]
    if name == 'zmem':
        return [(fn, d, 'mem', enc, wh, None) for fn, d in FORMS for enc in ('utf-8', 'utf-8-sig', 'utf-16')
                for wh in (True, False)]
    if name == 'zenv':
        return [(fn, d, kind, enc, wh, hdr) for fn, d in FORMS[:2] for enc in Z_ENCS for kind in KINDS
                for wh, hdr in (FLAGS[0], FLAGS[3])] + rd
    if name == 'zfull':
        return [(fn, d, kind, enc, True, None) for fn, d in FORMS for enc in Z_ENCS for kind in KINDS] + \
               [(fn, d, kind, enc, wh, hdr) for fn, d in FORMS[:2] for enc in Z_ENCS for kind in KINDS
                for wh, hdr in FLAGS[1:]] + rd
    raise ValueError(name)


_CONTROL = set('\0\r\n\x0b\x0c\x1c\x1d\x1e')
_MAXORD = {'ascii': 127, None: 127, 'latin-1': 255}      # codecs that cannot encode everything


def _table_facts(table):
    chars = set()
    odd = False
    w = len(table[0])
    numeric = False
    for r in table:
        if len(r) != w:
            odd = True
        for c in r:
            if isinstance(c, str):
                if c == '':
                    odd = True
                chars.update(c)
            else:
                odd = True
                if ref.is_numeric_cell(c):
                    numeric = True
    maxord = max([ord(ch) for ch in chars] or [0])
    if maxord > 127 or chars & _CONTROL:
        odd = True
    return chars, odd, numeric, maxord


def _run_csv(acc, table, cfgs, part):
    chars, odd, numeric, maxord = _table_facts(table)
    rows_all = list(table)
    for cfg in cfgs:
        fn, d, kind, enc, wh, hdr = cfg[:6]
        rerr = cfg[6] if len(cfg) > 6 else None
        if maxord > _MAXORD.get(enc, 0x10ffff):
            acc.counters['excluded:not encodable'] += 1
            continue
        if numeric and d is not None and d[2] == QNN:
            if ref.has_numeric(rows_all if wh else rows_all[1:]):
                acc.counters['excluded:numeric cell under QUOTE_NONNUMERIC'] += 1
                continue
        acc.states += 1
        acc.transitions += 2
        r = csv_case(fn, table, kind, enc, wh, hdr, d, rerrors=rerr)
        if r == 'excluded':
            acc.counters['excluded:csv.writer raises csv.Error'] += 1
            continue
        acc.evals += 1
        acc.counters['op:to%s/from%s %s' % (fn, fn, kind)] += 1
        delim = d[0] if d is not None else (',' if fn == 'csv' else '\t')
        quote = d[1] if d is not None else '"'
        if odd or delim in chars or quote in chars:
            acc.nontrivial += 1
        if r is not None:
            sig, exp, obs = r
            case = {'kind': 'csv', 'fn': fn, 'table': table, 'target': kind, 'enc': enc, 'wh': wh,
                    'hdr': hdr, 'dialect': d}
            if rerr is not None:
                case['rerrors'] = rerr
            acc.violation('csv round trip (to/from csv|tsv) on %s | %s' % (_where(kind, enc), sig), case, exp, obs,
                          'to%s(%r, <%s>, encoding=%r, write_header=%r, %r) then from%s(header=%r%s)'
                          % (fn, table, kind, enc, wh, csvargs_of(d), fn, hdr,
                             '' if rerr is None else ', errors=%r' % rerr))
    acc.outcome((part, len(table), len(chars), odd))


def run_item(item, acc):
    p = item[0]
    f = _G['f']
    if p in ('A', 'L', 'Z'):
        _, name, lo, hi = item
        cfgs = _cfgs_A(name)
        if p == 'A':
            S = _G['S2'] if name == 'full' else _G['S']
        elif p == 'Z':
            S = _G['Z2'] if name == 'zfull' else _G['Z']
        else:
            S = _G['LB2'] if name == 'full' else _G['LB']
        for s in S[lo:hi]:
            for table in placements(s, f):
                _run_csv(acc, table, cfgs, p)
        acc.sample({'part': p, 'table': placements(S[lo], f)[5], 'configurations': len(cfgs)}, 1)
    elif p == 'B':
        _, variant, i, which = item
        A = _G['A']
        forms = FORMS[:2] if which == 'default' else FORMS
        cfgs = [(fn, d, 'mem', 'utf-8', True, None) for fn, d in forms]
        for b, c, d in itertools.product(A, repeat=3):
            if variant == 'data':
                table = ((f, 'k'), (A[i], b), (c, d))
            else:
                table = ((A[i], b), (c, d))
            _run_csv(acc, table, cfgs, 'B')
    elif p == 'C':
        _, which, lo, hi = item
        if which == 'mem':
            # (all header-flag / header= combinations are crossed in part H)
            cfgs = [(fn, d, 'mem', 'utf-8', wh, hdr) for fn, d in FORMS for wh, hdr in (FLAGS[0], FLAGS[3])]
        else:
            cfgs = [(fn, d, kind, 'utf-8', wh, hdr) for fn, d in FORMS for kind in KINDS for wh, hdr in FLAGS]
            cfgs += [(fn, d, kind, enc, wh, hdr) for fn, d in FORMS[:2] for enc in ENCS[1:] for kind in KINDS
                     for wh, hdr in FLAGS]
        for table in _G['typed'][lo:hi]:
            _run_csv(acc, table, cfgs, 'C')
        acc.sample({'part': 'C', 'table': _G['typed'][lo], 'configurations': len(cfgs)}, 1)
    elif p == 'D':
        _run_append(acc, item[1], item[2], item[3])
    elif p == 'FS':
        _run_json_sample(acc, item[1])
    elif p == 'H':
        _run_header_axis(acc, item[1], item[2])
    elif p == 'HA':
        _run_header_append(acc, item[1])
    elif p == 'DA':
        _run_append_dialects(acc, item[1], item[2])
    elif p == 'R':
        _run_reuse(acc, item[1], item[2])
    elif p == 'E':
        _run_pickle(acc, item[1], item[2])
    elif p == 'F':
        _run_json(acc, item[1], item[2])
    elif p == 'G':
        _run_jsonarrays(acc, item[1], item[2])
    else:
        raise ValueError(item)


def _do_append(acc, fmt, seq, whs, kind, enc, d, pr, prior=None, hdr=None):
    """One to* (+ append*) sequence on one target; counts, excludes, records."""
    k = len(seq) - 1
    cat = ref.concat_rows(seq[0], whs[0], list(zip(seq[1:], whs[1:])))
    nappended = len(cat) - len(ref.written_rows(seq[0], whs[0]))
    if fmt != 'pickle':
        rows = cat + (list(prior) if prior is not None else [])
        if not ref.encodable(rows, enc):
            acc.counters['excluded:not encodable'] += 1
            return
        if d is not None and d[2] == QNN and ref.has_numeric(rows):
            acc.counters['excluded:numeric cell under QUOTE_NONNUMERIC'] += 1
            return
    acc.states += 1
    acc.transitions += k + 3 + (1 if prior is not None else 0)
    r = append_case(fmt, list(seq), list(whs), kind, enc, d, pr, prior=prior, hdr=hdr)
    if r == 'excluded':
        acc.counters['excluded:csv.writer raises csv.Error'] += 1
        return
    acc.evals += 1
    acc.counters['op:%sto%s+append%s x%d %s' % ('reused target: ' if prior is not None else '', fmt, fmt, k, kind)] += 1
    if nappended or prior is not None:
        acc.nontrivial += 1
    acc.outcome(('D', len(cat), nappended, k, prior is not None))
    if r is not None:
        sig, exp, obs = r
        case = {'kind': 'append', 'fmt': fmt, 'tables': list(seq), 'whs': list(whs), 'target': kind,
                'enc': enc, 'dialect': d, 'protocol': pr}
        what = 'append (to* + append*)'
        if hdr is not None:
            case['hdr'] = hdr
        if prior is not None:
            case['prior'] = prior
            what = 'append on a reused target (to*, to* [+ append*] on one target)'
        acc.violation('%s %s on %s | %s' % ('pickle' if fmt == 'pickle' else 'csv', what, _where(kind, enc), sig),
                      case, exp, obs,
                      '%sto%s then %d x append%s (write_header flags %r) on a %s target, encoding=%r, %r%s'
                      % ('to%s(%r) on the same target, then ' % (fmt, prior) if prior is not None else '',
                         fmt, k, fmt, tuple(whs), kind, enc, csvargs_of(d) if fmt != 'pickle' else {'protocol': pr},
                         '' if hdr is None else ', read back with header=%r' % (hdr,)))


def _run_header_axis(acc, lo, hi):
    """Part H: write_header x the reader's header= argument (absent, empty, 1-3 names) on tables incl. zero-field
    header rows; every call form on MemorySource, the default forms on every target kind x 3 codecs."""
    cfgs = [(fn, d, 'mem', 'utf-8', wh, h) for fn, d in FORMS for wh in (True, False) for h in HARGS]
    cfgs += [(fn, d, kind, enc, wh, h) for fn, d in FORMS[:2] for kind in KINDS for enc in ('utf-8', 'utf-16', None)
             for wh in (True, False) for h in HARGS if not (kind == 'mem' and enc == 'utf-8')]
    for table in _G['hdr'][lo:hi]:
        _run_csv(acc, table, cfgs, 'H')
    acc.sample({'part': 'H', 'table': _G['hdr'][lo], 'configurations': len(cfgs)}, 1)


def _run_header_append(acc, fmt):
    """Part HA: to* + append* of tables with zero-field / ordinary header rows, read back with every header=."""
    f = _G['f']
    firsts = [((),), ((), (f, 'k')), ((f, 'k'),), ((f, 'k'), ('r1',))]
    later = [((), ('c',)), ((), (), (f,)), ((f, 'k'), ('a1', 'a2'))]
    kinds = KINDS if _G['tier'] != 'quick' else ('mem', 'path')
    for t0 in firsts:
        for t1 in later:
            for whs in itertools.product((True, False), repeat=2):
                for h in HARGS:
                    for kind in kinds:
                        _do_append(acc, fmt, (t0, t1), whs, kind, 'utf-8', None, None, hdr=h)


def _run_append(acc, fmt, kind, first):
    """Part D: every sequence to* + 0..2 append* over the base tables x write_header flags x codecs/dialects."""
    tabs = _G['app']
    thorough = _G['tier'] != 'quick'
    if fmt == 'pickle':
        axes = [(None, None, pr) for pr in PROTOCOLS]
    else:
        dialects = [None, (';', "'", QA)] + ([('|', '"', QM), (',', '"', QNN)] if thorough else [])
        axes = [(enc, d, None) for d in dialects for enc in APPEND_ENCS]
        if fmt == 'csv' and (thorough or kind in ('mem', 'gz')):
            # every explicit dialect (utf-8); the tsv functions only add a default on top
            axes += [('utf-8', d, None) for d in DIALECTS if d not in dialects]
    later = tabs if thorough else tabs[3:]
    seqs = [(tabs[first],) + rest for k in range(0, 3) for rest in itertools.product(later, repeat=k)]
    for seq in seqs:
        for whs in itertools.product((True, False), repeat=len(seq)):
            for enc, d, pr in axes:
                _do_append(acc, fmt, seq, whs, kind, enc, d, pr)
    acc.sample({'part': 'D', 'format': fmt, 'target': kind, 'sequences': len(seqs)}, 1)


def _run_append_dialects(acc, lo, hi):
    """Part DA: hostile cell text in the written and in the appended table x every csv call form."""
    f = _G['f']
    thorough = _G['tier'] != 'quick'
    for s in _G['S2'][lo:hi]:
        t0 = ((f, 'k'), (s, f))
        t1 = ((f, 'k'), (f, s))
        for fn, d in FORMS:
            for kind in (KINDS if thorough else ('mem', 'gz')):
                for whs in ((True, False), (True, True), (False, False)):
                    _do_append(acc, fn, (t0, t1), whs, kind, 'utf-8', d, None)
    acc.sample({'part': 'DA', 'tables': [((f, 'k'), (_G['S2'][lo], f)), ((f, 'k'), (f, _G['S2'][lo]))],
                'call_forms': len(FORMS)}, 1)


def sample_table(f, n, ragged=False):
    """n distinguishable records; with ragged=True every third row is short and every fourth over-long."""
    rows = []
    for i in range(n):
        r = (i, 's%d' % i)
        if ragged and i % 3 == 1:
            r = r[:1]
        if ragged and i % 4 == 2:
            r = r + ('L',)
        rows.append(r)
    return ((f, 'k'),) + tuple(rows)


def _run_json_sample(acc, kind):
    """Part FS: the reader's `sample` argument (how many records are inspected for field names) as a boundary
    axis: sample in {1, 2, n-1, n, n+1} against n records, array and lines form, header= absent / given; in
    thorough one sweep at the default sample size (1000) with 999..1002 records."""
    f = _G['f']
    jobs = []
    for n in range(1, 6):
        for ragged in (False, True):
            table = sample_table(f, n, ragged)
            for smp in sorted(set([1, 2, n - 1, n, n + 1]) - set([0])):
                jobs.append((table, None, smp))
            jobs.append((table, None, None))
    if _G['tier'] != 'quick' and kind == 'mem':
        for n in (999, 1000, 1001, 1002):
            for smp in (None, 1000, n - 1, 1):
                jobs.append((sample_table(f, n), n, smp))
    for table, nrec, smp in jobs:
        for lines in (False, True):
            for hm in ('none', 'same', 'reversed'):
                acc.states += 1
                acc.transitions += 2
                acc.evals += 1
                acc.nontrivial += 1
                acc.counters['op:tojson%s/fromjson(sample=) %s' % ('(lines)' if lines else '', kind)] += 1
                r = json_case(table, kind, lines, None, hm, sample=smp)
                acc.outcome(('FS', len(table), smp, lines))
                if r is not None:
                    sig, exp, obs = r
                    case = {'kind': 'json', 'target': kind, 'lines': lines, 'ensure_ascii': None, 'hdrmode': hm,
                            'sample': smp}
                    if nrec is None:
                        case['table'] = table
                    else:
                        case['nrecords'] = nrec
                        exp, obs = 'the %d written records' % nrec, '%s rows' % (len(obs) if isinstance(obs, list) else obs)
                    acc.violation('tojson%s/fromjson(sample=) on %s | %s'
                                  % ('(lines=True)' if lines else '', _where(kind), sig), case, exp, obs,
                                  'tojson(<%d records>, <%s>, lines=%r) then fromjson(sample=%r, header: %s)'
                                  % (len(table) - 1, kind, lines, smp, hm))


def reuse_tables(seed):
    """Tables whose renderings have clearly different lengths (the second to* is longer / equal / shorter)."""
    a = alphabet(seed)
    f = filler(seed)
    hdr = (f, 'k')
    return [(hdr,), (hdr, ('u1', a[8] + ' "q"')), (hdr, ('v1', 'v2'), ('v3', 'line\nbreak')),
            (hdr, ('w1', 'a much longer cell text ' * 3), ('w2', ''), ('w3', 'w4'), ('w5', 'w6'))]


def _run_reuse(acc, fmt, kind):
    """Part R: the same source object / path written by to* twice (first longer, equal, shorter), then read
    back, and then appended to: the second to* must replace the first completely."""
    U = _G['reuse']
    pairs = [(p, t) for p in U for t in U]
    if fmt in ('csv', 'tsv'):
        dialects = [None] if fmt == 'tsv' else [None, (';', "'", QA), ('|', '"', QN)]
        for prior, table in pairs:
            for d in dialects:
                for enc in ('utf-8', 'utf-16', None):
                    for wh in (True, False):
                        _do_append(acc, fmt, (table,), (wh,), kind, enc, d, None, prior=prior)
                        for t3 in U[1:3]:
                            _do_append(acc, fmt, (table, t3), (wh, False), kind, enc, d, None, prior=prior)
    elif fmt == 'pickle':
        for prior, table in pairs:
            for pr in PROTOCOLS:
                for wh in (True, False):
                    _do_append(acc, fmt, (table,), (wh,), kind, None, None, pr, prior=prior)
                    for t3 in U[1:3]:
                        _do_append(acc, fmt, (table, t3), (wh, False), kind, None, None, pr, prior=prior)
    else:
        for prior, table in pairs:
            if len(table) < 2 or len(prior) < 2:
                continue          # json: at least one data row
            for flag in (False, True):
                acc.states += 1
                acc.transitions += 3
                acc.evals += 1
                acc.nontrivial += 1
                acc.counters['op:reused target: to%s %s' % (fmt, kind)] += 1
                if fmt == 'json':
                    r = json_case(table, kind, flag, None, 'none', prior=prior)
                    case = {'kind': 'json', 'table': table, 'target': kind, 'lines': flag, 'ensure_ascii': None,
                            'hdrmode': 'none', 'prior': prior}
                else:
                    r = jsonarrays_case(table, kind, flag, None, prior=prior)
                    case = {'kind': 'jsonarrays', 'table': table, 'target': kind, 'output_header': flag,
                            'ensure_ascii': None, 'prior': prior}
                acc.outcome(('R', fmt, len(prior), len(table)))
                if r is not None:
                    sig, exp, obs = r
                    acc.violation('%s target reuse (to*, to* on one target) on %s | %s' % (fmt, _where(kind), sig),
                                  case, exp, obs, 'to%s(%r) then to%s(%r) on the same %s target (flag %r)'
                                  % (fmt, prior, fmt, table, kind, flag))


def _nonstr_or_ragged(table):
    w = len(table[0])
    return any(len(r) != w or any(not isinstance(c, str) for c in r) for r in table)


def _run_pickle(acc, lo, hi):
    for table in _G['pickle'][lo:hi]:
        nt = _nonstr_or_ragged(table)
        for kind in KINDS:
            for wh in (True, False):
                for pr in PROTOCOLS:
                    acc.states += 1
                    acc.transitions += 2
                    acc.evals += 1
                    acc.counters['op:topickle/frompickle %s' % kind] += 1
                    if nt:
                        acc.nontrivial += 1
                    r = pickle_case(table, kind, wh, pr)
                    if r is not None:
                        sig, exp, obs = r
                        case = {'kind': 'pickle', 'table': table, 'target': kind, 'wh': wh, 'protocol': pr}
                        acc.violation('topickle/frompickle on %s | %s' % (_where(kind), sig), case, exp, obs,
                                      'topickle(%r, <%s>, protocol=%r, write_header=%r)' % (table, kind, pr, wh))
        acc.outcome(('E', len(table), nt, repr(table[-1])[:40]))
    acc.sample({'part': 'E', 'table': _G['pickle'][lo]}, 1)


def _run_json(acc, lo, hi):
    thorough = _G['tier'] != 'quick'
    for table in _G['json'][lo:hi]:
        nt = _nonstr_or_ragged(table)
        w = len(table[0])
        hdrmodes = ('none', 'same', 'reversed') if w > 1 else ('none', 'same')
        for lines in (False, True):
            for ea in (None, False):
                for kind in KINDS:
                    for hm in hdrmodes:
                        if not thorough and kind != 'mem' and (hm != 'none' or ea is not None):
                            continue     # quick: header modes / ensure_ascii crossed on MemorySource only
                        acc.states += 1
                        acc.transitions += 2
                        acc.evals += 1
                        acc.counters['op:tojson%s/fromjson %s' % ('(lines)' if lines else '', kind)] += 1
                        if nt:
                            acc.nontrivial += 1
                        r = json_case(table, kind, lines, ea, hm)
                        if r is not None:
                            sig, exp, obs = r
                            case = {'kind': 'json', 'table': table, 'target': kind, 'lines': lines,
                                    'ensure_ascii': ea, 'hdrmode': hm}
                            acc.violation('tojson%s/fromjson on %s | %s'
                                          % ('(lines=True)' if lines else '', _where(kind), sig), case, exp, obs,
                                          'tojson(%r, <%s>, lines=%r, ensure_ascii=%r) then fromjson(header: %s)'
                                          % (table, kind, lines, ea, hm))
        acc.outcome(('F', len(table), w, nt, repr(table[-1])[:40]))
    acc.sample({'part': 'F', 'table': _G['json'][lo]}, 1)


def _run_jsonarrays(acc, lo, hi):
    for table in _G['json'][lo:hi]:
        nt = _nonstr_or_ragged(table)
        for kind in KINDS:
            for oh in (False, True):
                for ea in (None, False):
                    acc.states += 1
                    acc.transitions += 1
                    acc.evals += 1
                    acc.counters['op:tojsonarrays %s' % kind] += 1
                    if nt:
                        acc.nontrivial += 1
                    r = jsonarrays_case(table, kind, oh, ea)
                    if r is not None:
                        sig, exp, obs = r
                        case = {'kind': 'jsonarrays', 'table': table, 'target': kind, 'output_header': oh,
                                'ensure_ascii': ea}
                        acc.violation('tojsonarrays on %s | %s' % (_where(kind), sig), case, exp, obs,
                                      'tojsonarrays(%r, <%s>, output_header=%r, ensure_ascii=%r)' % (table, kind, oh, ea))
        acc.outcome(('G', len(table), nt))
