"""C18 — temporary files live exactly as long as something can still read them.

E1: all histories of open(i) / next(i) / drop(i) / dropview on up to 2 (3: deviation-bounded) iterators of
a sort-backed view whose chunk files go to a private directory, for every (nrows, buffersize, cache,
reverse, source-failure position, warm start); every other sort-backed operator and fromdicts(generator)
with buffersize=1 / config default 1.
State invariant (every node): nothing alive (view reference and all iterators released)  =>  both private
temp directories are empty.  Step oracle: every next(i) — also after dropview and on passes served from the
file cache — returns what a solo pass over a freshly built identical view returns at that position
(including the injected source failure), never an error from a vanished chunk file.
"""
import gc
import operator
import os
import shutil
import tempfile
from collections import OrderedDict

import petl as etl
import petl.config

from .. import catalogue as C
from .. import env
from .. import explore
from ..sources import FailingTable, freeze

ID = 'C18'
LEVEL = 'model_checking'
ENGINE = 'E1 stateless history explorer on live petl views + private temp directories'
RULE = ('events open/next/drop(i)/dropview on <=2 iterators (all interleavings) or 3 (deviation-bounded; with the '
        'open/next alphabet alone up to 2 mid-pass switches, 3 thorough); '
        'configuration = (operator, nrows, buffersize, cache, reverse, failing source position, warm start, '
        'config default); node = event history; invariant evaluated in every node. A node is non-trivial when '
        'chunk/spill files exist on disk in it or when everything has been released after files had existed')
ASSUMPTIONS = ['CPython reference counting + gc.collect() after every release event (the rc configurations: reference counting alone)',
               'chunk files are observed through tempdir= and a pinned tempfile.tempdir; file names are not compared']


class Unpicklable(object):
    """A cell value that cannot be written to a chunk file (stable repr, so worlds stay comparable)."""

    def __reduce__(self):
        raise TypeError('this cell cannot be pickled')

    def __repr__(self):
        return 'Unpicklable()'

    def __eq__(self, other):
        return isinstance(other, Unpicklable)

    def __hash__(self):
        return 7


# one cell OBJECT shared by all rows / records (a constant status text, a non-None fill value ...): whatever writes the
# rows to a chunk or spill file must write each row so that it can be read back on its own
SHARED = ('shared cell', 'same object in every row')


def _rows(cfg):
    rows = C.rows('g', cfg['n'])
    if cfg.get('shared'):
        rows = [(r[0], r[1], SHARED) for r in rows]
    return rows


def _tables(cfg, fail):
    n = cfg['n']
    rows = _rows(cfg)
    up = cfg.get('unpick')
    if up is not None and 1 <= up <= n:
        # the failure happens while a chunk is being WRITTEN (not while the source is read)
        r = rows[up - 1]
        rows[up - 1] = (r[0], r[1], Unpicklable())
    t1 = FailingTable(C.HEADERS['g'], rows, fail)
    return t1


def _kw(cfg, D):
    kw = {'tempdir': D, 'cache': cfg.get('cache', True)}
    if not cfg.get('cfgdefault'):
        kw['buffersize'] = cfg['b']
    return kw


def _agg():
    return OrderedDict([('n', len), ('vs', ('v', list))])


def _reducer(key, rows):
    return [key, sum(r[1] for r in rows)]


def _gmap(key, rows):
    for r in rows:
        yield (key, r[1])


OPS = OrderedDict([
    ('sort', lambda t, u, kw: etl.sort(t, 'k', **kw)),
    ('sort(reverse)', lambda t, u, kw: etl.sort(t, 'k', reverse=True, **kw)),
    ('sort(lexical)', lambda t, u, kw: etl.sort(t, **kw)),
    # key on the last field: the key order differs from the native order of whole rows
    ('sort(x)', lambda t, u, kw: etl.sort(t, 'x', **kw)),
    ('mergesort', lambda t, u, kw: etl.mergesort(t, u['same'], key='k', **kw)),
    ('join', lambda t, u, kw: etl.join(t, u['g2'], key='k', **kw)),
    ('leftjoin', lambda t, u, kw: etl.leftjoin(t, u['g2'], key='k', **kw)),
    ('rightjoin', lambda t, u, kw: etl.rightjoin(t, u['g2'], key='k', **kw)),
    ('outerjoin', lambda t, u, kw: etl.outerjoin(t, u['g2'], key='k', **kw)),
    ('antijoin', lambda t, u, kw: etl.antijoin(t, u['g2'], key='k', **kw)),
    ('lookupjoin', lambda t, u, kw: etl.lookupjoin(t, u['g2'], key='k', **kw)),
    ('unjoin[0]', lambda t, u, kw: etl.unjoin(t, 'k', **kw)[0]),
    ('unjoin[1]', lambda t, u, kw: etl.unjoin(t, 'k', **kw)[1]),
    ('unjoin(key)[0]', lambda t, u, kw: etl.unjoin(t, 'v', key='k', **kw)[0]),
    ('unjoin(key)[1]', lambda t, u, kw: etl.unjoin(t, 'v', key='k', **kw)[1]),
    ('complement', lambda t, u, kw: etl.complement(t, u['same'], **kw)),
    ('intersection', lambda t, u, kw: etl.intersection(t, u['same'], **kw)),
    ('diff[0]', lambda t, u, kw: etl.diff(t, u['same'], **kw)[0]),
    ('diff[1]', lambda t, u, kw: etl.diff(t, u['same'], **kw)[1]),
    ('recordcomplement', lambda t, u, kw: etl.recordcomplement(t, u['perm'], **kw)),
    ('recorddiff[0]', lambda t, u, kw: etl.recorddiff(t, u['perm'], **kw)[0]),
    ('duplicates', lambda t, u, kw: etl.duplicates(t, 'k', **kw)),
    ('unique', lambda t, u, kw: etl.unique(t, 'k', **kw)),
    ('conflicts', lambda t, u, kw: etl.conflicts(t, 'k', **kw)),
    ('distinct', lambda t, u, kw: etl.distinct(t, 'k', **kw)),
    ('distinct(count)', lambda t, u, kw: etl.distinct(t, 'k', count='n', **kw)),
    ('rowreduce', lambda t, u, kw: etl.rowreduce(t, 'k', _reducer, header=['k', 's'], **kw)),
    ('aggregate(simple)', lambda t, u, kw: etl.aggregate(t, 'k', len, **kw)),
    ('aggregate(multi)', lambda t, u, kw: etl.aggregate(t, 'k', _agg(), **kw)),
    ('mergeduplicates', lambda t, u, kw: etl.mergeduplicates(t, 'k', **kw)),
    ('merge', lambda t, u, kw: etl.merge(t, u['g2'], key='k', **kw)),
    ('fold', lambda t, u, kw: etl.fold(t, 'k', operator.add, 'v', **kw)),
    ('groupselectfirst', lambda t, u, kw: etl.groupselectfirst(t, 'k', **kw)),
    ('groupselectlast', lambda t, u, kw: etl.groupselectlast(t, 'k', **kw)),
    ('groupselectmin', lambda t, u, kw: etl.groupselectmin(t, 'k', 'v', **kw)),
    ('groupselectmax', lambda t, u, kw: etl.groupselectmax(t, 'k', 'v', **kw)),
    ('groupcountdistinctvalues', lambda t, u, kw: etl.groupcountdistinctvalues(t, 'k', 'v')),
    ('pivot', lambda t, u, kw: etl.pivot(t, 'k', 'v', 'v', sum, **kw)),
    ('rowgroupmap', lambda t, u, kw: etl.rowgroupmap(t, 'k', _gmap, header=['k', 'v'], **kw)),
    ('recast', lambda t, u, kw: etl.recast(etl.melt(t, 'k'), key='k')),
    ('fromdicts(gen)', None),
    ('fromdicts(gen,header)', None),
])


class Harness(object):
    def __init__(self, cfg, tag=''):
        self.cfg = dict(cfg)
        self.k = cfg['k']
        base = os.path.join(env.worker_dir(), 'c18' + tag)
        self.D = os.path.join(base, 'explicit')
        self.D2 = os.path.join(base, 'default')
        shutil.rmtree(base, ignore_errors=True)
        os.makedirs(self.D)
        os.makedirs(self.D2)
        self.others = {kd: C.table(kd, 2) for kd in ('g2', 'same', 'perm')}
        gc.disable()   # collections happen only at the explicit release events: deterministic
        self.makesfiles = False
        self.E = self._solo()

    # -- world -------------------------------------------------------------------------------
    def _build(self):
        cfg = self.cfg
        tempfile.tempdir = self.D2
        petl.config.sort_buffersize = cfg['b'] if cfg.get('cfgdefault') else 100000
        name = cfg['op']
        if name.startswith('fromdicts'):
            rows = [dict(zip(C.HEADERS['g'], r)) for r in _rows(cfg)]
            fail = cfg.get('fail')

            def gen():
                for i, d in enumerate(rows):
                    if fail is not None and fail == i + 1:
                        raise FailingTable.Boom('injected failure at dict %d' % i)
                    yield d
                if fail is not None and fail == len(rows) + 1:
                    raise FailingTable.Boom('injected failure at exhaustion')
            if name == 'fromdicts(gen,header)':
                return etl.fromdicts(gen(), header=['k', 'v', 'x'])
            return etl.fromdicts(gen(), sample=1)
        t = _tables(cfg, cfg.get('fail'))
        return OPS[name](t, self.others, _kw(cfg, self.D))

    def _collect(self):
        # 'rc' configurations: releasing the last reference must be enough (CPython reference counting alone, no
        # cyclic collection) - a chunk-file wrapper that is part of a reference cycle outlives its view (wave 9)
        if not self.cfg.get('rc'):
            gc.collect()

    def _files(self):
        return len(env.listing(self.D)) + len(env.listing(self.D2))

    def _solo(self):
        """Observation sequence of a solo pass over a freshly built identical view."""
        out = []
        for _ in range(2):
            v = self._build()
            seq = []
            try:
                it = iter(v)
                while True:
                    try:
                        seq.append(('item', freeze(next(it))))
                        if self._files():
                            self.makesfiles = True
                    except StopIteration:
                        seq.append(('stop',))
                        break
                    except Exception as e:
                        seq.append(('exc', type(e).__name__))
                        break
            finally:
                it = None
                v = None
                gc.collect()
            out.append(seq)
        if out[0] != out[1]:
            raise RuntimeError('solo pass not deterministic for %r' % (self.cfg,))
        if self._files():
            # the solo reference itself leaked: report through the invariant, not here
            for d in (self.D, self.D2):
                for f in env.listing(d):
                    os.unlink(os.path.join(d, f))
        return out[0]

    def reset(self):
        for d in (self.D, self.D2):
            for f in env.listing(d):
                os.unlink(os.path.join(d, f))
        w = {'view': self._build(), 'its': {}, 'pos': {}, 'done': {}, 'opened': 0, 'last': None,
             'lastpos': None, 'hadfiles': False}
        warm = self.cfg.get('warm', 'cold')
        if warm == 'afterfull':
            try:
                for _ in w['view']:
                    pass
            except FailingTable.Boom:
                pass
        elif warm == 'afterpartial':
            try:
                it = iter(w['view'])
                next(it)
                next(it)
            except (StopIteration, FailingTable.Boom):
                pass
            it = None
        return w

    def close(self, w):
        w['its'].clear()
        w['view'] = None

    @staticmethod
    def _mid(w, i):
        return i is not None and i in w['its'] and w['pos'].get(i, 0) >= 1 and not w['done'].get(i, False)

    def enabled(self, w):
        last = w['last']
        cost = 1 if self._mid(w, last) else 0
        out = []
        # 'alphabet': 'opennext' keeps every reference alive until the history ends (three-iterator schedules over
        # the cached paths are about what the SURVIVING iterators yield; releases are covered by the other configs)
        drops = self.cfg.get('alphabet') != 'opennext'
        if last is not None and last in w['its']:
            if not w['done'][last]:
                out.append((('next', last), 0))
            if drops:
                out.append((('drop', last), 0))
        for i in sorted(w['its']):
            if i != last:
                if not w['done'][i]:
                    out.append((('next', i), cost))
                if drops:
                    out.append((('drop', i), cost))
        if w['view'] is not None:
            if w['opened'] < self.k:
                out.append((('open', w['opened']), cost))
            if drops:
                out.append((('dropview', -1), cost))
            if self.cfg.get('clear') and not w.get('cleared') and hasattr(w['view'], 'clearcache'):
                out.append((('clear', -1), 0))     # the public clearcache(), once, at any point
        return out

    def apply(self, w, ev):
        kind, i = ev
        if kind == 'open':
            try:
                w['its'][i] = iter(w['view'])
                obs = ('opened',)
            except Exception as e:
                w['its'][i] = iter(())
                obs = ('exc-at-iter', type(e).__name__, env.excmsg(e))
            w['pos'][i] = 0
            w['done'][i] = False
            w['opened'] += 1
            w['last'] = i
        elif kind == 'next':
            w['lastpos'] = w['pos'][i]
            try:
                item = next(w['its'][i])
                obs = ('item', freeze(item))
                w['pos'][i] += 1
            except StopIteration:
                obs = ('stop',)
                w['done'][i] = True
            except Exception as e:
                obs = ('exc', type(e).__name__)
                w['done'][i] = True
                if obs == ('exc', 'Boom'):
                    w['boomed'] = True
            w['last'] = i
        elif kind == 'clear':
            w['cleared'] = True
            w['view'].clearcache()
            self._collect()
            obs = ('cleared',)
        elif kind == 'drop':
            del w['its'][i]
            self._collect()
            obs = ('dropped',)
            if w['last'] == i:
                w['last'] = None
        else:
            w['view'] = None
            self._collect()
            obs = ('viewdropped',)
        return obs

    def step_check(self, w, ev, obs):
        kind, i = ev
        if kind == 'open' and obs != ('opened',):
            return ('iterator', obs, 'iter(view) raised')
        if kind == 'next':
            p = w['lastpos']
            exp = self.E[p] if p < len(self.E) else ('stop',)
            if (obs != exp and self.cfg['op'].startswith('fromdicts') and w.get('boomed')
                    and exp == ('exc', 'Boom') and obs == ('stop',)):
                # a generator source that has raised once is finished: the failure cannot recur
                return None
            if obs != exp:
                what = ('raised %s' % obs[1]) if obs[0] == 'exc' else 'differs'
                return (exp, obs, 'surviving iterator %s' % what)
        return None

    def node_check(self, w, hist):
        if w['view'] is None and not w['its']:
            self._collect()
            left = env.listing(self.D) + env.listing(self.D2)
            if left:
                return ([], ['%d file(s) left' % len(left)],
                        'temporary files outlive view and iterators')
        return None

    def abstract(self, w):
        return (tuple(sorted(w['pos'].items())), tuple(sorted(w['done'].items())), tuple(sorted(w['its'])),
                w['view'] is None, self._files())

    def nontrivial(self, w, hist):
        if self._files() > 0:
            return True
        # everything released after a pass had got far enough to create chunk / spill files
        return w['view'] is None and not w['its'] and self.makesfiles and any(p >= 2 for p in w['pos'].values())


def _cfgs(tier):
    out = []
    quick = tier == 'quick'

    def sortcfgs(n, bound, warms=('cold', 'afterfull')):
        for b in range(1, n + 2):
            for cache in (True, False):
                for fail in [None] + list(range(0, n + 2)):
                    for warm in warms:
                        if fail is not None and warm != 'cold' and warms != ('afterfull',):
                            continue
                        if fail is not None and warm != 'cold':
                            continue
                        out.append({'op': 'sort', 'n': n, 'b': b, 'cache': cache, 'fail': fail, 'k': 2,
                                    'warm': warm, 'bound': bound})
    # sort: full configuration cross-product; all interleavings of two iterators
    sortcfgs(0, None)
    sortcfgs(1, None, warms=('cold',))
    sortcfgs(1, 1 if quick else None, warms=('afterfull',))
    sortcfgs(2, 1 if quick else None)
    if not quick:
        sortcfgs(3, 1, warms=('cold',))
    # a row that cannot be pickled: the pass dies while a chunk file is being written
    for b in (1, 2):
        for up in (1, 2):
            for cache in (True, False):
                out.append({'op': 'sort', 'n': 2, 'b': b, 'cache': cache, 'fail': None, 'unpick': up, 'k': 2,
                            'warm': 'cold', 'bound': 1 if quick else None})
    # release by reference counting alone (no gc.collect() at the release events)
    for b in (1, 2, 3):
        for cache in (True, False):
            for warm in ('cold', 'afterfull'):
                out.append({'op': 'sort', 'n': 2, 'b': b, 'cache': cache, 'fail': None, 'k': 2, 'warm': warm,
                            'bound': 1 if quick else None, 'rc': True})
    for name in ('join', 'distinct', 'aggregate(multi)', 'mergesort', 'complement'):
        out.append({'op': name, 'n': 2, 'b': 1, 'cache': True, 'fail': None, 'unpick': 2, 'k': 2, 'warm': 'cold',
                    'bound': 0 if quick else 1, 'cfgdefault': False})
    for n in (1, 2):
        out.append({'op': 'sort(reverse)', 'n': n, 'b': 1, 'cache': True, 'fail': None, 'k': 2, 'warm': 'cold',
                    'bound': None if n == 1 else 1})
    # three iterators (sequential passes with every release order; mid-pass switches in thorough)
    for cache in (True, False):
        if quick and cache:
            out.append({'op': 'sort', 'n': 1, 'b': 1, 'cache': True, 'fail': None, 'k': 3, 'warm': 'cold',
                        'bound': 0})
        if not quick:
            out.append({'op': 'sort', 'n': 1, 'b': 1, 'cache': cache, 'fail': None, 'k': 3, 'warm': 'cold',
                        'bound': 1})
            out.append({'op': 'sort', 'n': 2, 'b': 1, 'cache': cache, 'fail': None, 'k': 3, 'warm': 'cold',
                        'bound': 0})
    # three iterators over the cached paths, open/next only (every reference stays alive): an iterator obtained from
    # the file cache while another one, opened before anything was cached, is still to start (and will clear the
    # cache), and a third finishes or goes on - what each of them yields must not depend on the other two
    for name in ('sort(x)', 'sort(reverse)'):
        for b in (1, 2):
            for cache in (True, False):
                out.append({'op': name, 'n': 2, 'b': b, 'cache': cache, 'fail': None, 'k': 3, 'warm': 'cold',
                            'bound': 2 if quick else 3, 'alphabet': 'opennext'})
        if not quick:
            out.append({'op': name, 'n': 3, 'b': 2, 'cache': True, 'fail': None, 'k': 3, 'warm': 'cold',
                        'bound': 2, 'alphabet': 'opennext'})
    for name in (() if quick else ('join', 'distinct', 'aggregate(multi)', 'mergesort', 'complement', 'unique')):
        out.append({'op': name, 'n': 2, 'b': 1, 'cache': True, 'fail': None, 'k': 3, 'warm': 'cold',
                    'bound': 2, 'alphabet': 'opennext', 'cfgdefault': False})
    # clearcache() while iterators served from the file cache are alive: whoever finishes first must not take the
    # chunk files away from the others
    for name in ('sort(x)', 'sort(reverse)'):
        for warm in ('cold', 'afterfull'):
            out.append({'op': name, 'n': 2, 'b': 1, 'cache': True, 'fail': None, 'k': 2, 'warm': warm,
                        'bound': 2 if quick else None, 'alphabet': 'opennext', 'clear': True})
        if not quick:
            out.append({'op': name, 'n': 2, 'b': 1, 'cache': True, 'fail': None, 'k': 3, 'warm': 'afterfull',
                        'bound': 2, 'alphabet': 'opennext', 'clear': True})
            out.append({'op': name, 'n': 2, 'b': 1, 'cache': True, 'fail': None, 'k': 2, 'warm': 'afterfull',
                        'bound': 1, 'clear': True})
    # rows sharing one cell object: passes served from the chunk / spill files must read every row back
    for name in ('sort', 'sort(x)', 'fromdicts(gen)', 'fromdicts(gen,header)', 'join', 'distinct'):
        for warm in ('cold', 'afterfull'):
            out.append({'op': name, 'n': 2, 'b': 1, 'cache': True, 'fail': None, 'k': 2, 'warm': warm,
                        'bound': 1 if quick else None, 'shared': True, 'cfgdefault': False})
    # every other sort-backed operator: explicit buffersize=1, and via the config default
    for name in OPS:
        if name in ('sort', 'sort(reverse)', 'sort(x)'):
            continue
        for cfgdefault in (False, True):
            if name.startswith('fromdicts') and cfgdefault:
                continue
            for fail in (None, 2):
                for cache in ((True, False) if fail is None else (True,)):
                    out.append({'op': name, 'n': 2, 'b': 1, 'cache': cache, 'fail': fail, 'k': 2, 'warm': 'cold',
                                'bound': 0 if quick else 1, 'cfgdefault': cfgdefault})
        if not quick:
            out.append({'op': name, 'n': 2, 'b': 1, 'cache': True, 'fail': None, 'k': 2, 'warm': 'afterfull',
                        'bound': 1, 'cfgdefault': False})
        if name.startswith('fromdicts'):
            # spill file created but never (or hardly) filled: empty generator, failure at the first dict
            for n in (0, 1):
                for fail in [None] + list(range(1, n + 2)):
                    if name == 'fromdicts(gen)' and (n == 0 or fail == 1):
                        continue    # no dict is ever seen: the header cannot be discovered (undocumented)
                    out.append({'op': name, 'n': n, 'b': 1, 'cache': True, 'fail': fail, 'k': 2, 'warm': 'cold',
                                'bound': None, 'cfgdefault': False})
            if name != 'fromdicts(gen)':
                out.append({'op': name, 'n': 2, 'b': 1, 'cache': True, 'fail': 1, 'k': 2, 'warm': 'cold',
                            'bound': 0 if quick else 1, 'cfgdefault': False})
    return out


def items(tier, seed):
    out = _cfgs(tier)
    k = seed % len(out)
    return out[k:] + out[:k]


def cost(item):
    c = (item['n'] + 1) ** 3 * (8 if item['k'] == 3 else 1) * {None: 8, 0: 1, 1: 4}.get(item['bound'], 8)
    if item.get('fail') is not None:
        c /= 4
    if item.get('alphabet') == 'opennext':
        c /= 40
    if item['op'] not in ('sort', 'sort(reverse)', 'sort(lexical)', 'sort(x)'):
        c *= 6
    return c


def bounds(tier, seed):
    return {'operators': list(OPS), 'iterators': '<=2 all interleavings; 3 with deviation bound',
            'nrows': '0..2 quick, 0..3 thorough', 'buffersize': '1..n+1', 'failure_kinds': 'source raises at row f (every pass); a row that cannot be pickled (chunk write fails)', 'events': 'open/next/drop/dropview; clearcache() once in the clear configurations'}


def run_item(item, acc):
    h = Harness(item)
    try:
        cfg = dict(item)
        st = explore.explore(h, item['bound'], acc, lambda hist: {'config': cfg, 'history': hist},
                             group_prefix='%s%s | ' % (item['op'], ' (config default)' if item.get('cfgdefault') else ''),
                             count_nontrivial=h.nontrivial)
        acc.counters['nodes:%s' % item['op']] += st.nodes
        acc.counters['leaves'] += st.leaves
        acc.counters['events_executed_incl_replay'] += st.events_executed
        acc.sample({'config': cfg, 'solo_sequence_len': len(h.E), 'nodes': st.nodes, 'leaves': st.leaves}, 1)
    finally:
        petl.config.sort_buffersize = 100000
        shutil.rmtree(os.path.dirname(h.D), ignore_errors=True)


def replay(case):
    h = Harness(case['config'], tag='r')
    try:
        hist = [tuple(e) for e in case['history']]
        return explore.replay(h, hist)
    finally:
        petl.config.sort_buffersize = 100000
        shutil.rmtree(os.path.dirname(h.D), ignore_errors=True)
