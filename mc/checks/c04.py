"""C04 — mixed-type ordering is one consistent total preorder: None < numbers < rest.

Enumerates ALL ordered pairs and ALL ordered triples over the 38-value alphabet V36 (36 values + two numeric-subclass instances) on the real
petl.comparison.Comparable, and for every pair the users of the ordering (sort, issorted, the
comparison selectors, join) on one-column tables.  Oracle: order laws + independent reference cmp.
"""
import itertools

import petl as etl
from petl.comparison import Comparable

from .. import refmodel as ref
from .. import spaces

ID = 'C04'
LEVEL = 'model_checking'
ENGINE = 'E2 small-scope enumeration against reference order'
RULE = ('all ordered pairs and triples over V36 (None, bool/int/float/Decimal, int/float SUBCLASS instances, bytes, str, date, datetime, '
        'time, nested tuples/lists); states = distinct pairs/triples; a case is non-trivial when the '
        'values are pairwise non-identical objects; every pair is also pushed through sort(reverse on/off), '
        'issorted (also of a sort view), selectlt/le/gt/ge/eq/ne, the four range selectors and the six merge joins '
        '(1x1 and 2x2 keys, buffersize None/1/2/3, cache off) on one-column tables')
ASSUMPTIONS = ['value domain limited to the 38 representatives (seed picks the concrete ints/strings/dates)',
               'NaN excluded by the statement']

_V = None


def setup(tier, seed):
    global _V
    _V = spaces.V36(seed)


def bounds(tier, seed):
    return {'alphabet_size': len(_V), 'pairs': len(_V) ** 2, 'triples': len(_V) ** 3}


def items(tier, seed):
    return [('laws', i) for i in spaces.rotate(range(len(_V)), seed)] + \
           [('users', i) for i in spaces.rotate(range(len(_V)), seed)]


def _lt(a, b):
    return bool(Comparable(a) < Comparable(b))


def pair_laws(a, b):
    """Return list of (law, detail) that fail for the ordered pair (a, b)."""
    bad = []
    ca, cb = Comparable(a), Comparable(b)
    try:
        lt, gt = bool(ca < cb), bool(ca > cb)
        le, ge = bool(ca <= cb), bool(ca >= cb)
        eq, ne = bool(ca == cb), bool(ca != cb)
        tl = bool(cb < ca)
    except Exception as e:
        return [('raises', '%s: %s' % (type(e).__name__, e))]
    rc = ref.cmp(a, b)
    if lt != (rc < 0):
        bad.append(('lt-vs-reference', 'a<b is %s, reference says %s' % (lt, rc < 0)))
    if eq != (rc == 0):
        bad.append(('eq-vs-reference', 'a==b is %s, reference says %s' % (eq, rc == 0)))
    if lt and tl:
        bad.append(('asymmetry', 'a<b and b<a'))
    if ((not lt) and (not tl)) != eq:
        bad.append(('equivalence', 'incomparable=%s but ==%s' % ((not lt and not tl), eq)))
    if le != (lt or eq):
        bad.append(('le-definition', 'a<=b is %s' % le))
    if gt != tl:
        bad.append(('gt-definition', 'a>b is %s but b<a is %s' % (gt, tl)))
    if ge != (not lt):
        bad.append(('ge-definition', 'a>=b is %s' % ge))
    if ne != (not eq):
        bad.append(('ne-definition', 'a!=b is %s' % ne))
    # mixed wrapped / raw operand (how the selectors use it)
    try:
        if bool(ca < b) != lt:
            bad.append(('raw-right-operand', 'Comparable(a) < b differs from wrapped comparison'))
        if bool(ca == b) != eq:
            bad.append(('raw-right-operand-eq', 'Comparable(a) == b differs from wrapped comparison'))
    except Exception as e:
        bad.append(('raw-right-operand-raises', '%s' % type(e).__name__))
    return bad


def replay(case):
    k = case['kind']
    if k == 'pair':
        bad = [x for x in pair_laws(case['a'], case['b']) if x[0] == case['law']]
        return bad or None
    if k == 'triple':
        a, b, c = case['a'], case['b'], case['c']
        bad = triple_laws(a, b, c)
        bad = [x for x in bad if x[0] == case['law']]
        return bad or None
    if k == 'user':
        bad = [x for x in user_checks(case['a'], case['b']) if x[0] == case['law']]
        return bad or None
    if k == 'user3':
        bad = [x for x in user3(case['a'], case['b'], case['c']) if x[0] == case['law']]
        return bad or None
    raise ValueError(k)


def triple_laws(a, b, c):
    bad = []
    try:
        ab, bc, ac = _lt(a, b), _lt(b, c), _lt(a, c)
        ba, cb, ca = _lt(b, a), _lt(c, b), _lt(c, a)
    except Exception as e:
        return [('raises', type(e).__name__)]
    if ab and bc and not ac:
        bad.append(('transitivity', 'a<b, b<c but not a<c'))
    # transitivity of incomparability (total preorder)
    if (not ab and not ba) and (not bc and not cb) and (ac or ca):
        bad.append(('incomparability-transitive', 'a~b, b~c but a,c ordered'))
    return bad


def _col(vals):
    return [('x',)] + [(v,) for v in vals]


def user_checks(a, b):
    """Users of the ordering on the one-column table [a, b]."""
    bad = []
    rc = ref.cmp(a, b)
    t = _col([a, b])

    def rows(tbl):
        return [r[0] for r in list(tbl)[1:]]

    def same(xs, ys):
        return len(xs) == len(ys) and all(x is y for x, y in zip(xs, ys))

    def guard(name, fn):
        try:
            fn()
        except Exception as e:
            bad.append((name + '-raises', '%s: %s' % (type(e).__name__, str(e)[:100])))

    def c_sort():
        for bs in (None, 1):
            out = rows(etl.sort(t, 'x', buffersize=bs))
            exp = [a, b] if rc <= 0 else [b, a]
            if bs is None and not same(out, exp):
                bad.append(('sort-order', 'sort gave positions inconsistent with the order'))
            if bs == 1 and [ref.cmp(x, y) for x, y in zip(out, exp)] != [0, 0]:
                bad.append(('sort-order-chunked', 'buffersize=1'))
            out = rows(etl.sort(t, 'x', reverse=True, buffersize=bs))
            exp = [a, b] if rc >= 0 else [b, a]
            if bs is None and not same(out, exp):
                bad.append(('sort-reverse-order', 'reverse sort inconsistent with the order'))
        out = rows(etl.sort(t))  # lexical
        exp = [a, b] if rc <= 0 else [b, a]
        if not same(out, exp):
            bad.append(('sort-lexical-order', 'key=None'))
    guard('sort', c_sort)

    def c_issorted():
        if bool(etl.issorted(t, 'x')) != (rc <= 0):
            bad.append(('issorted', 'issorted says %s' % etl.issorted(t, 'x')))
        if bool(etl.issorted(t, 'x', strict=True)) != (rc < 0):
            bad.append(('issorted-strict', ''))
        if bool(etl.issorted(t, 'x', reverse=True)) != (rc >= 0):
            bad.append(('issorted-reverse', ''))
        if not etl.issorted(etl.sort(t, 'x'), 'x'):
            bad.append(('issorted-of-sort', ''))
        if bool(etl.issorted(t)) != (rc <= 0):
            bad.append(('issorted-lexical', 'key=None'))
        # the operand is itself a (not materialised) sort view, same key and direction: sorted by construction,
        # strictly so exactly when the two keys are not tied
        for rev in (False, True):
            for key in ('x', None):
                sv = etl.sort(t, key, reverse=rev) if key else etl.sort(t, reverse=rev)
                for strict in (False, True):
                    got = bool(etl.issorted(sv, key, reverse=rev, strict=strict) if key
                               else etl.issorted(sv, reverse=rev, strict=strict))
                    if got != ((rc != 0) if strict else True):
                        bad.append(('issorted-of-sortview', 'key=%r reverse=%s strict=%s says %s'
                                    % (key, rev, strict, got)))
                if key and bool(etl.wrap(t).sort(key, reverse=rev).issorted(key, reverse=not rev, strict=True)) \
                        != (False if rc != 0 else False):
                    bad.append(('issorted-of-sortview-opposite', 'key=%r reverse=%s' % (key, rev)))
    guard('issorted', c_issorted)

    def c_ragged():
        # sort and issorted must apply the SAME lexical ordering to ragged rows: a missing cell reads as None, cells
        # beyond the header do not count (two-field tables, key=None)
        body = [(a, b), (a,), (a, None), (b, a), (b,), (a, b, b), (a, b, a), ()]
        t2 = [('x', 'y')] + body
        for rev in (False, True):
            sv = etl.sort(t2, reverse=rev)
            if not etl.issorted(sv, reverse=rev):
                bad.append(('issorted-of-sort-ragged', 'key=None reverse=%s: issorted(sort(t)) is False' % rev))
            if not etl.issorted(list(sv), reverse=rev):
                bad.append(('issorted-of-sort-ragged', 'key=None reverse=%s, materialised' % rev))
        # rows that sort treats as tied must not pass the strict test
        for pair in ([(a,), (a, None)], [(a, b), (a, b, a)], [(), (None,)]):
            tt = [('x', 'y')] + pair
            for rev in (False, True):
                if etl.issorted(tt, reverse=rev, strict=True):
                    bad.append(('issorted-strict-ragged-tie', '%r reverse=%s accepted as strictly sorted' % (pair, rev)))
                if not etl.issorted(tt, reverse=rev):
                    bad.append(('issorted-ragged-tie', '%r reverse=%s rejected' % (pair, rev)))
    guard('issorted-ragged', c_ragged)

    def c_select():
        one = _col([a])
        sel = lambda f, *args: len(rows(f(one, 'x', *args))) == 1
        exp = {'selectlt': rc < 0, 'selectle': rc <= 0, 'selectgt': rc > 0, 'selectge': rc >= 0}
        for name, e in exp.items():
            if sel(getattr(etl, name), b) != e:
                bad.append((name, '%s(a vs b) should select=%s' % (name, e)))
        # range selectors with b as both bounds and (b, a)/(a, b)
        lo, hi = (a, b) if rc <= 0 else (b, a)
        for v in (a, b):
            c1, c2 = ref.cmp(lo, v), ref.cmp(v, hi)
            exp = {'selectrangeopenleft': c1 <= 0 and c2 < 0, 'selectrangeopenright': c1 < 0 and c2 <= 0,
                   'selectrangeopen': c1 <= 0 and c2 <= 0, 'selectrangeclosed': c1 < 0 and c2 < 0}
            for name, e in exp.items():
                got = len(rows(getattr(etl, name)(_col([v]), 'x', lo, hi))) == 1
                if got != e:
                    bad.append((name, 'value vs (lo, hi): should select=%s' % e))
    guard('select', c_select)

    def c_join():
        l = [('x', 'l')] + [(a, 0)]
        r = [('x', 'r')] + [(b, 1)]
        n = len(list(etl.join(l, r, key='x'))) - 1
        if n != (1 if rc == 0 else 0):
            bad.append(('join-match', 'join produced %d rows, keys equal=%s' % (n, rc == 0)))
        n = len(list(etl.outerjoin(l, r, key='x'))) - 1
        if n != (1 if rc == 0 else 2):
            bad.append(('outerjoin-match', 'outerjoin produced %d rows, keys equal=%s' % (n, rc == 0)))
        # two keys per side, every execution strategy of the internal sorts: the merge must meet the keys in the
        # order the sorts deliver them
        l2 = [('x', 'l')] + [(a, 0), (b, 1)]
        r2 = [('x', 'r')] + [(b, 2), (a, 3)]
        pairs = 4 if rc == 0 else 2
        for kw in ({}, {'buffersize': 1}, {'buffersize': 2}, {'buffersize': 3}, {'cache': False}):
            for name, exp in (('join', pairs), ('leftjoin', pairs), ('rightjoin', pairs), ('outerjoin', pairs),
                              ('lookupjoin', 2), ('antijoin', 0)):
                out = list(getattr(etl, name)(l2, r2, key='x', **kw))[1:]
                n = len(out)
                if n != exp:
                    bad.append(('%s-match-2x2' % name, '%s(%s) produced %d rows, expected %d'
                                % (name, ','.join(sorted(kw)) or 'default', n, exp)))
                elif not ref.is_sorted([r_[0] for r_ in out]):
                    bad.append(('%s-keyorder-2x2' % name, '%s(%s): output keys are not in ascending order'
                                % (name, ','.join(sorted(kw)) or 'default')))
            # one side holds only one of the two keys: the merge has to skip past the other
            r1 = [('x', 'r')] + [(a, 3)]
            for name, exp in (('join', 2 if rc == 0 else 1), ('leftjoin', 2), ('rightjoin', 2 if rc == 0 else 1),
                              ('outerjoin', 2), ('antijoin', 0 if rc == 0 else 1)):
                n = len(list(getattr(etl, name)(l2, r1, key='x', **kw))) - 1
                if n != exp:
                    bad.append(('%s-match-2x1' % name, '%s(%s) produced %d rows, expected %d'
                                % (name, ','.join(sorted(kw)) or 'default', n, exp)))
    guard('join', c_join)
    return bad


def user3(a, b, c):
    bad = []
    try:
        out = [r[0] for r in list(etl.sort(_col([a, b, c]), 'x'))[1:]]
        if not ref.is_sorted(out):
            bad.append(('sort3-nondecreasing', 'sort of three values is not non-decreasing'))
        exp = ref.stable_sort([(a,), (b,), (c,)], [0])
        if not all(x is y[0] for x, y in zip(out, exp)):
            bad.append(('sort3-stable', 'sort of three values differs from stable reference'))
        if not etl.issorted(_col(out), 'x'):
            bad.append(('issorted3', 'issorted(sort(t)) false'))
    except Exception as e:
        bad.append(('sort3-raises', type(e).__name__))
    return bad


def run_item(item, acc):
    kind, i = item
    V = _V
    a = V[i]
    if kind == 'laws':
        for j, b in enumerate(V):
            acc.evals += 1
            acc.states += 1
            acc.transitions += 1
            if i != j:
                acc.nontrivial += 1
            bad = pair_laws(a, b)
            acc.outcome((i, j, ref.cmp(a, b), _safe_lt(a, b)))
            for law, detail in bad:
                acc.violation('pair:' + law, {'kind': 'pair', 'law': law, 'a': a, 'b': b}, None, detail,
                              'order law %s fails for (%r, %r): %s' % (law, a, b, detail))
            for k, c in enumerate(V):
                acc.evals += 1
                acc.states += 1
                acc.transitions += 1
                if i != j and j != k and i != k:
                    acc.nontrivial += 1
                for law, detail in triple_laws(a, b, c):
                    acc.violation('triple:' + law, {'kind': 'triple', 'law': law, 'a': a, 'b': b, 'c': c},
                                  None, detail, '%s fails for (%r, %r, %r)' % (law, a, b, c))
        acc.sample({'pair': (a, V[(i + 7) % len(V)]), 'ref_cmp': ref.cmp(a, V[(i + 7) % len(V)])}, 1)
    else:
        for j, b in enumerate(V):
            acc.evals += 1
            acc.states += 1
            if i != j:
                acc.nontrivial += 1
            bad = user_checks(a, b)
            acc.transitions += 30
            acc.counters['user-pairs'] += 1
            for law, detail in bad:
                acc.violation('user:' + law, {'kind': 'user', 'law': law, 'a': a, 'b': b}, None, detail,
                              '%s disagrees with the order for (%r, %r): %s' % (law, a, b, detail))
            for k, c in enumerate(V):
                acc.evals += 1
                acc.transitions += 1
                for law, detail in user3(a, b, c):
                    acc.violation('user3:' + law, {'kind': 'user3', 'law': law, 'a': a, 'b': b, 'c': c},
                                  None, detail, '%s for (%r, %r, %r)' % (law, a, b, c))


def _safe_lt(a, b):
    try:
        return _lt(a, b)
    except Exception as e:
        return type(e).__name__
