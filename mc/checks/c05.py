"""C05 — sort/mergesort: stable ordered permutation, same under every buffering strategy.

Exhaustive small-scope enumeration (E2).  Every table of the families below is pushed through the real
petl.sort under EVERY strategy of a stated cross product (reverse x buffersize 1..n+1/None, given as
argument or through petl.config.sort_buffersize x cache x tempdir x pass 1..3 on the same view) and the
delivered sequence is compared with an independent stable reference sort (mc.refmodel order).  Every split
of every table into 2 (thorough: also 3) parts is pushed through mergesort (equal / differing headers,
presorted on/off, reverse, buffersize, cache, pass) and compared with the reference sort(cat(...)) and with
the real sort(cat(...)).  issorted must agree with the reference on every table and accept every sort output.
"""
import itertools
import os

import petl as etl
import petl.config as petl_config

from .. import env
from .. import refmodel as ref
from .. import spaces
from ..refs import sortref as sr

ID = 'C05'
LEVEL = 'model_checking'
ENGINE = 'E2 small-scope enumeration against an independent stable reference sort'
RULE = ('every table of each family (single key + id column with ids DEscending, so that a merge comparing whole '
        'rows on key ties is visible; compound key + ascending id; key=None lexical with and without id column, '
        'the latter with equal cells of different type; ragged rows: key cell missing, surplus cells, empty rows, '
        'with id column and (key=None) without, so that short rows tie with explicit-None rows, and with compound '
        'keys listed in non-header order so that a short row lacks the key field listed first (sort and mergesort); '
        'header-field namings for key=None / index keys: int names that look like indices, None, float, duplicate '
        'names, names equal after str()) x '
        'key spellings x the strategy cross product: full = reverse x buffersize {None,1..n+1} given as argument '
        'and via petl.config.sort_buffersize x cache x tempdir {default; explicit when chunked}; core = reverse x '
        'buffersize {None,1..n+1} x cache + config.sort_buffersize {1,n}; lite (extra key spellings) = reverse x '
        'buffersize {None,1,n}; a config-supplied chunk size stays set while the view is built and '
        'iterated and is restored afterwards; every '
        'view is iterated 3 times (2 with cache=False).  mergesort: every assignment of the rows of every table to '
        '2 (thorough: 3) parts x header variants {same, extra field, permuted, renamed non-key field} x key '
        '{field, None, index when headers are equal} x reverse x {presorted, not presorted x (buffersize {None,1} x '
        'cache, or chunk size 1 via petl.config.sort_buffersize)} x 2 passes; the failed-pass clause takes the '
        'chunk size by argument and via config; header= forms (same / permuted inputs): key {field, None} x header= {natural order, reordered, one '
        'non-key column dropped, extra column} x reverse x buffersize {None,1}, and missing=\'~\' with the extra column '
        '(both tiers; missing= alone in thorough), against the reference sort(cat()) and the '
        'real sort(cat()).  issorted on every table x key x reverse x strict and on every default sort '
        'output.  states = distinct (table, key, strategy) points; transitions = passes over a real view; a state '
        'is non-trivial when the table has >= 2 rows and sorting must move a row or must keep two equal-key rows '
        'in input order (mergesort: >= 2 non-empty parts and the merge must interleave parts or break a '
        'cross-part tie)')
ASSUMPTIONS = [
    'tables have <= 4 (thorough 5) rows; key cells range over K4/K6/K3 representatives chosen by the seed',
    'a missing key cell sorts as None (what the statement calls "missing key cells")',
    'a missing cell reads as None also in a lexical sort (key=None): a short row and a row with an explicit None in '
    'that position have equal keys and must keep input order under every strategy',
    'lexical sort of a table with LONG rows: whether surplus cells take part in the key is undocumented, so both '
    'readings are accepted, but every strategy/pass must deliver the sequence of the default strategy',
    'buffersize 0 and negative are outside the statement (1 .. beyond the row count)',
    'non-text field names are enumerated for sort/issorted only (mergesort renders field names as text, cat does '
    'not: outside the documented domain)',
    'mergesort: key given by field NAME (its docstring) unless all headers are equal; presorted=True with '
    'key=None is enumerated only when the common fields are in the same column order in every input (otherwise '
    '"already sorted lexically" is ambiguous); missing != None only on rectangular inputs',
]

_P = {}          # tier parameters, filled by setup()
_SEED = 0


# ------------------------------------------------------------------------------------------------
# families: row symbols -> rows
# ------------------------------------------------------------------------------------------------

def _ko_syms(K3):
    """Rows (id, k, v) / (id, k) / (id,) with k over K3 and v over {None, i1}."""
    vs = (None, K3[1])
    return [('q', (k, v)) for k in K3 for v in vs] + [('q', (k,)) for k in K3] + [('q', ())]


def _families(tier, seed):
    K4, K6, K3 = spaces.K4(seed), spaces.K6(seed), spaces.K3(seed)
    thorough = tier == 'thorough'
    fams = {}
    # single key + id column: full strategy cross for key 'k', lite cross for the other spellings
    fams['single'] = dict(hdr=('k', 'id'), syms=[('g', k) for k in (K6 if thorough else K4)],
                          maxn=5 if thorough else 4,
                          keys=[('k', ('full', 4, 'core')), (0, 'lite'), (('k',), 'lite'), (['k'], 'lite')])
    fams['compound'] = dict(hdr=('a', 'b', 'id'), syms=[('c', a, b) for a in K3 for b in K3],
                            maxn=4 if thorough else 3,
                            keys=[(('a', 'b'), 'core'), (('b', 'a'), 'lite'), (['a', 'b'], 'lite'),
                                  ((0, 1), 'lite'), (('a', 'id'), 'lite')])
    # no id column: equal rows of different type (i1 vs float(i1)) make stability observable in a lexical sort
    L4 = [None, K6[1], K6[4], K6[3]]
    fams['lex1'] = dict(hdr=('k',), syms=[('n', k) for k in (K6 if thorough else L4)], maxn=5 if thorough else 4,
                        keys=[(None, 'core')])
    fams['lex2'] = dict(hdr=('a', 'b'), syms=[('m', a, b) for a in K3 for b in K3], maxn=4 if thorough else 3,
                        keys=[(None, 'core')])
    fams['lexid'] = dict(hdr=('k', 'id'), syms=[('f', k) for k in K4], maxn=4 if thorough else 3,
                         keys=[(None, 'core')])
    # ragged: header (id, k, v); full, short after key, short before key (key cell missing), long, empty
    rsyms = [(sh, k) for k in K4 for sh in ('full', 'after', 'long')] + [('before', None), ('empty', None)]
    fams['ragged'] = dict(hdr=('id', 'k', 'v'), syms=rsyms, maxn=3 if thorough else 2,
                          keys=[('k', 'core'), (None, 'core'), (('k', 'v'), 'core'), (1, 'lite'),
                                # compound keys NOT in header order: a short row lacks the field listed first
                                (('v', 'k'), 'lite'), (('v', 'id'), 'lite'), ((2, 0), 'lite')])
    # compound keys listed in NON-header order on ragged rows whose value column varies (None / number), so that
    # the place of the padded None inside the key tuple decides the order against full rows
    fams['ragko'] = dict(hdr=('id', 'k', 'v'), syms=_ko_syms(K3), maxn=3 if thorough else 2,
                         keys=[(('v', 'k'), 'core'), ((2, 1), 'lite'), (('v', 'id'), 'lite'), (('k', 'v'), 'lite')])
    # a smaller ragged alphabet one row deeper (quick only; thorough covers it with the full alphabet)
    if not thorough:
        r3 = [(sh, k) for k in K3[:2] for sh in ('full', 'long')] + [('before', None), ('empty', None)]
        fams['ragged3'] = dict(hdr=('id', 'k', 'v'), syms=r3, maxn=3, minn=3,
                               keys=[('k', 'core'), (None, 'core'), (('v', 'k'), 'lite')])
    # ragged lexical WITHOUT id column (header (a, b)): only here do keys tie, e.g. the short row (x,) against
    # the row (x, None) holding an explicit None, or two long rows that differ in their surplus cell only
    i1 = K3[1]
    cells = (None, i1)
    full = [('r', (a, b)) for a in cells for b in cells]
    short = [('r', (a,)) for a in cells] + [('r', ())]
    long_ = [('r', (a, b, x)) for a in cells for b in cells for x in ('x', 'y')]
    lexkeys = [(None, 'core')]
    fams['raglex'] = dict(hdr=('a', 'b'), syms=full + short + long_, maxn=3 if thorough else 2, keys=lexkeys)
    small = [('r', (a, None)) for a in cells] + short + [('r', (a, None, x)) for a in cells for x in ('x', 'y')]
    fams['raglex+'] = dict(hdr=('a', 'b'), syms=small, maxn=4 if thorough else 3, minn=4 if thorough else 3,
                           keys=lexkeys)
    # header-field naming: field names that are not text (ints that look like indices, None, float), duplicate
    # names and names equal after str().  key=None (lexical) and keys given by index must not look at the names.
    for i, h in enumerate(HEADER_NAMINGS):
        fams['hn%d' % i] = dict(hdr=h, syms=[('m', a, b) for a in K3 for b in K3], maxn=3 if thorough else 2,
                                keys=[(None, 'lite'), (0, 'lite'), ((1, 0), 'lite')])
    return fams


HEADER_NAMINGS = [('name', 0), (1, 0), (0, 0), (None, 'v'), (1.5, 'v'), ('v', 'v'), ('1', 1), (7, 'v')]


def _row(sym, i):
    t = sym[0]
    if t == 'r':
        return tuple(sym[1])
    if t == 'q':
        return (i,) + tuple(sym[1])
    if t == 'g':
        # ids DEscending with input position: a merge that falls back to comparing whole rows when keys tie
        # would otherwise reproduce input order by accident (ascending ids)
        return (sym[1], 9 - i)
    if t == 'f':
        return (sym[1], i)
    if t == 'c':
        return (sym[1], sym[2], i)
    if t == 'n':
        return (sym[1],)
    if t == 'm':
        return (sym[1], sym[2])
    k = sym[1]
    if t == 'full':
        return (i, k, 'v')
    if t == 'after':
        return (i, k)
    if t == 'long':
        return (i, k, 'v', 'x')
    if t == 'before':
        return (i,)
    if t == 'empty':
        return ()
    raise ValueError(sym)


def _table(fam, n, index):
    syms = fam['syms']
    b = len(syms)
    digits = []
    for _ in range(n):
        digits.append(index % b)
        index //= b
    digits.reverse()
    return [_row(syms[d], i) for i, d in enumerate(digits)]


def _mfamilies(tier, seed):
    """mergesort families: tables to split, number of parts, keys, header variants."""
    K4, K3 = spaces.K4(seed), spaces.K3(seed)
    thorough = tier == 'thorough'
    fams = {}
    fams['m2'] = dict(hdr=('k', 'id'), syms=[('f', k) for k in K4], maxn=4 if thorough else 3, parts=2,
                      keys=['k', None], hvs=('same', 'extra', 'permuted', 'renamed'), extras=thorough,
                      hforms=('same', 'permuted'))
    if not thorough:
        fams['m2n4'] = dict(hdr=('k', 'id'), syms=[('f', k) for k in K3], maxn=4, minn=4, parts=2,
                            keys=['k', None], hvs=('same',), extras=False)
    fams['mc2'] = dict(hdr=('a', 'b', 'id'), syms=[('c', a, b) for a in K3[:2] for b in K3],
                       maxn=3 if thorough else 2, parts=2, keys=[('a', 'b'), ('b', 'a')],
                       hvs=('same', 'extra', 'permuted'), extras=False)
    rs = [(sh, k) for k in K3 for sh in ('full', 'after', 'long')] + [('before', None), ('empty', None)]
    fams['mr2'] = dict(hdr=('id', 'k', 'v'), syms=rs, maxn=3 if thorough else 2, parts=2,
                       keys=['k', None, ('v', 'k')],
                       hvs=('same',), extras=False)
    fams['mko'] = dict(hdr=('id', 'k', 'v'), syms=_ko_syms(K3), maxn=3 if thorough else 2, parts=2,
                       keys=[('v', 'k')], hvs=('same',), extras=False)
    if thorough:
        fams['m3'] = dict(hdr=('k', 'id'), syms=[('f', k) for k in K3], maxn=4, parts=3, keys=['k', None],
                          hvs=('same', 'permuted'), extras=False, hforms=('same',))
    return fams


def setup(tier, seed):
    global _SEED
    _SEED = seed
    _P.clear()
    _P['tier'] = tier
    _P['seed'] = seed
    _P['fams'] = _families(tier, seed)
    _P['mfams'] = _mfamilies(tier, seed)


# ------------------------------------------------------------------------------------------------
# strategies
# ------------------------------------------------------------------------------------------------

def _level(level, n):
    """A level may be (level, nmax, fallback): `level` up to nmax rows, `fallback` beyond."""
    if isinstance(level, tuple):
        return level[0] if n <= level[1] else level[2]
    return level


def strategies(n, level):
    """Default arguments first.  (reverse, bsmode, buffersize, cache, explicit_tempdir).
    full: reverse x {arg, config} x buffersize {None, 1..n+1} x cache x tempdir {default; explicit when chunked}
    core: reverse x buffersize {None, 1..n+1} x cache, + reverse x config.sort_buffersize {1, n}
    lite: reverse x buffersize {None, 1, n} (key spellings: they do not interact with buffering)"""
    out = []
    level = _level(level, n)
    modes = ('arg', 'config') if level == 'full' else ('arg',)
    caches = (True,) if level == 'lite' else (True, False)
    if level == 'lite':
        bss = [None] + sorted(set(b for b in (1, n) if b >= 1))
    else:
        bss = [None] + list(range(1, n + 2))
    for rev in (False, True):
        for cache in caches:
            for mode in modes:
                for bs in bss:
                    tds = (False, True) if (level == 'full' and bs is not None and bs <= n) else (False,)
                    for td in tds:
                        out.append((rev, mode, bs, cache, td))
        if level == 'core':
            # chunk size supplied through petl.config.sort_buffersize instead of the argument
            for bs in sorted(set(b for b in (1, n) if b >= 1)):
                out.append((rev, 'config', bs, True, False))
    return out


def npasses(cache):
    """cache=True: pass 1 sorts, passes 2 and 3 are served from the memory/file cache (pass 3 = a cached pass
    after a cached pass); cache=False: every pass re-sorts, two of them are enumerated."""
    return 3 if cache else 2


def _tempdir(explicit):
    if not explicit:
        return None
    p = os.path.join(env.worker_dir(), 'c05-tempdir')
    os.makedirs(p, exist_ok=True)
    return p


def _keyform(key, ragged=False):
    """Coarse key class for violation group names (spelling and raggedness are in the case, not in the group)."""
    if key is None:
        return 'None (lexical)'
    if isinstance(key, (list, tuple)) and len(key) > 1:
        return 'compound'
    return 'single field'


def _path(n, rev, bs, cache, p):
    return 'chunked' if (bs is not None and bs <= n) else 'memory'


def run_sort_view(hdr, rows, key, rev, mode, bs, cache, td, npass):
    """Build ONE real sort view and iterate it npass times.  Returns a list of outputs; an output is a
    list of rows (header first) or ('exc', text).  mode 'config': no buffersize argument; the chunk size is
    supplied through petl.config.sort_buffersize, which stays set while the view is built AND iterated (as a
    user who configures it globally would have it) and is restored afterwards."""
    tbl = [tuple(hdr)] + [tuple(r) for r in rows]
    old = petl_config.sort_buffersize
    outs = []
    try:
        if mode == 'config':
            petl_config.sort_buffersize = bs
            view = etl.sort(tbl, key, reverse=rev, tempdir=_tempdir(td), cache=cache)
        else:
            view = etl.sort(tbl, key, reverse=rev, buffersize=bs, tempdir=_tempdir(td), cache=cache)
        for _ in range(npass):
            try:
                outs.append(list(view))
            except Exception as e:
                outs.append(('exc', '%s: %s' % (type(e).__name__, str(e)[:120])))
    finally:
        petl_config.sort_buffersize = old
    return outs


def judge_sort(hdr, rows, key, rev, out, accept, baseline):
    """None if `out` is fine, else (signature, expected, observed)."""
    if isinstance(out, tuple) and out and out[0] == 'exc':
        return ('raises', accept[0], out[1])
    if not out:
        return ('header missing', [tuple(hdr)], out)
    if tuple(out[0]) != tuple(hdr):
        return ('header changed', tuple(hdr), tuple(out[0]))
    got = [tuple(r) for r in out[1:]]
    tg = sr.tfs(got)
    if baseline is not None:
        if tg != baseline:
            return ('differs from the default strategy', [r for r in baseline], got)
        return None
    for a in accept:
        if tg == sr.tfs(a):
            return None
    return (sr.diagnose(hdr, rows, key, rev, got), accept[0], got)


def sort_case_failures(case):
    """Re-evaluate one recorded sort case from scratch (used by replay)."""
    hdr, rows, key = tuple(case['header']), [tuple(r) for r in case['rows']], case['key']
    rev, mode, bs, cache, td, p = (case['reverse'], case['bsmode'], case['buffersize'], case['cache'],
                                   case['tempdir'], case['pass'])
    accept = sr.sort_expected(hdr, rows, key, rev)
    baseline = None
    if len(accept) > 1 and case.get('vs_default'):
        d = run_sort_view(hdr, rows, key, rev, 'arg', None, True, False, 1)[0]
        if not (isinstance(d, tuple) and d and d[0] == 'exc'):
            baseline = sr.tfs([tuple(r) for r in d[1:]])
    outs = run_sort_view(hdr, rows, key, rev, mode, bs, cache, td, p)
    return judge_sort(hdr, rows, key, rev, outs[p - 1], accept, baseline)


def _nontrivial(hdr, rows, key, exp):
    if len(rows) < 2:
        return False
    if sr.tfs(exp) != sr.tfs(rows):
        return True
    ks = sr.keys_of(hdr, rows, key)
    return any(ref.cmp(a, b) == 0 for a, b in itertools.combinations(ks, 2))


def check_table_sorts(acc, famname, hdr, rows, key, level):
    n = len(rows)
    ragged = not sr.rectangular(hdr, rows)
    kf = _keyform(key, ragged)
    accepts = {rev: sr.sort_expected(hdr, rows, key, rev) for rev in (False, True)}
    nontriv = {rev: _nontrivial(hdr, rows, key, accepts[rev][0]) for rev in (False, True)}
    baselines = {}
    for (rev, mode, bs, cache, td) in strategies(n, level):
        acc.states += 1
        if nontriv[rev]:
            acc.nontrivial += 1
        accept = accepts[rev]
        outs = run_sort_view(hdr, rows, key, rev, mode, bs, cache, td, npasses(cache))
        default = (mode == 'arg' and bs is None and cache and not td)
        for p, out in enumerate(outs, 1):
            acc.transitions += 1
            acc.evals += 1
            base = None
            if len(accept) > 1 and not (default and p == 1):
                base = baselines.get(rev)
            bad = judge_sort(hdr, rows, key, rev, out, accept, base)
            if default and p == 1 and bad is None:
                if len(accept) > 1:
                    baselines[rev] = sr.tfs([tuple(r) for r in out[1:]])
                acc.outcome(out)
            if bad is not None:
                sig, expd, obs = bad
                case = {'kind': 'sort', 'header': hdr, 'rows': rows, 'key': key, 'reverse': rev, 'bsmode': mode,
                        'buffersize': bs, 'cache': cache, 'tempdir': td, 'pass': p,
                        'vs_default': base is not None}
                acc.violation('sort key=%s | %s | %s' % (kf, sig, _path(n, rev, bs, cache, p)), case, expd, obs,
                              'sort(%d-row table, key=%r, reverse=%r, buffersize=%r via %s, cache=%r) pass %d: %s'
                              % (n, key, rev, bs, mode, cache, p, sig))
        acc.counters['sort:%s:%s' % (famname, 'chunked' if (bs is not None and bs <= n) else 'memory')] += 1
    # issorted agreement
    if n >= 0:
        for rev in (False, True):
            acc.evals += 1
            acc.transitions += 1
            bad = issorted_of_sort_failure(hdr, rows, key, rev)
            if bad:
                acc.violation('issorted(sort(t)) key=%s | %s' % (kf, bad[0]),
                              {'kind': 'issorted-of-sort', 'header': hdr, 'rows': rows, 'key': key, 'reverse': rev},
                              True, bad[1], 'issorted rejects the output of sort with the same key/reverse')
            for strict in (False, True):
                acc.evals += 1
                acc.transitions += 1
                acc.counters['issorted'] += 1
                bad = issorted_failure(hdr, rows, key, rev, strict)
                if bad:
                    acc.violation('issorted key=%s | %s' % (kf, bad[0]),
                                  {'kind': 'issorted', 'header': hdr, 'rows': rows, 'key': key, 'reverse': rev,
                                   'strict': strict}, bad[1], bad[2],
                                  'issorted(key=%r, reverse=%r, strict=%r) disagrees with the reference order'
                                  % (key, rev, strict))


def issorted_failure(hdr, rows, key, rev, strict):
    tbl = [tuple(hdr)] + [tuple(r) for r in rows]
    want = sr.is_sorted_expected(hdr, rows, key, rev, strict)
    try:
        got = bool(etl.issorted(tbl, key, reverse=rev, strict=strict))
    except Exception as e:
        return ('raises', sorted(want), '%s: %s' % (type(e).__name__, str(e)[:100]))
    if got not in want:
        return ('wrong answer' + (', reverse' if rev else '') + (', strict' if strict else ''), sorted(want), got)
    return None


def issorted_of_sort_failure(hdr, rows, key, rev):
    tbl = [tuple(hdr)] + [tuple(r) for r in rows]
    try:
        got = bool(etl.issorted(etl.sort(tbl, key, reverse=rev), key, reverse=rev))
    except Exception as e:
        return ('raises', '%s: %s' % (type(e).__name__, str(e)[:100]))
    if not got:
        return ('says False' + (', reverse' if rev else ''), got)
    return None


# ------------------------------------------------------------------------------------------------
# mergesort
# ------------------------------------------------------------------------------------------------

def _variant_part(hv, pi, hdr, rows):
    """Header variant applied to part number pi (part 0 always keeps the plain header)."""
    if hv == 'same' or pi == 0:
        return tuple(hdr), rows
    if hv == 'extra':
        return tuple(hdr) + ('x',), [tuple(r) + ('x%d' % pi,) for r in rows]
    if hv == 'permuted':
        return tuple(reversed(hdr)), [tuple(reversed(r)) for r in rows]
    if hv == 'renamed':   # the last (non-key) field has another name in this part
        return tuple(hdr[:-1]) + ('%s%d' % (hdr[-1], pi),), rows
    raise ValueError(hv)


def _same_column_order(parts):
    """True when the fields common to any two inputs appear in the same relative order everywhere and in the
    same order as in the output header (so 'lexical' means the same thing for every input)."""
    outhdr, _ = sr.cat(parts)
    for h, _ in parts:
        pos = [outhdr.index(f) for f in h]
        if pos != sorted(pos):
            return False
    return True


def header_forms(U, key):
    """Explicit header= arguments relative to the union header U of the inputs."""
    keyf = () if key is None else ((key,) if not isinstance(key, (list, tuple)) else tuple(key))
    out = [tuple(U), tuple(reversed(U))]
    for f in U:
        if f not in keyf and len(U) > 1:
            out.append(tuple(x for x in U if x != f))      # one (non-key) column dropped
    out.append(tuple(U) + ('zz',))
    res = []
    for h in out:
        if h not in res:
            res.append(h)
    return res


def merge_configs(fam):
    """(key, reverse, presorted, buffersize, cache, missing, header_kw) — default arguments first."""
    out = []
    for key in fam['keys']:
        for rev in (False, True):
            for (pres, bs, cache) in ((False, None, True), (False, 1, True), (False, None, False),
                                      (False, 1, False), (False, ('config', 1), True), (True, None, True)):
                out.append((key, rev, pres, bs, cache, None, None))
    return out


def run_merge_view(parts, key, rev, pres, bs, cache, missing, header, npass):
    """bs may be ('config', b): no buffersize argument, petl.config.sort_buffersize = b while the view is built
    and iterated (restored afterwards)."""
    tables = [[tuple(h)] + [tuple(r) for r in rows] for h, rows in parts]
    kw = dict(key=key, reverse=rev, presorted=pres, cache=cache)
    viaconfig = isinstance(bs, (tuple, list)) and len(bs) == 2 and bs[0] == 'config'
    if not viaconfig:
        kw['buffersize'] = bs
    if missing is not None:
        kw['missing'] = missing
    if header is not None:
        kw['header'] = list(header)
    outs = []
    old = petl_config.sort_buffersize
    try:
        if viaconfig:
            petl_config.sort_buffersize = bs[1]
        try:
            view = etl.mergesort(*tables, **kw)
        except Exception as e:
            return [('exc', '%s: %s' % (type(e).__name__, str(e)[:120]))] * npass
        for _ in range(npass):
            try:
                outs.append(list(view))
            except Exception as e:
                outs.append(('exc', '%s: %s' % (type(e).__name__, str(e)[:120])))
    finally:
        petl_config.sort_buffersize = old
    return outs


def run_sort_cat(parts, key, rev, missing, header):
    tables = [[tuple(h)] + [tuple(r) for r in rows] for h, rows in parts]
    kw = {}
    if missing is not None:
        kw['missing'] = missing
    if header is not None:
        kw['header'] = list(header)
    try:
        return list(etl.sort(etl.cat(*tables, **kw), key, reverse=rev))
    except Exception as e:
        return ('exc', '%s: %s' % (type(e).__name__, str(e)[:120]))


def judge_merge(parts, key, rev, missing, header, out, sortcat):
    exp_hdr, exp_rows = sr.mergesort_expected(parts, key, rev, missing, header)
    if isinstance(out, tuple) and out and out[0] == 'exc':
        return ('raises', exp_rows, out[1])
    if not out or tuple(out[0]) != tuple(exp_hdr):
        return ('header differs from cat', tuple(exp_hdr), tuple(out[0]) if out else None)
    got = [tuple(r) for r in out[1:]]
    if sr.tfs(got) != sr.tfs(exp_rows):
        _, catrows = sr.cat(parts, missing, header)
        return (sr.diagnose(exp_hdr, catrows, key, rev, got), exp_rows, got)
    if sortcat is not None:
        if isinstance(sortcat, tuple) and sortcat and sortcat[0] == 'exc':
            return ('real sort(cat()) raises', exp_rows, sortcat[1])
        if sr.tfs([tuple(r) for r in sortcat]) != sr.tfs([tuple(exp_hdr)] + exp_rows):
            return ('real sort(cat()) differs from reference', [tuple(exp_hdr)] + exp_rows, sortcat)
    return None


def _merge_group(parts, key, hv, sig, pres, rev, p, cache, header=None):
    same = _same_column_order(parts)
    return 'mergesort key=%s, inputs %s%s | %s' % (
        _keyform(key), 'in the same column order' if same else 'in different column order',
        ', header= given' if header is not None else '', sig)


def _merge_nontrivial(parts, key, rev):
    if sum(1 for _, r in parts if r) < 2:
        return False
    outhdr, catrows = sr.cat(parts)
    _, exp = sr.mergesort_expected(parts, key, rev)
    if sr.tfs(exp) != sr.tfs(catrows):
        return True
    ks, owner = [], []
    for pi, (h, rows) in enumerate(parts):
        for r in sr.cat([(h, rows)], header=outhdr)[1]:
            ks.append(ref.keyof(r, sr.key_indices(outhdr, key)))
            owner.append(pi)
    return any(owner[i] != owner[j] and ref.cmp(ks[i], ks[j]) == 0
               for i, j in itertools.combinations(range(len(ks)), 2))


def check_split(acc, famname, fam, rows, assign):
    hdr = fam['hdr']
    m = fam['parts']
    base = [[r for r, a in zip(rows, assign) if a == pi] for pi in range(m)]
    for hv in fam['hvs']:
        raw = [_variant_part(hv, pi, hdr, base[pi]) for pi in range(m)]
        same_order = _same_column_order(raw)
        cfgs = list(merge_configs(fam))
        if hv in fam.get('hforms', ()):
            # header= / missing= forms (both tiers): key given by name and key=None x header= {natural order,
            # reordered, one column dropped, extra column} x reverse x buffersize {None, 1}; missing='~' with the
            # extra column.  Never presorted ("already sorted" would be ambiguous under a re-laid-out header).
            U = tuple(sr.cat(raw)[0])
            for key in fam['keys']:
                for hk in header_forms(U, key):
                    for rev in (False, True):
                        for bs in (None, 1):
                            cfgs.append((key, rev, False, bs, True, None, hk))
                for rev in (False, True):
                    cfgs.append((key, rev, False, None, True, '~', U + ('zz',)))
        if fam.get('extras') and hv in ('same', 'extra', 'renamed'):
            keyname = fam['keys'][0]
            for rev in (False, True):
                cfgs.append((keyname, rev, False, None, True, '~', None))
                cfgs.append((None, rev, False, None, True, '~', None))
        if hv == 'same':
            # key by index: only when every input has the same header (mergesort documents field names)
            k0 = fam['keys'][0]
            ikey = hdr.index(k0) if isinstance(k0, str) else tuple(hdr.index(f) for f in k0)
            for rev in (False, True):
                cfgs.append((ikey, rev, False, None, True, None, None))
        sortcats = {}
        nontriv = {}
        for (key, rev, pres, bs, cache, missing, header) in cfgs:
            if pres and key is None and not same_order:
                continue   # "presorted lexically" is ambiguous when column orders differ
            if pres:
                parts = [(h, sr.presort(h, r, key, rev)) for h, r in raw]
            else:
                parts = raw
            acc.states += 1
            sck = (repr(key), rev, pres, missing, header)
            if sck not in nontriv:
                nontriv[sck] = _merge_nontrivial(parts, key, rev)
            if nontriv[sck]:
                acc.nontrivial += 1
            if sck not in sortcats:
                sortcats[sck] = run_sort_cat(parts, key, rev, missing, header)
                acc.transitions += 1
            npass = 1 if pres else 2
            outs = run_merge_view(parts, key, rev, pres, bs, cache, missing, header, npass)
            for p, out in enumerate(outs, 1):
                acc.transitions += 1
                acc.evals += 1
                bad = judge_merge(parts, key, rev, missing, header, out, sortcats[sck] if p == 1 else None)
                if bad is None:
                    if p == 1 and bs is None and cache and not pres:
                        acc.outcome(out)
                    continue
                sig, expd, obs = bad
                case = {'kind': 'mergesort', 'parts': [(tuple(h), [tuple(r) for r in rs]) for h, rs in parts],
                        'key': key, 'reverse': rev, 'presorted': pres, 'buffersize': bs, 'cache': cache,
                        'missing': missing, 'header_kw': header, 'pass': p, 'hv': hv}
                acc.violation(_merge_group(parts, key, hv, sig, pres, rev, p, cache, header), case, expd, obs,
                              'mergesort of %d tables (key=%r, reverse=%r, presorted=%r, buffersize=%r, cache=%r, '
                              'missing=%r, header=%r) pass %d: %s; the statement demands sort(cat(...))'
                              % (len(parts), key, rev, pres, bs, cache, missing, header, p, sig))
            acc.counters['mergesort:%s:%s' % (famname, hv)] += 1


def merge_case_failure(case):
    parts = [(tuple(h), [tuple(r) for r in rs]) for h, rs in case['parts']]
    key, rev, missing, header = case['key'], case['reverse'], case['missing'], case['header_kw']
    p = case['pass']
    outs = run_merge_view(parts, key, rev, case['presorted'], case['buffersize'], case['cache'], missing, header, p)
    sc = run_sort_cat(parts, key, rev, missing, header) if p == 1 else None
    return judge_merge(parts, key, rev, missing, header, outs[p - 1], sc)


# ------------------------------------------------------------------------------------------------
# runner interface
# ------------------------------------------------------------------------------------------------

ITEM_MS = 1500.0     # target CPU per work item


def _view_ms(n, bs, cache):
    """Rough CPU cost (ms) of one sort view with all its passes (measured: ~0.25 ms per chunk file written or
    read, ~0.03 ms per in-memory pass)."""
    if bs is None or bs > n:
        return 0.05 * npasses(cache)
    chunks = max(1, -(-n // bs))
    return 0.25 * chunks * ((1 + npasses(cache)) if cache else 2 * npasses(cache)) + 0.1


def _table_ms(fam, n):
    ms = 0.3
    for _, level in fam['keys']:
        ms += sum(_view_ms(n, bs, cache) for (_, _, bs, cache, _) in strategies(n, level))
    return ms


def _split_ms(fam, n):
    ncfg = len(fam['keys']) * 2 * 6 + 4
    nh = len([hv for hv in fam['hvs'] if hv in fam.get('hforms', ())]) * len(fam['keys']) * 20
    return (len(fam['hvs']) * ncfg + nh) * (0.15 + 0.12 * n)


def _ranges(total, per):
    per = max(1, int(per))
    return [(lo, min(total, lo + per)) for lo in range(0, total, per)]


def items(tier, seed):
    """No cost() on purpose: the runner keeps the first case of each violation group in item order, so items stay
    in simplest-first order (fewest rows first); they are small enough (~1.5 s) for the pool to pack well."""
    out = []
    for name, fam in _P['fams'].items():
        b = len(fam['syms'])
        for n in range(fam.get('minn', 0), fam['maxn'] + 1):
            for lo, hi in _ranges(b ** n, ITEM_MS / _table_ms(fam, n)):
                out.append(('sort', name, n, lo, hi))
    for name, fam in _P['mfams'].items():
        b = len(fam['syms'])
        for n in range(fam.get('minn', 0), fam['maxn'] + 1):
            for lo, hi in _ranges(b ** n, ITEM_MS / (_split_ms(fam, n) * fam['parts'] ** n)):
                out.append(('merge', name, n, lo, hi))
    for n in range(1, (3 if _P.get('tier', 'quick') == 'quick' else 4) + 1):
        out.append(('transient', 'single', n, 0, 0))
    # simplest first (n ascending), rotation by seed inside one n
    out.sort(key=lambda it: it[2])
    res = []
    for n, grp in itertools.groupby(out, key=lambda it: it[2]):
        res.extend(spaces.rotate(list(grp), seed))
    return res


def bounds(tier, seed):
    b = {'passes_per_view': 'cache=True: 3, cache=False: 2'}
    for name, fam in _P['fams'].items():
        b['sort:' + name] = {'header': list(fam['hdr']), 'row_symbols': len(fam['syms']),
                             'rows': [fam.get('minn', 0), fam['maxn']],
                             'tables': sum(len(fam['syms']) ** n for n in range(fam.get('minn', 0), fam['maxn'] + 1)),
                             'keys': [[repr(k), repr(lv)] for k, lv in fam['keys']]}
    for name, fam in _P['mfams'].items():
        b['mergesort:' + name] = {'header': list(fam['hdr']), 'row_symbols': len(fam['syms']),
                                  'rows': [fam.get('minn', 0), fam['maxn']], 'parts': fam['parts'],
                                  'splits': sum((len(fam['syms']) * fam['parts']) ** n
                                                for n in range(fam.get('minn', 0), fam['maxn'] + 1)),
                                  'keys': [repr(k) for k in fam['keys']], 'header_variants': list(fam['hvs'])}
    b['strategies_full(n)'] = 'reverse x {arg,config} x buffersize{None,1..n+1} x cache x tempdir{default; explicit when chunked}'
    b['strategies_core(n)'] = 'reverse x buffersize{None,1..n+1} x cache'
    return b


def transient_failure(case):
    """A pass that died on a transient source failure must not poison later passes: after it, every pass
    over the same view yields the full stable sort.  Returns None or (expected, observed, msg)."""
    from ..sources import FlakyTable
    hdr = ('k', 'id')
    rows = [tuple(r) for r in case['rows']]
    src = FlakyTable(hdr, rows, fail_at=case['fail_at'], times=1)
    kw = {'reverse': case['reverse'], 'cache': case['cache']}
    viaconfig = case.get('bsmode') == 'config'
    if case['buffersize'] is not None and not viaconfig:
        kw['buffersize'] = case['buffersize']
    exp = [hdr] + [tuple(r) for r in ref.stable_sort(rows, [0], case['reverse'])]
    old = petl_config.sort_buffersize
    try:
        if viaconfig:
            petl_config.sort_buffersize = case['buffersize']
        view = etl.sort(src, 'k', **kw)
        try:
            list(view)
        except Exception:
            pass
        for p in (2, 3):
            try:
                got = [tuple(r) for r in view]
            except Exception as e:
                return (exp, '%s: %s' % (type(e).__name__, str(e)[:80]), 'pass %d after a failed pass raises' % p)
            if got != exp:
                return (exp, got, 'pass %d after a failed pass differs from the stable sort' % p)
    finally:
        petl_config.sort_buffersize = old
    return None


def check_transient(acc, n):
    K = spaces.K4(_P.get('seed', 0)) if _P.get('tier') == 'thorough' else spaces.K3(_P.get('seed', 0))
    for kv in itertools.product(K, repeat=n):
        rows = [(k, n - i) for i, k in enumerate(kv)]
        for fail_at in range(0, n + 2):
            for bs in [None] + list(range(1, n + 2)):
                for cache in (True, False):
                  for bsmode in (('arg',) if bs is None else ('arg', 'config')):
                    for rev in (False, True):
                        case = {'kind': 'transient', 'rows': rows, 'fail_at': fail_at, 'buffersize': bs,
                                'bsmode': bsmode, 'cache': cache, 'reverse': rev}
                        acc.states += 1
                        acc.evals += 2
                        acc.transitions += 3
                        if n >= 2 and fail_at >= 2:
                            acc.nontrivial += 1
                        acc.counters['transient:%s' % ('chunked' if bs is not None and bs <= n else 'memory')] += 1
                        r = transient_failure(case)
                        if r is not None:
                            acc.violation('sort | %s (%s, cache=%s)' % (r[2].split(' ', 2)[2],
                                                                        'chunked' if bs is not None and bs <= n
                                                                        else 'memory', cache),
                                          case, r[0], r[1], r[2])
                        else:
                            acc.outcome(('transient', n, fail_at, bs is not None and bs <= n))


def run_item(item, acc):
    kind, name, n, lo, hi = item
    if kind == 'transient':
        check_transient(acc, n)
        return
    if kind == 'sort':
        fam = _P['fams'][name]
        for index in range(lo, hi):
            rows = _table(fam, n, index)
            for key, level in fam['keys']:
                check_table_sorts(acc, name, fam['hdr'], rows, key, level)
        if lo == 0:
            acc.sample({'family': name, 'header': fam['hdr'], 'rows': _table(fam, n, hi - 1),
                        'keys': [k for k, _ in fam['keys']]}, 1)
        return
    fam = _P['mfams'][name]
    for index in range(lo, hi):
        rows = _table(fam, n, index)
        for assign in itertools.product(range(fam['parts']), repeat=n):
            check_split(acc, name, fam, rows, assign)


def replay(case):
    k = case['kind']
    if k == 'transient':
        return transient_failure(case)
    if k == 'sort':
        return sort_case_failures(case)
    if k == 'mergesort':
        return merge_case_failure(case)
    hdr, rows = tuple(case['header']), [tuple(r) for r in case['rows']]
    if k == 'issorted':
        return issorted_failure(hdr, rows, case['key'], case['reverse'], case['strict'])
    if k == 'issorted-of-sort':
        return issorted_of_sort_failure(hdr, rows, case['key'], case['reverse'])
    raise ValueError(k)


def vacuity(cov, tier):
    c = cov['per_case_counters']
    problems = []
    for name in _P['fams']:
        for path in ('memory', 'chunked'):
            if not c.get('sort:%s:%s' % (name, path)):
                problems.append('no %s sort in family %s' % (path, name))
    for name, fam in _P['mfams'].items():
        for hv in fam['hvs']:
            if not c.get('mergesort:%s:%s' % (name, hv)):
                problems.append('no mergesort case %s/%s' % (name, hv))
    if not c.get('issorted'):
        problems.append('issorted never evaluated')
    return problems


# classifiers for known_findings.json entries -----------------------------------------------------

def _cls_lexical_column_order(group, case, params):
    """mergesort(key=None), not presorted, inputs whose common fields are in different column order (or a
    header= argument that reorders them)."""
    if case.get('kind') != 'mergesort' or case.get('key') is not None or case.get('presorted'):
        return False
    parts = [(tuple(h), rs) for h, rs in case['parts']]
    return not _same_column_order(parts)


CLASSIFIERS = {'mergesort_lexical_column_order': _cls_lexical_column_order}
