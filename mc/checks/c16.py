"""C16 — pass-through views are transparent; a consumed tee writes what to* writes.

E2: every table of a bounded family x every argument combination is pushed through the real
tee* / progress / log_progress / clock / cache / wrap views.  Oracle 1: the rows the wrapper yields are
exactly the rows of the wrapped table, in order, on every pass (also on abandoned passes: the prefix).
Oracle 2 (the statement's own): after a complete pass the tee target holds what the corresponding to*
function writes for the same table and arguments into a target of the same kind.
"""
import contextlib
import csv
import io
import itertools
import logging
import os

import petl as etl
from petl.io.sources import MemorySource
from petl.util.materialise import cache as etl_cache

from .. import env
from .. import spaces
from ..refs import ioref as ref

ID = 'C16'
LEVEL = 'model_checking'
ENGINE = 'E2 small-scope enumeration of tables x wrapper arguments; row oracle = the wrapped table, byte oracle = to*'
RULE = ('state = (table, wrapper, arguments, target kind, pass pattern). Tables: header + 0..3 rows whose cells '
        'range over None, int, float, text, non-ASCII text, text with delimiter/quote/newline, empty text; rows '
        'of every length 0..width+1 (ragged, empty, over-long), header-only tables; rows given as tuples or lists; '
        'header fields that are not text (int, float, None, bool): the header must come through type-faithfully too. '
        'tee*: every table x write_header / encoding / dialect (parameter triples, dialect= by registered name and as a '
        'Dialect subclass, single format parameters on their own - for teecsv and teetsv alike) / template, prologue, epilogue / caption, '
        'index_header, truncate, lineterminator, tr_style, td_styles / pickle protocol; errors= axis for teecsv, '
        'teetsv, teetext, teehtml: encoding in {ascii, latin-1} x errors in {strict, replace, ignore, xmlcharrefreplace, '
        'backslashreplace} x tables (<= 2 rows) whose cells / header / prologue / caption hold text the codec cannot '
        'encode (strict: encodable text only); target kinds: all four for the '
        'plain configurations (encoding x write_header, default template), MemorySource (+ .gz in thorough) for the '
        'rest; two complete passes, and on MemorySource every abandoned pass followed by a complete one (quick: '
        'plain configurations only). progress/log_progress x prefix in {absent, empty, plain, with %, %-format '
        'directives, {}-format fields, non-ASCII} x report sink given / default (stderr, captured) x logger given / '
        'default x level x kind of the out= sink (StringIO, object with write() only, object with write() + flush()) x '
        'batchsize in {1, 2, n, n+1, 1000}; clock; wrap; cache(n) for n in {None, 1..rows+1} x every sequence of '
        '1..3 passes each of which is complete or abandoned after any number of items. A state is non-trivial '
        'when the table has at least one data row (tee: the target then holds more than the header; cache: '
        'additionally n smaller than the number of rows or more than one pass). Excluded: tables without a header '
        'row; text not encodable in the codec; csv states on which to* itself raises csv.Error; truncate with '
        'non-text header cells (tohtml slices the header value); batchsize 0')
ASSUMPTIONS = ['tables have <= 3 data rows and <= 3 cells per row',
               'target kinds MemorySource, plain file, .gz, .bz2; compressed targets are compared after decompression '
               '(the gzip header carries a timestamp)',
               'progress/log_progress message text and clock timings are not observed',
               'interleaved iterators over one view are C01, not explored here']

EXT = {'path': '', 'gz': '.gz', 'bz2': '.bz2'}
KINDS = ['mem', 'path', 'gz', 'bz2']
KINDNAME = {'mem': 'MemorySource', 'path': 'plain file', 'gz': '.gz file', 'bz2': '.bz2 file'}

_G = {}


# ---------------------------------------------------------------------------------------------
# named callables (cases reference them by name)
# ---------------------------------------------------------------------------------------------

def _tr_by_len(row):
    return 'order: %d' % len(row)


def _td_by_type(v):
    return 'x-type: %s' % type(v).__name__


STYLES = {None: None, 'tr:str': 'color: red', 'tr:fn': _tr_by_len, 'td:str': 'margin: 0', 'td:fn': _td_by_type}


def _td_styles(name, table):
    if name == 'td:dict':
        h = table[0]
        d = {}
        if len(h) > 0:
            d[h[0]] = 'font-weight: bold'
        if len(h) > 1:
            d[h[1]] = _td_by_type
        return d
    return STYLES[name]


_QUIET = logging.getLogger('mc.c16.quiet')
_QUIET.addHandler(logging.NullHandler())
_QUIET.propagate = False
_QUIET.setLevel(logging.INFO)


# ---------------------------------------------------------------------------------------------
# spaces
# ---------------------------------------------------------------------------------------------

def cells(seed, tier):
    r = spaces.reps(seed)
    na = ['\xe9', '\xfc', '\xf1', '\xf8'][seed % 4]
    base = [None, r['i1'], r['s1'], na, ',"\n']
    if tier != 'quick':
        base += [r['i1'] + 0.5, "\t'\r"]
    return base


def tables(seed, tier):
    C = cells(seed, tier)
    f = ['x', 'y', 'z', 'w'][seed % 4]
    hdr = (f, 'k')
    rows = [()] + [(c,) for c in C] + [(a, b) for a in C for b in C] + [(c, C[2], 'L') for c in C]
    small = [(), (C[2],), (None, C[1]), (C[3], C[4]), (C[1], C[2], 'L'), (C[2], C[2])]
    out = [(hdr,)]
    out += [(hdr, r) for r in rows]
    out += [(hdr, r1, r2) for r1 in rows for r2 in rows]
    out += [(hdr, r1, r2, r3) for r1 in small for r2 in small for r3 in small]
    # other header widths, rows given as lists
    out += [((f,),), ((f,), (C[3],)), ((f,), (), (C[1], 'L'))]
    out += [((f, 'k', 'm'), (C[1], C[2], C[3])), ((f, 'k', 'm'), (C[4],), (None, None, None, 'L'))]
    out += [([f, 'k'], [C[1], C[2]], [C[3]])]
    # header fields that are not text: the wrapper must hand on the wrapped table's header objects
    for h in nontext_headers(seed):
        out += [(h,), (h, (C[1], C[2])), (h, (C[3],), (None, C[4], 'L')), (h, (), (C[2], C[2]))]
    return out


ERRORS = ['strict', 'replace', 'ignore', 'xmlcharrefreplace', 'backslashreplace']


def error_tables(seed):
    """Tables for the errors= axis: cells ascii cannot encode (a latin-1 letter) and cells latin-1 cannot encode
    either (euro sign, U+2028), next to encodable text and None; every row length 0..3; also in the header."""
    r = spaces.reps(seed)
    na = ['\xe9', '\xfc', '\xf1', '\xf8'][seed % 4]
    f = ['x', 'y', 'z', 'w'][seed % 4]
    E = [na, '\u20ac', r['s1'] + '\u2028' + na, r['s1'], None]
    hdr = (f, 'k')
    rows = [()] + [(c,) for c in E] + [(a, b) for a in E for b in E] + [(c, E[1], 'L') for c in E]
    out = [(hdr,)] + [(hdr, r1) for r1 in rows] + [(hdr, r1, r2) for r1 in rows for r2 in rows]
    for h in [(na, 'k'), (f, '\u20ac'), ('\u20ac' + na,)]:
        out += [(h,), (h, (E[3], E[3])), (h, (E[0],), (E[1], E[2], 'L'))]
    return out


def errors_cfgs(tier, hdr):
    """encoding in {ascii, latin-1} x errors in all five handlers, for every tee*/to* pair that accepts errors=."""
    usable = [str(h) for h in hdr if str(h).isidentifier()]
    tpl = ''.join('{%s}|' % n for n in usable) + '\n'
    out = []
    for enc in ('ascii', 'latin-1'):
        for err in ERRORS:
            out.append(('teecsv', {'encoding': enc, 'errors': err}))
            out.append(('teetsv', {'encoding': enc, 'errors': err}))
            out.append(('teetext', {'encoding': enc, 'errors': err, 'template': tpl, 'prologue': 'P\u20ac\n',
                                    'epilogue': 'E'}))
            out.append(('teehtml', {'encoding': enc, 'errors': err, 'caption': 'c\u20ac'}))
    out.append(('teecsv', {'encoding': 'ascii', 'errors': 'replace', 'write_header': False, 'delimiter': ';',
                           'quotechar': "'", 'quoting': 1}))
    return out


def nontext_headers(seed):
    r = spaces.reps(seed)
    f = ['x', 'y', 'z', 'w'][seed % 4]
    return [(r['i1'], None), (2.5, 'k'), (None, f), (0, r['i2']), (f, r['i1']), (True, None)]


def pass_tables(seed):
    """Tables for the pure pass-through wrappers (cells are irrelevant to them; shapes are not)."""
    r = spaces.reps(seed)
    f = ['x', 'y', 'z', 'w'][seed % 4]
    hdr = (f, 'k')
    pool = [(r['i1'], r['s1']), (None,), (), ('\xe9', 2.5, 'L'), [r['i2'], [1]]]
    out = [(hdr,)]
    for n in (1, 2, 3):
        for rs in itertools.permutations(pool, n):
            out.append((hdr,) + rs)
    out.append(([f],))
    for h in nontext_headers(seed):
        out += [(h,), (h, pool[0]), (h, pool[1], pool[3])]
    out.append(((),))
    out.append(((), (), ()))
    return out


def csv_cfgs(tier):
    encs = ['utf-8', 'latin-1', 'utf-16']
    dialects = [None, (';', "'", 1)] + ([('|', '"', 0), (',', '"', 2)] if tier != 'quick' else [])
    out = []
    for op in ('teecsv', 'teetsv'):
        for wh in (True, False):
            for enc in encs:
                for d in dialects:
                    if op == 'teetsv' and d is not None:
                        continue
                    kw = {'write_header': wh, 'encoding': enc}
                    if d is not None:
                        kw.update({'delimiter': d[0], 'quotechar': d[1], 'quoting': d[2]})
                    out.append((op, kw))
    out.append(('teecsv', {}))
    out.append(('teetsv', {}))
    # a dialect named explicitly (registered names, a Dialect subclass) and single format parameters on their
    # own: tee* must resolve its defaults exactly as to* does, for the csv AND the tsv functions
    for op in ('teecsv', 'teetsv'):
        for name in ('excel', 'excel-tab', 'unix', 'class:semicolon'):
            out.append((op, {'dialect': name}))
        out.append((op, {'dialect': 'unix', 'quoting': 0}))
        out.append((op, {'dialect': 'excel', 'write_header': False, 'encoding': 'utf-16'}))
        for single in ({'delimiter': ';'}, {'quotechar': "'"}, {'quoting': 1}, {'lineterminator': '\n'},
                       {'doublequote': False, 'escapechar': '\\'}, {'quoting': 3, 'escapechar': '\\'}):
            out.append((op, dict(single)))
    return out


class SemicolonDialect(csv.excel):
    delimiter = ';'
    quotechar = "'"


DIALECT_CLASSES = {'class:semicolon': SemicolonDialect}


class WriteOnlySink(object):
    """The least print(file=...) needs: write() and nothing else."""

    def __init__(self):
        self.parts = []

    def write(self, text):
        self.parts.append(text)


class FlushableSink(WriteOnlySink):
    def __init__(self):
        WriteOnlySink.__init__(self)
        self.flushes = 0

    def flush(self):
        self.flushes += 1


SINKS = {'writeonly': WriteOnlySink, 'flushable': FlushableSink}


def text_cfgs(tier, hdr):
    # str.format can only name fields whose text is an identifier ('{1}' / '{2.5}' are positional lookups)
    usable = [str(h) for h in hdr if str(h).isidentifier()]
    t1 = ''.join('{%s}|' % n for n in usable) + '\n'
    t2 = '<{%s}>' % usable[-1] if usable else '<row>'
    out = []
    for tpl in (t1, t2):
        for pro, epi in ((None, None), ('P\xe9\n', 'E\n'), ('P', None), (None, 'E')):
            for enc in ('utf-8', 'latin-1', 'utf-16'):
                out.append(('teetext', {'template': tpl, 'prologue': pro, 'epilogue': epi, 'encoding': enc}))
    out.append(('teetext', {'template': t1}))
    return out


def html_cfgs(tier):
    out = [('teehtml', {})]
    captions = (None, 'cap \xe9')
    for cap, ih, tr, lt in itertools.product(captions, (False, True), (None, 1), ('\n', '\r\n')):
        for trs, tds in ((None, None), ('tr:str', None), ('tr:fn', 'td:fn'), (None, 'td:dict'), (None, 'td:str')):
            if tier == 'quick' and lt == '\r\n' and (trs or tds):
                continue
            for enc in ('utf-8', 'utf-16') if tier != 'quick' else ('utf-8',):
                out.append(('teehtml', {'caption': cap, 'index_header': ih, 'truncate': tr, 'lineterminator': lt,
                                        'tr_style': trs, 'td_styles': tds, 'encoding': enc}))
    out.append(('teehtml', {'encoding': 'latin-1', 'caption': 'c'}))
    return out


def pickle_cfgs(tier):
    out = [('teepickle', {})]
    for wh in (True, False):
        for pr in (-1, 0, 2):
            out.append(('teepickle', {'write_header': wh, 'protocol': pr}))
    return out


# ---------------------------------------------------------------------------------------------
# targets
# ---------------------------------------------------------------------------------------------

class Target(object):
    def __init__(self, kind, name):
        self.kind = kind
        self.mem = None
        self.path = None
        if kind != 'mem':
            self.path = os.path.join(env.worker_dir(), 'c16-' + name + EXT[kind])

    def fresh(self):
        if self.kind == 'mem':
            self.mem = MemorySource()
            return self.mem
        if os.path.exists(self.path):
            os.remove(self.path)
        return self.path

    def content(self):
        if self.kind == 'mem':
            return self.mem.getvalue()
        if not os.path.exists(self.path):
            return None
        with open(self.path, 'rb') as fh:
            return ref.decompress(self.kind, fh.read())


TEE = {'teecsv': etl.teecsv, 'teetsv': etl.teetsv, 'teepickle': etl.teepickle, 'teetext': etl.teetext,
       'teehtml': etl.teehtml}
TO = {'teecsv': etl.tocsv, 'teetsv': etl.totsv, 'teepickle': etl.topickle, 'teetext': etl.totext,
      'teehtml': etl.tohtml}


def _kwargs(op, kw, table):
    kw = dict(kw)
    if kw.get('dialect') in DIALECT_CLASSES:
        kw['dialect'] = DIALECT_CLASSES[kw['dialect']]
    if op == 'teehtml':
        if 'tr_style' in kw:
            kw['tr_style'] = STYLES[kw['tr_style']]
        if 'td_styles' in kw:
            kw['td_styles'] = _td_styles(kw['td_styles'], table)
    return kw


def _exc(e):
    return '%s: %s' % (type(e).__name__, str(e)[:160])


def _take(view, k):
    """Rows of one pass: complete (k None) or abandoned after k items (iterator closed)."""
    it = iter(view)          # (list(view) would call len(view) first, which is a hidden extra pass)
    if k is None:
        return list(it)
    out = list(itertools.islice(it, k))
    close = getattr(it, 'close', None)
    if close is not None:
        close()
    return out


_UNSET = object()


def to_content(op, table, kw, kind):
    """What the corresponding to* call writes into a target of the same kind (_UNSET when to* raises)."""
    b = Target(kind, 'to')
    try:
        TO[op](table, b.fresh(), **_kwargs(op, kw, table))
    except Exception:
        return _UNSET
    return b.content()


def tee_case(op, table, kw, kind, pattern, want=_UNSET):
    """pattern: tuple of passes over ONE tee view, each None (complete) or k (abandoned after k items); the
    byte oracle is applied after every complete pass.  None = holds; 'excluded'; (signature, exp, obs)."""
    exp_rows = ref.norm_rows(table)
    a = Target(kind, 'tee')
    if want is _UNSET:
        want = to_content(op, table, kw, kind)
        if want is _UNSET:
            return 'excluded'
    try:
        view = TEE[op](table, a.fresh(), **_kwargs(op, kw, table))
    except Exception as e:
        return ('construction raises %s' % type(e).__name__, None, _exc(e))
    for k in pattern:
        try:
            got = _take(view, k)
        except Exception as e:
            return ('iteration raises %s' % type(e).__name__, exp_rows if k is None else exp_rows[:k], _exc(e))
        e_rows = exp_rows if k is None else exp_rows[:k]
        if not ref.rows_same(got, e_rows):
            return ('yielded rows differ from the wrapped table', e_rows, ref.norm_rows_safe(got))
        if k is None:
            have = a.content()
            if have != want:
                return ('target content differs from what to* writes', want, have)
    return None


def _wrap(op, table, arg):
    if op == 'progress':
        if arg.get('out') == 'default':       # out=None: the view binds sys.stderr when it is built
            with contextlib.redirect_stderr(io.StringIO()):
                return etl.progress(table, arg['batchsize'], arg.get('prefix', ''))
        sink = SINKS[arg['out']]() if arg.get('out') in SINKS else io.StringIO()
        if 'prefix' not in arg:
            return etl.progress(table, arg['batchsize'], out=sink)
        return etl.progress(table, arg['batchsize'], arg['prefix'], out=sink)
    if op == 'log_progress':
        kw = {}
        if arg.get('logger') != 'default':    # logger=None: petl's own module logger (INFO records go nowhere)
            kw['logger'] = _QUIET
        if 'level' in arg:
            kw['level'] = arg['level']
        if 'prefix' in arg:
            kw['prefix'] = arg['prefix']
        return etl.log_progress(table, arg['batchsize'], **kw)
    if op == 'clock':
        return etl.clock(table)
    if op == 'wrap':
        return etl.wrap(table)
    if op == 'cache':
        if arg.get('default'):
            return etl_cache(table)
        return etl_cache(table, arg['n'])
    if op == 'cache-method':
        return etl.wrap(table).cache(arg['n'])
    raise ValueError(op)


def pass_case(op, table, arg, pattern):
    exp_rows = ref.norm_rows(table)
    try:
        view = _wrap(op, table, arg)
    except Exception as e:
        return ('construction raises %s' % type(e).__name__, None, _exc(e))
    for i, k in enumerate(pattern):
        e_rows = exp_rows if k is None else exp_rows[:k]
        try:
            got = _take(view, k)
        except Exception as e:
            return ('iteration raises %s' % type(e).__name__, e_rows, _exc(e))
        if not ref.rows_same(got, e_rows):
            return ('yielded rows differ from the wrapped table', e_rows, ref.norm_rows_safe(got))
    return None


def replay(case):
    table = case['table']
    pattern = tuple(case['pattern'])
    if case['kind'] == 'tee':
        r = tee_case(case['op'], table, case['kw'], case['target'], pattern)
    elif case['kind'] == 'pass':
        r = pass_case(case['op'], table, case['arg'], pattern)
    else:
        raise ValueError(case['kind'])
    if r is None or r == 'excluded':
        return None
    return (r[1], r[2], r[0])


# ---------------------------------------------------------------------------------------------
# enumeration
# ---------------------------------------------------------------------------------------------

def setup(tier, seed):
    _G.clear()
    _G.update({'tier': tier, 'seed': seed, 'tables': tables(seed, tier), 'pass': pass_tables(seed),
               'etables': error_tables(seed)})


def bounds(tier, seed):
    T = _G['tables']
    return {'tee_tables': len(T), 'pass_tables': len(_G['pass']), 'max_data_rows': 3,
            'errors_axis_tables': len(_G['etables']), 'errors_axis_configurations': len(errors_cfgs(tier, ('x', 'k'))),
            'errors_handlers': ERRORS, 'errors_encodings': ['ascii', 'latin-1'],
            'csv_configurations': len(csv_cfgs(tier)), 'text_configurations': len(text_cfgs(tier, ('x', 'k'))),
            'html_configurations': len(html_cfgs(tier)), 'pickle_configurations': len(pickle_cfgs(tier)),
            'target_kinds': KINDS, 'progress_batchsizes': '1, 2, n, n+1, 1000', 'progress_prefixes': PREFIXES,
            'progress_sinks': ['out=StringIO', 'out=None (stderr captured)', 'out=object with write() only',
                               'out=object with write()+flush()', 'logger given', 'logger=None'],
            'csv_dialect_names': ['excel', 'excel-tab', 'unix', 'Dialect subclass'],
            'cache_n': 'None, 1..rows+1', 'cache_pass_patterns': 'all sequences of 1..3 passes, each complete or '
            'abandoned after 0..rows-1 items'}


def vacuity(cov, tier):
    c = cov['per_case_counters']
    problems = []
    for op in TEE:
        for kind in KINDS:
            if not c.get('op:%s %s' % (op, kind)):
                problems.append('no case for %s on %s' % (op, kind))
    for op in ('progress', 'log_progress', 'clock', 'wrap', 'cache'):
        if not c.get('op:' + op):
            problems.append('no case for ' + op)
    if c.get('excluded:to* raises', 0) * 10 > cov['states']:
        problems.append('to* raised on more than a tenth of the tee states')
    return problems


def _slices(n, size):
    return [(lo, min(n, lo + size)) for lo in range(0, n, size)]


def items(tier, seed):
    n = len(_G['tables'])
    out = []
    size = {'csv': 60, 'text': 150, 'html': 60, 'pickle': 200} if tier == 'quick' else \
           {'csv': 60, 'text': 120, 'html': 40, 'pickle': 250}
    for fam in ('csv', 'text', 'html', 'pickle'):
        out += [('tee', fam, lo, hi) for lo, hi in _slices(n, size[fam])]
    out += [('tee', 'errors', lo, hi) for lo, hi in _slices(len(_G['etables']), 40)]
    out += [('pass', lo, hi) for lo, hi in _slices(len(_G['pass']), 8)]
    out += [('cache', lo, hi) for lo, hi in _slices(len(_G['pass']), 4)]
    return spaces.rotate(out, seed * 5)


def cost(item):
    if item[0] == 'tee':
        return {'csv': 6, 'html': 6, 'text': 4, 'pickle': 3, 'errors': 5}[item[1]]
    return 2 if item[0] == 'cache' else 1


def _mark_allkinds(cfgs, tier):
    """Which configurations are crossed with all four target kinds: per wrapper the first configuration of
    every (encoding, write_header) pair that has no other arguments than encoding / write_header / template /
    prologue / epilogue / protocol.  The others run on MemorySource (quick) or MemorySource + .gz (thorough)."""
    out = []
    seen = set()
    for op, kw in cfgs:
        key = (op, kw.get('encoding'), kw.get('write_header', True))
        plain = all(k in ('encoding', 'write_header', 'template', 'prologue', 'epilogue', 'protocol') for k in kw)
        allk = plain and key not in seen
        if allk:
            seen.add(key)
        out.append((op, kw, allk))
    return out


def _encodable(table, kw):
    """Under errors='strict' (the default) only text the codec can encode is in the domain (to* raises
    otherwise); with any other handler every text is."""
    enc = kw.get('encoding')
    if enc in (None, 'utf-8', 'utf-16') or kw.get('errors', 'strict') != 'strict':
        return True
    extra = [(kw.get(k),) for k in ('prologue', 'epilogue', 'caption') if kw.get(k) is not None]
    return ref.encodable(list(table) + extra, enc)


def _run_tee(acc, fam, lo, hi):
    tier = _G['tier']
    pool = _G['etables'] if fam == 'errors' else _G['tables']
    for table in pool[lo:hi]:
        hdr = table[0]
        nrows = len(table)
        if fam == 'errors':
            cfgs = errors_cfgs(tier, hdr)
        elif fam == 'csv':
            cfgs = csv_cfgs(tier)
        elif fam == 'text':
            cfgs = text_cfgs(tier, hdr)
        elif fam == 'html':
            cfgs = html_cfgs(tier)
        else:
            cfgs = pickle_cfgs(tier)
        for op, kw, allkinds in _mark_allkinds(cfgs, tier):
            if not _encodable(table, kw):
                acc.counters['excluded:not encodable'] += 1
                continue
            for kind in (KINDS if allkinds else (['mem'] if tier == 'quick' else ['mem', 'gz'])):
                patterns = [(None, None)]
                if kind == 'mem' and (allkinds or tier != 'quick'):
                    patterns += [(k, None) for k in range(0, nrows)]
                want = to_content(op, table, kw, kind)
                acc.transitions += 1
                if want is _UNSET:
                    acc.counters['excluded:to* raises'] += 1
                    continue
                for pattern in patterns:
                    acc.states += 1
                    r = tee_case(op, table, kw, kind, pattern, want)
                    acc.evals += len(pattern) + sum(1 for k in pattern if k is None)
                    acc.transitions += len(pattern)
                    acc.counters['op:%s %s' % (op, kind)] += 1
                    if nrows > 1:
                        acc.nontrivial += 1
                    if r is not None:
                        sig, exp, obs = r
                        case = {'kind': 'tee', 'op': op, 'table': table, 'kw': kw, 'target': kind,
                                'pattern': list(pattern)}
                        acc.violation('%s -> %s | %s' % (op, KINDNAME[kind], sig), case, exp, obs,
                                      '%s(%r, <%s>, **%r), passes %r (None = complete, k = abandoned after k items)'
                                      % (op, table, kind, kw, pattern))
        acc.outcome(('tee', fam, nrows, repr(table[-1])[:30]))
    acc.sample({'part': 'tee', 'family': fam, 'table': pool[lo]}, 1)


PREFIXES = ['', 'p: ', '[50%] ', '%s %d %(x)s', '{} {0} {x}', '\xe9\u2192 ']


def _patterns(nrows, maxpasses):
    opts = [None] + list(range(0, nrows))
    for n in range(1, maxpasses + 1):
        for p in itertools.product(opts, repeat=n):
            yield p


def _run_pass(acc, lo, hi):
    for table in _G['pass'][lo:hi]:
        nrows = len(table)
        n = nrows - 1
        sizes = sorted(set([1, 2, max(n, 1), n + 1, 1000]))
        # the views' own options as an axis: message prefix (text that looks like a format string must stay
        # plain text), report sink given / default, logger given / default, log level
        wrappers = [('progress', {'batchsize': b}) for b in sizes]
        wrappers += [('log_progress', {'batchsize': b}) for b in sizes]
        for b in sizes:
            for pf in PREFIXES:
                wrappers.append(('progress', {'batchsize': b, 'prefix': pf}))
                wrappers.append(('progress', {'batchsize': b, 'prefix': pf, 'out': 'default'}))
                wrappers.append(('log_progress', {'batchsize': b, 'prefix': pf}))
                wrappers.append(('log_progress', {'batchsize': b, 'prefix': pf, 'logger': 'default'}))
            # kind of the out= sink: an object with write() only, one that also has flush()
            wrappers.append(('progress', {'batchsize': b, 'out': 'writeonly'}))
            wrappers.append(('progress', {'batchsize': b, 'out': 'flushable', 'prefix': PREFIXES[1]}))
            wrappers.append(('log_progress', {'batchsize': b, 'level': logging.DEBUG}))
            wrappers.append(('log_progress', {'batchsize': b, 'level': logging.WARNING, 'prefix': PREFIXES[2]}))
        wrappers += [('clock', {}), ('wrap', {})]
        for op, arg in wrappers:
            for pattern in _patterns(nrows, 2):
                acc.states += 1
                acc.evals += len(pattern)
                acc.transitions += len(pattern)
                acc.counters['op:%s' % op] += 1
                if nrows > 1:
                    acc.nontrivial += 1
                r = pass_case(op, table, arg, pattern)
                if r is not None:
                    sig, exp, obs = r
                    case = {'kind': 'pass', 'op': op, 'table': table, 'arg': arg, 'pattern': list(pattern)}
                    acc.violation('%s | %s' % (op, sig), case, exp, obs,
                                  '%s(%r, %r), passes %r (None = complete, k = abandoned after k items)'
                                  % (op, table, arg, pattern))
        acc.outcome(('pass', nrows, repr(table[-1])[:30]))
    acc.sample({'part': 'pass', 'table': _G['pass'][lo]}, 1)


def _run_cache(acc, lo, hi):
    for table in _G['pass'][lo:hi]:
        nrows = len(table)
        args = [('cache', {'default': True}), ('cache', {'n': None})]
        args += [('cache', {'n': n}) for n in range(1, nrows + 2)]
        args += [('cache-method', {'n': n}) for n in (None, 1, nrows)]
        for op, arg in args:
            for pattern in _patterns(nrows, 3):
                acc.states += 1
                acc.evals += len(pattern)
                acc.transitions += len(pattern)
                acc.counters['op:cache'] += 1
                n = arg.get('n')
                if nrows > 1 and (len(pattern) > 1 or (n is not None and n < nrows)):
                    acc.nontrivial += 1
                r = pass_case(op, table, arg, pattern)
                if r is not None:
                    sig, exp, obs = r
                    case = {'kind': 'pass', 'op': op, 'table': table, 'arg': arg, 'pattern': list(pattern)}
                    acc.violation('cache | %s' % sig, case, exp, obs,
                                  'cache(%r, %r), passes %r (None = complete, k = abandoned after k items)'
                                  % (table, arg, pattern))
        acc.outcome(('cache', nrows, repr(table[-1])[:30]))


def run_item(item, acc):
    if item[0] == 'tee':
        _run_tee(acc, item[1], item[2], item[3])
    elif item[0] == 'pass':
        _run_pass(acc, item[1], item[2])
    elif item[0] == 'cache':
        _run_cache(acc, item[1], item[2])
    else:
        raise ValueError(item)
