"""C12 - row- and field-level transforms touch only what they are asked to.

Bounded exhaustive enumeration (E2): for every function of the property and every documented argument form,
ALL tables up to n data rows x w fields (position-tagged cells, every vector of row lengths where padding /
trimming is documented, every pattern of duplicate field names where selection is defined by asindices) x
ALL argument values of the form are run through the real petl function and compared cell by cell with the
reference model mc/refs/rowtransforms.py (DESIGN.md Appendix A).  Independently of the reference the frame
conditions "one output row per input row" and "no cell of another input row appears in an output row" are
checked for the 1:1 functions.

Work items are (function, argument form, header(s), row count(s), chunk); a case is fully described by
{'fn', 'form', 'tables', 'args', 'kwargs'} and replayable on its own.
"""
import itertools
from collections import OrderedDict

import petl as etl

from .. import spaces
from ..refs import rowtransforms as R

ID = 'C12'
LEVEL = 'model_checking'
ENGINE = 'E2 small-scope enumeration against a cell-by-cell reference model'
RULE = ('per function (49 incl. the rename/convert suffix-notation forms) x argument form: ALL tables with n<=3 data rows (quick: n<=2 for the largest spaces - cut, '
        'cutout, values, two-definition addfields, list-of-converters convert, fillright/fillleft, 3-field filldown; '
        'thorough: n<=4 for filldown with <=2 fields and addfieldusingcontext) and w<=3 fields whose cells are '
        'position-tagged strings (r<i>c<j>), every vector of row lengths 0..w+1 where padding/trimming is documented '
        '(rectangular otherwise), every equality pattern of field names where selection goes through asindices or no '
        'field is selected by name, x EVERY argument value of the form (all ordered selections of <=w fields by '
        'name/index/mixed incl. repeats and a near-miss unknown name, all insertion indices -(w+2)..w+2 and None, all '
        'converter forms, where (callable/expression), pass_row, missing in {default, chosen}); multi-entry specs '
        'reference each other: rename - EVERY spec of 1..w entries keyed by name or in-range index whose new names range '
        'over the table\'s own field names (swaps, shifts/chains, collisions, identity) and two fresh names, in EVERY '
        'entry order, as dict and as suffix-notation assignments (with/without an initial dict), strict on/off; '
        'set/extend/pushheader with headers built from the own field names; convert pass_row dict specs computing each '
        'field from any other field in every key style and order, pass_row list specs, translation dictionaries whose '
        'values are keys again; fieldmap output names over own+fresh names; cat/stack/annex over 1-3 '
        'tables with equal/permuted/overlapping/disjoint/narrower/wider headers; fill functions: all cell assignments '
        'over {missing, x, y}.  SECOND AXIS (state surviving on a view between passes): for every lazily evaluated '
        'function (all but columns/header/fieldnames/listof*/tupleof*) x every call form x every header kind with <=2 '
        'fields x every argument value (3-field headers for forms with <=200 argument values), on mutable 2-row list '
        'tables: pass 1 over the view in {complete, first items only, none} x EVERY in-place change of one input '
        '(rename each field, swap two names, append/drop a column, shorten/lengthen each row, append/drop a row, '
        'change a cell; field renames also through an upstream rename view by suffix notation) -> pass 2 over the '
        'SAME view object must equal (or raise like) a freshly built view over the changed source; for the convert-all '
        'convenience forms (convertall, replaceall, convertnumbers, formatall, interpolateall) the statement leaves open '
        'whether "all fields" is resolved at iteration or at the call, so EITHER the fresh view OR a fresh '
        'convert(changed source, <all field positions at construction>, same converter) is accepted - nothing else.  '
        'THIRD AXIS (row type delivered by the upstream stage): every function x call form x header kind with <=2 '
        'fields x every argument value x every table with 1-2 rows of every length 0..w+1 x stage 1 in {list rows, '
        'Record rows via convert(where=never), tuple+Record rows via convert(where=first row), Record rows via '
        'selectusingcontext, namedtuple rows}: stage 2 (the function) on stage 1 must equal the same call on the '
        'materialised tuple rows (or raise like it); further kinds: list rows handed on by the pass-through stages '
        'skip(0)+cache(), and sqlite3.Row rows from fromdb (rectangular tables with distinct names).  Since repair '
        'ccf9930 the convert/selectusingcontext kinds deliver tuples; they are kept to pin the repair.  '
        'states = distinct (tables, arguments[, pass-1 kind, change | upstream row type]) points; transitions = petl evaluations; a case '
        'is non-trivial when it has >=1 data row and the expected output differs from the (first) input table or an '
        'input row is ragged.  Excluded because the documentation gives no answer (only the frame conditions - one '
        'output row per input row, built from that row - are checked there, in the "(frame only)" forms): duplicate '
        'field names for cat/rename/convert-by-name/sortheader, ragged rows for movefield/addcolumn/'
        'addfieldusingcontext/fieldmap/rowmap, long rows for sortheader and the convert-all forms.  Not generated at '
        'all: negative selection indices; two keys naming one field; short rows for filldown; zero data rows for '
        'filldown (C20); failing converters (C19); sortheader(reverse=); len()/iteration of a Record (only '
        'index/name/attribute access is compared); dicts/namedtuples/columns with duplicate field names.')
ASSUMPTIONS = ['small scope: w<=3 fields, n<=3(4) rows; one representative per converter form',
               'cells are hashable strings/None (numeric strings for convertnumbers); headers are strings except one '
               'int-valued header kind for cut/cutout/values',
               'insertion with an out-of-range or negative index follows list.insert (DESIGN Appendix A)',
               'a selection naming a non-existent field must raise (any exception type is accepted)']

MISS = '∅'
_TIER = 'quick'
_SEED = 0
_N = ('foo', 'bar', 'baz', 'qux')
_NAME_POOLS = [('foo', 'bar', 'baz', 'qux'), ('p', 'q', 's', 'u'), ('B', 'a', 'b', 'A'), ('x1', 'x0', 'y', 'x')]
_TAGS = {}


def setup(tier, seed):
    global _TIER, _SEED, _N
    _TIER, _SEED = tier, seed
    _N = _NAME_POOLS[seed % len(_NAME_POOLS)]
    _TAGS.clear()
    for letter in 'rst':
        for i in range(8):
            for j in range(8):
                _TAGS['%s%dc%d' % (letter, i, j)] = (letter, i)


# ---------------------------------------------------------------------------------------------
# table spaces
# ---------------------------------------------------------------------------------------------

def cell(letter, i, j):
    return '%s%dc%d' % (letter, i, j)


def mk(hdr, lens, letter='r'):
    return (tuple(hdr),) + tuple(tuple(cell(letter, i, j) for j in range(L)) for i, L in enumerate(lens))


def shape_vectors(w, n, lens):
    """All vectors of row lengths; the all-full vector first, then shortest-deviation first."""
    vs = list(itertools.product(lens, repeat=n))
    vs.sort(key=lambda v: (sum(1 for x in v if x != w), v))
    return vs


def tables1(hdr, n, lens, letter='r'):
    return [(mk(hdr, v, letter),) for v in shape_vectors(len(hdr), n, lens)]


def LENS_ALL(w):
    return list(range(0, w + 2))


def LENS_RECT(w):
    return [w]


def LENS_SHORT(w):
    return list(range(0, w + 1))


def celltables(hdr, n, lens, alph):
    """All tables whose cell (i, j) ranges over alph(i, j); all row-length vectors over lens."""
    out = []
    for v in shape_vectors(len(hdr), n, lens):
        pools = [alph(i, j) for i, L in enumerate(v) for j in range(L)]
        for cells in itertools.product(*pools):
            rows, k = [], 0
            for L in v:
                rows.append(tuple(cells[k:k + L]))
                k += L
            out.append(((tuple(hdr),) + tuple(rows),))
    return out


def rgs(w):
    """All equality patterns of w field names (restricted growth strings), distinct first."""
    out = []

    def rec(prefix, mx):
        if len(prefix) == w:
            out.append(tuple(prefix))
            return
        for k in range(mx + 2):
            rec(prefix + [k], max(mx, k))
    rec([], -1)
    out.sort(key=lambda p: (-len(set(p)), p))
    return [tuple(_N[k] for k in p) for p in out]


def distinct_hdrs(ws=(1, 2, 3)):
    return [tuple(_N[:w]) for w in ws]


def all_hdrs(ws=(1, 2, 3)):
    return [h for w in ws for h in rgs(w)]


def int_hdrs():
    return [(1, 0), (2, _N[0], 0)]


def nmax():
    return 3


def NS(lo=0, quick=3, thorough=3):
    """Row counts of a one-table space: lo..quick (quick tier) / lo..thorough."""
    def f(hdrs):
        m = thorough if _TIER == 'thorough' else quick
        return [(n,) for n in range(lo, m + 1)]
    return f


def NS2(quick=2, thorough=3, total=4):
    """Row-count pairs of a two-table space."""
    def f(hdrs):
        m = thorough if _TIER == 'thorough' else quick
        return [(n1, n2) for n1 in range(0, m + 1) for n2 in range(0, m + 1) if n1 + n2 <= total]
    return f


def unknown(hdr):
    """A name that is not a field but nearly one: the first field name without its last character."""
    u = str(hdr[0])[:-1]
    return u if u not in [str(h) for h in hdr] else 'zz'


def sel_alphabet(hdr):
    a = []
    for h in hdr:
        if str(h) not in a:
            a.append(str(h))
    return a + list(range(len(hdr) + 1)) + [unknown(hdr)]


def selections(hdr, maxlen=None, minlen=0):
    a = sel_alphabet(hdr)
    return [t for t in spaces.tuples_upto(a, len(hdr) if maxlen is None else maxlen, minlen)]


def kw_missing():
    return [{}, {'missing': MISS}]


def indices(w, extra=2):
    return list(range(-(w + extra), w + extra + 1))


# ---------------------------------------------------------------------------------------------
# the catalogue of spaces: SPACES[fn][form] = (headers(), tables(hdrs, ns), args(hdrs, ns), ns())
#   headers() -> list of header tuples-of-tuples (one header per input table)
#   ns(hdrs)  -> list of row-count tuples
#   tables(hdrs, ns) -> list of tuples of tables;  args(hdrs, ns) -> list of (args, kwargs)
# ---------------------------------------------------------------------------------------------

SPACES = OrderedDict()


FRAME_ONLY = set()
LABEL = {}


def space(fn, form, headers, tables, args, ns=None, frame_only=False, label=None):
    """frame_only: inputs on which the documentation is silent (no reference): if petl returns a table it must
    still have one output row per input row, in order, built from that row's cells."""
    SPACES.setdefault(fn, OrderedDict())[form] = (headers, tables, args, ns or NS())
    if frame_only:
        FRAME_ONLY.add((fn, form))
    if label:
        LABEL[(fn, form)] = label     # several functions sharing one violation group (one defect, one report)


def H1(hs):
    return lambda: [(h,) for h in hs()]


def T1(lens, letter='r'):
    return lambda hdrs, ns: tables1(hdrs[0], ns[0], lens(len(hdrs[0])), letter)


# ---- cut / cutout ---------------------------------------------------------------------------
space('cut', 'positional', H1(lambda: all_hdrs() + int_hdrs()), T1(LENS_ALL),
      lambda hdrs, ns: [(s, {}) for s in selections(hdrs[0])], NS(0, 2, 3))
space('cut', 'positional+missing', H1(lambda: all_hdrs() + int_hdrs()), T1(LENS_ALL),
      lambda hdrs, ns: [(s, {'missing': MISS}) for s in selections(hdrs[0])], NS(0, 2, 3))
space('cut', 'single list/tuple argument', H1(lambda: all_hdrs((1, 2)) + distinct_hdrs((3,))), T1(LENS_ALL),
      lambda hdrs, ns: [((typ(s),), kw) for s in selections(hdrs[0], 2) for typ in (list, tuple)
                        for kw in kw_missing()])
space('cutout', 'positional', H1(lambda: all_hdrs() + int_hdrs()), T1(LENS_ALL),
      lambda hdrs, ns: [(s, {}) for s in selections(hdrs[0])], NS(0, 2, 3))
space('cutout', 'positional+missing', H1(lambda: all_hdrs((1, 2)) + distinct_hdrs((3,))), T1(LENS_ALL),
      lambda hdrs, ns: [(s, {'missing': MISS}) for s in selections(hdrs[0])], NS(0, 2, 3))

# ---- movefield ------------------------------------------------------------------------------
space('movefield', 'name,index', H1(distinct_hdrs), T1(LENS_RECT),
      lambda hdrs, ns: [((f, i), {}) for f in hdrs[0] for i in indices(len(hdrs[0]), 1)])
space('movefield', 'ragged rows (frame only)', H1(distinct_hdrs), T1(LENS_ALL),
      lambda hdrs, ns: [((f, i), {}) for f in hdrs[0] for i in indices(len(hdrs[0]), 1)], frame_only=True)


# ---- cat / stack / annex --------------------------------------------------------------------
def hdr_pairs():
    a, b, c, d = _N
    firsts = [(a,), (a, b)]
    seconds = [(a,), (b,), (a, b), (b, a), (b, c), (c, d), (c, a), (a, b, c)]
    if _TIER == 'thorough':
        firsts.append((a, b, c))
        seconds.extend([(c, b, a), (a, c, d)])
    return [(h1, h2) for h1 in firsts for h2 in seconds]


def tables2(hdrs, ns):
    t1 = tables1(hdrs[0], ns[0], LENS_ALL(len(hdrs[0])), 'r')
    t2 = tables1(hdrs[1], ns[1], LENS_ALL(len(hdrs[1])), 's')
    return [(x[0], y[0]) for x in t1 for y in t2]


def hdr_triples():
    a, b, c, d = _N
    return [((a, b), (b, c), (c, a)), ((a,), (a, b), (a,)), ((a, b), (c,), (a, b, d))]


def tables3(hdrs, ns):
    ts = [tables1(h, n, LENS_ALL(len(h)), letter) for h, n, letter in zip(hdrs, ns, 'rst')]
    return [(x[0], y[0], z[0]) for x in ts[0] for y in ts[1] for z in ts[2]]


def NS3(hdrs):
    m = 2 if _TIER == 'thorough' else 1
    return [(n1, n2, n3) for n1 in range(m + 1) for n2 in range(m + 1) for n3 in range(m + 1)
            if n1 + n2 + n3 <= m + 2]


def cat_headers(hdrs):
    a, b, c, d = _N
    names = []
    for h in hdrs:
        for x in h:
            if x not in names:
                names.append(x)
    out = [list(names), list(reversed(names)), names[:1], ['zz'] + names[-1:] + ['yy'], []]
    return [{'header': h} for h in out] + [{'header': tuple(names[::-1]), 'missing': MISS}]


space('cat', 'one table', H1(distinct_hdrs), T1(LENS_ALL),
      lambda hdrs, ns: [((), kw) for kw in kw_missing() + cat_headers(hdrs)])
space('cat', 'two tables', hdr_pairs, tables2,
      lambda hdrs, ns: [((), kw) for kw in kw_missing() + cat_headers(hdrs)], NS2())
space('stack', 'one table', H1(all_hdrs), T1(LENS_ALL), lambda hdrs, ns: [((), kw) for kw in kw_missing()])
space('stack', 'two tables', hdr_pairs, tables2, lambda hdrs, ns: [((), kw) for kw in kw_missing()], NS2())
space('annex', 'two tables', hdr_pairs, tables2, lambda hdrs, ns: [((), kw) for kw in kw_missing()],
      NS2(3, 3))
space('cat', 'three tables', hdr_triples, tables3, lambda hdrs, ns: [((), kw) for kw in kw_missing()], NS3)
space('stack', 'three tables', hdr_triples, tables3, lambda hdrs, ns: [((), kw) for kw in kw_missing()], NS3)
space('annex', 'three tables', hdr_triples, tables3, lambda hdrs, ns: [((), kw) for kw in kw_missing()], NS3)
space('cat', 'duplicate field names (frame only)', H1(lambda: [h for h in all_hdrs((2, 3)) if len(set(h)) < len(h)]),
      T1(LENS_ALL), lambda hdrs, ns: [((), kw) for kw in kw_missing()], frame_only=True)


# ---- addfield / addfields / addcolumn / addrownumbers / addfieldusingcontext -----------------
def kw_index(w, extra=2):
    out = [{}, {'index': None}] + [{'index': i} for i in indices(w, extra)]
    return [dict(k, **m) for k in out for m in kw_missing()]


def rec_callables(hdr):
    return ['@echo', '@get:%s' % hdr[-1], '@attr:%s' % hdr[0], '@idx:%d' % (len(hdr) - 1)]


space('addfield', 'constant value', H1(lambda: distinct_hdrs() + rgs(2)[1:] + rgs(3)[1:2]), T1(LENS_ALL),
      lambda hdrs, ns: [(('new', 'V'), kw) for kw in kw_index(len(hdrs[0]))] + [(('new',), {})]
      + [(('new', 'V', i), {}) for i in (None, 0, 1, -1)] + [(('new', 'V', i, MISS), {}) for i in (None, 0, 1, -1)])
space('addfield', 'callable value', H1(distinct_hdrs), T1(LENS_ALL),
      lambda hdrs, ns: [(('new', c), kw) for c in rec_callables(hdrs[0]) for kw in kw_index(len(hdrs[0]))])


def fdefs(hdr, k, extra, vals=None):
    """All field definitions for the k-th new field: (name, value) and (name, value, index)."""
    w = len(hdr)
    name = 'new%d' % k
    vals = vals or ['V%d' % k, '@echo', '@get:%s' % hdr[0]]
    out = []
    for v in vals:
        out.append((name, v))
        for i in indices(w + k, extra):
            out.append((name, v, i))
    return out


space('addfields', 'one definition', H1(distinct_hdrs), T1(LENS_ALL),
      lambda hdrs, ns: [(([d],), kw) for d in fdefs(hdrs[0], 0, 2) for kw in kw_missing()] + [(([],), {})])
space('addfields', 'two definitions', H1(distinct_hdrs), T1(LENS_ALL),
      lambda hdrs, ns: [(([d0, d1],), {}) for d0 in fdefs(hdrs[0], 0, 1, ['V0', '@echo'])
                        for d1 in fdefs(hdrs[0], 1, 1)]
      + [(([d0, d1],), {'missing': MISS}) for d0 in fdefs(hdrs[0], 0, 0, ['V0'])
         for d1 in fdefs(hdrs[0], 1, 0, ['V1', '@echo'])], NS(0, 2, 3))
space('addfields', 'tuple of definitions', H1(lambda: distinct_hdrs((2,))), T1(LENS_ALL),
      lambda hdrs, ns: [(((('new0', 'V0', 1), ('new1', '@echo')),), {}), ((((['new0', 'V0']), ['new1', 'V1', 0]),), {})])


def addcolumn_args(hdrs, ns):
    n, w = ns[0], len(hdrs[0])
    out = []
    for m in sorted({max(0, n - 1), n, n + 1}, key=lambda m: abs(m - n)):
        col = ['k%d' % i for i in range(m)]
        for kw in kw_index(w):
            out.append((('new', col), kw))
    return out


space('addcolumn', 'column shorter/equal/longer', H1(distinct_hdrs), T1(LENS_RECT), addcolumn_args)
space('addrownumbers', 'start,step,field', H1(all_hdrs), T1(LENS_ALL),
      lambda hdrs, ns: [((), {}), ((1, 1), {}), ((0, 2), {}), ((5, -1), {}), ((), {'start': 0}),
                        ((), {'step': 3}), ((), {'field': 'nr'}), ((2, 2, 'nr'), {})])
space('addfieldusingcontext', 'query echoes prv/cur/nxt', H1(distinct_hdrs), T1(LENS_RECT),
      lambda hdrs, ns: [(('new', q), {}) for q in ['@ctx', '@ctxget:%s' % hdrs[0][-1], '@ctxprev:new']], NS(0, 4, 4))
space('addfieldusingcontext', 'ragged rows (frame only)', H1(distinct_hdrs), T1(LENS_ALL),
      lambda hdrs, ns: [(('new', '@ctx'), {})], frame_only=True)
space('addcolumn', 'ragged rows (frame only)', H1(distinct_hdrs), T1(LENS_ALL),
      lambda hdrs, ns: [(('new', ['k%d' % i for i in range(ns[0])]), kw) for kw in kw_index(len(hdrs[0]), 0)],
      frame_only=True)


# ---- header functions -------------------------------------------------------------------------
def rename_pair_args(hdrs, ns):
    hdr = hdrs[0]
    keys = list(hdr) + list(range(len(hdr) + 2)) + ['zz', unknown(hdr), hdr[0] + 'x']
    out = []
    for k in keys:
        for new in ['NEW'] + list(hdr):
            for kw in ({}, {'strict': True}, {'strict': False}):
                out.append(((k, new), kw))
    return out


def rename_chain_specs(hdr):
    """EVERY rename spec with 1..w entries, as an ordered list of (key, new name): each field is untouched or
    renamed, keyed by its name or by its index, to any field name of the table (its own, or another one: swaps,
    shifts/chains, collisions) or to one of two fresh names; every ORDER of the entries (a dict is ordered)."""
    w = len(hdr)
    news = list(hdr) + ['N0', 'N1']
    per = [None] + [(style, new) for style in (0, 1) for new in news]
    specs = []
    for choice in itertools.product(per, repeat=w):
        entries = [((hdr[j] if c[0] == 0 else j), c[1]) for j, c in enumerate(choice) if c is not None]
        if not entries:
            continue
        for perm in itertools.permutations(entries):
            specs.append(list(perm))
    specs.sort(key=len)
    return specs


def rename_chain_dict_args(hdrs, ns):
    return [((dict(sp),), kw) for sp in rename_chain_specs(hdrs[0]) for kw in ({}, {'strict': False})]


def rename_chain_setitem_args(hdrs, ns):
    """suffix notation: view = rename(t[, {first entries}]); view[key] = new for the remaining entries, in order."""
    out = []
    for sp in rename_chain_specs(hdrs[0]):
        for k in sorted({0, 1, len(sp) - 1}):
            if k >= len(sp):
                continue
            for kw in ({}, {'strict': False}):
                out.append(((sp[k:], sp[:k]), kw))
    return out


def rename_dict_args(hdrs, ns):
    hdr = hdrs[0]
    w = len(hdr)
    out = [(({},), {}), ((), {})]
    # every assignment position -> (untouched | by name | by index), plus unknown keys
    for choice in itertools.product((0, 1, 2), repeat=w):
        if not any(choice):
            continue
        d = OrderedDict()
        for j, c in enumerate(choice):
            if c == 1:
                d[hdr[j]] = 'N%d' % j
            elif c == 2:
                d[j] = 'N%d' % j
        for kw in ({}, {'strict': False}):
            out.append(((dict(d),), kw))
    for extra in ('zz', w + 1, unknown(hdr), hdr[-1] + 'x'):
        d = {hdr[0]: 'N0', extra: 'NX'}
        for kw in ({}, {'strict': True}, {'strict': False}):
            out.append(((d,), kw))
    return out


def new_headers(hdrs, ns):
    """Fresh names of every length 0..w+1, and headers built from the table's OWN field names (reversed, rotated,
    repeated, mixed with fresh ones) so that new names coincide with old ones."""
    hdr = list(hdrs[0])
    w = len(hdr)
    out = [(typ('h%d' % i for i in range(m)),) for m in range(0, w + 2) for typ in (list, tuple)]
    own = [hdr[::-1], hdr[1:] + hdr[:1], hdr[:1] * w, hdr + hdr[:1], ['h0'] + hdr[:-1], hdr[-1:]]
    seen = []
    for h in own:
        if h not in seen:
            seen.append(h)
            out.append((list(h),))
    return out


space('rename', 'old,new', H1(distinct_hdrs), T1(LENS_ALL), rename_pair_args)
space('rename', 'dict', H1(distinct_hdrs), T1(LENS_ALL), rename_dict_args)
# chains / swaps / collisions: the header is what matters, rows (all lengths) only have to pass through
space('rename', 'dict: every spec over own+fresh names, every entry order', H1(distinct_hdrs), T1(LENS_ALL),
      rename_chain_dict_args, NS(0, 1, 2))
space('rename[]=', 'suffix notation: every spec over own+fresh names, every order', H1(distinct_hdrs), T1(LENS_ALL),
      rename_chain_setitem_args, NS(0, 1, 1))
space('setheader', 'list', H1(all_hdrs), T1(LENS_ALL), lambda hdrs, ns: [(a, {}) for a in new_headers(hdrs, ns)])
space('extendheader', 'list', H1(all_hdrs), T1(LENS_ALL), lambda hdrs, ns: [(a, {}) for a in new_headers(hdrs, ns)])
space('pushheader', 'list', H1(all_hdrs), T1(LENS_ALL), lambda hdrs, ns: [(a, {}) for a in new_headers(hdrs, ns)])
space('pushheader', 'positional', H1(all_hdrs), T1(LENS_ALL),
      lambda hdrs, ns: [(tuple('h%d' % i for i in range(m)), {}) for m in range(2, len(hdrs[0]) + 2)])
space('skip', 'n', H1(all_hdrs), T1(LENS_ALL), lambda hdrs, ns: [((k,), {}) for k in range(0, ns[0] + 3)])
space('prefixheader', 'prefix', H1(all_hdrs), T1(LENS_ALL), lambda hdrs, ns: [(('pre_',), {}), ((7,), {})])
space('suffixheader', 'suffix', H1(all_hdrs), T1(LENS_ALL), lambda hdrs, ns: [(('_suf',), {}), ((7,), {})])
space('sortheader', 'all header permutations',
      H1(lambda: [p for h in distinct_hdrs() for p in itertools.permutations(h)]), T1(LENS_SHORT),
      lambda hdrs, ns: [((), kw) for kw in kw_missing()])
space('sortheader', 'long rows, duplicate names (frame only)',
      H1(lambda: [p for h in all_hdrs((2, 3)) for p in sorted(set(itertools.permutations(h)))]), T1(LENS_ALL),
      lambda hdrs, ns: [((), kw) for kw in kw_missing()], frame_only=True)
space('rename', 'duplicate names (frame only)', H1(lambda: [h for h in all_hdrs((2, 3)) if len(set(h)) < len(h)]),
      T1(LENS_ALL), lambda hdrs, ns: [((k, 'NEW'), {}) for k in sel_alphabet(hdrs[0])[:-1]], frame_only=True)


# ---- convert ----------------------------------------------------------------------------------
def field_keys(hdr):
    return list(hdr) + list(range(len(hdr)))


def some_dict(hdr):
    """A translation dictionary hitting some cells of rows 0 and 1 in every column."""
    d = {}
    for j in range(len(hdr)):
        d[cell('r', j % 2, j)] = 'D%d' % j
    return d


def chain_dict(hdr):
    """A translation dictionary whose values are themselves keys / other cells of the table (x->y, y->z): a
    dictionary translation is ONE lookup per cell, not a repeated substitution."""
    d = {}
    w = len(hdr)
    for i in range(3):
        for j in range(w):
            # the translation of a cell is the (same row's) cell of the next column, which is a key again
            d[cell('r', i, j)] = cell('r', i, (j + 1) % w) if w > 1 else 'K%d' % i
        d['K%d' % i] = 'Z'
    return d


def convs(hdr):
    return ['@up', '@tag', 'upper', ('replace', 'c', 'C'), ['replace', 'r', 'RR', 1], some_dict(hdr), chain_dict(hdr)]


def convert_single(hdrs, ns):
    hdr = hdrs[0]
    out = []
    for f in field_keys(hdr) + ['zz', unknown(hdr), hdr[-1] + 'x']:
        for c in convs(hdr):
            if isinstance(c, (tuple, list)):
                out.append(((f,) + tuple(c), {}))        # convert(t, field, 'method', arg, ...)
                out.append(((f, c), {}))                 # convert(t, field, ('method', arg, ...))
            else:
                out.append(((f, c), {}))
    return out


def convert_multi(hdrs, ns):
    hdr = hdrs[0]
    w = len(hdr)
    out = []
    for k in range(0, w + 1):
        for pos in itertools.permutations(range(w), k):
            for style in itertools.product((0, 1), repeat=k):        # each field by name or by index
                fields = [hdr[p] if s == 0 else p for p, s in zip(pos, style)]
                for typ in (tuple, list):
                    out.append(((typ(fields), '@up'), {}))
                out.append(((tuple(fields), 'replace', 'c', 'C'), {}))
    out.append(((tuple(hdr) + ('zz',), '@up'), {}))
    return out


def convert_dictspec(hdrs, ns):
    hdr = hdrs[0]
    w = len(hdr)
    cs = convs(hdr)
    out = [(({},), {}), ((), {})]
    k = 0
    for choice in itertools.product((0, 1, 2), repeat=w):           # untouched | by name | by index
        if not any(choice):
            continue
        for rot in range(2):
            d = OrderedDict()
            for j, c in enumerate(choice):
                if c:
                    d[hdr[j] if c == 1 else j] = cs[(k + j + rot * 3) % len(cs)]
            k += 1
            out.append(((dict(d),), {}))
    out.append((({hdr[0]: '@up', 'zz': '@up'},), {}))
    return out


def convert_listspec(hdrs, ns):
    hdr = hdrs[0]
    w = len(hdr)
    alph = [None, '@up', 'upper', ('replace', 'c', 'C'), chain_dict(hdr)]
    out = []
    for m in range(0, w + 1):
        for cs in itertools.product(alph, repeat=m):
            for typ in (list, tuple):
                out.append(((typ(cs),), {}))
    return out


def wheres(hdr, n):
    out = ['@true', '@false']
    for i in range(min(n, 2)):
        out.append('@idxeq:0:%s' % cell('r', i, 0))
        out.append('@idxne:0:%s' % cell('r', i, 0))
    j = len(hdr) - 1
    out.append('@nameeq:%s:%s' % (hdr[j], cell('r', 0, j)))
    out.append('@attreq:%s:%s' % (hdr[j], cell('r', n - 1 if n else 0, j)))
    out.append("{%s} == '%s'" % (hdr[0], cell('r', 0, 0)))             # expression strings
    out.append("{%s} != '%s'" % (hdr[j], cell('r', 0, j)))
    return out


def convert_where(hdrs, ns):
    hdr = hdrs[0]
    out = []
    for wh in wheres(hdr, ns[0]):
        for f in field_keys(hdr):
            out.append(((f, '@up'), {'where': wh}))
        out.append(((tuple(hdr), 'upper'), {'where': wh}))
        out.append((({hdr[-1]: some_dict(hdr)},), {'where': wh}))
        out.append(((hdr[0], '@vrow'), {'where': wh, 'pass_row': True}))
    return out


def convert_passrow(hdrs, ns):
    hdr = hdrs[0]
    w = len(hdr)
    cs = ['@vrow'] + ['@vget:%s' % h for h in hdr] + ['@vidx:%d' % j for j in range(w)]
    out = []
    for f in field_keys(hdr):
        for c in cs:
            out.append(((f, c), {'pass_row': True}))
    # "Each conversion sees the original row"
    out.append((({h: '@vrow' for h in hdr},), {'pass_row': True}))
    out.append((({hdr[0]: '@vget:%s' % hdr[-1], hdr[-1]: '@vget:%s' % hdr[0]},), {'pass_row': True}))
    out.append((([c for c in cs[:w]],), {'pass_row': True}))
    # every spec in which each selected field is computed from any field of the row (itself, another selected one,
    # an unselected one): all assignments x key style x entry order.  "Each conversion sees the original row."
    per = [None] + [(style, src) for style in (0, 1) for src in range(w)]
    for choice in itertools.product(per, repeat=w):
        entries = [((hdr[j] if c[0] == 0 else j), '@vget:%s' % hdr[c[1]]) for j, c in enumerate(choice) if c is not None]
        if len(entries) < 2:
            continue
        for perm in itertools.permutations(entries):
            out.append(((dict(perm),), {'pass_row': True}))
    lal = [None, '@vrow'] + ['@vget:%s' % h for h in hdr]
    for m in range(1, w + 1):
        for cs2 in itertools.product(lal, repeat=m):
            out.append(((list(cs2),), {'pass_row': True}))
    return out


def convert_setitem(hdrs, ns):
    hdr = hdrs[0]
    out = []
    for f in field_keys(hdr):
        out.append(((((f, '@up'),),), {}))
    out.append(((tuple((h, 'upper') for h in hdr),), {}))
    out.append(((((hdr[0], '@up'),),), {'where': '@idxeq:0:r0c0'}))
    for a in hdr:
        for b in hdr:
            pairs = ((a, '@vget:%s' % b), (b, '@vget:%s' % a)) if a != b else ((a, '@vget:%s' % a),)
            out.append(((pairs,), {'pass_row': True}))
    return out


space('convert', 'field, converter', H1(distinct_hdrs), T1(LENS_ALL), convert_single)
space('convert', 'several fields, converter', H1(distinct_hdrs), T1(LENS_ALL), convert_multi)
space('convert', 'dict of converters', H1(distinct_hdrs), T1(LENS_ALL), convert_dictspec)
space('convert', 'list of converters', H1(distinct_hdrs), T1(LENS_ALL), convert_listspec, NS(0, 2, 3))
space('convert', 'where', H1(distinct_hdrs), T1(LENS_ALL), convert_where)
space('convert', 'pass_row', H1(distinct_hdrs), T1(LENS_ALL), convert_passrow)
space('convert[]=', 'suffix notation', H1(distinct_hdrs), T1(LENS_ALL), convert_setitem)


def kw_where(hdrs, ns):
    return [{}] + [{'where': wh} for wh in wheres(hdrs[0], ns[0])]


space('convertall', 'converter', H1(distinct_hdrs), T1(LENS_SHORT),
      lambda hdrs, ns: [((c,), kw) for c in ['@up', '@tag', 'upper', some_dict(hdrs[0])] for kw in kw_where(hdrs, ns)]
      + [(('replace', 'c', 'C'), {})])
space('replace', 'field,a,b', H1(distinct_hdrs), T1(LENS_SHORT),
      lambda hdrs, ns: [((f, cell('r', i, j), 'NEW'), kw) for f in field_keys(hdrs[0]) + ['zz']
                        for i in range(max(1, min(ns[0], 2))) for j in range(len(hdrs[0]))
                        for kw in kw_where(hdrs, ns)[:4]])
space('replaceall', 'a,b', H1(distinct_hdrs), T1(LENS_SHORT),
      lambda hdrs, ns: [((cell('r', i, j), 'NEW'), kw) for i in range(max(1, ns[0])) for j in range(len(hdrs[0]))
                        for kw in kw_where(hdrs, ns)[:4]])
space('update', 'field,value', H1(distinct_hdrs), T1(LENS_SHORT),
      lambda hdrs, ns: [((f, 'NEW'), kw) for f in field_keys(hdrs[0]) + ['zz'] for kw in kw_where(hdrs, ns)])
space('format', 'field,fmt', H1(distinct_hdrs), T1(LENS_SHORT),
      lambda hdrs, ns: [((f, '<{}>'), kw) for f in field_keys(hdrs[0]) + ['zz'] for kw in kw_where(hdrs, ns)[:4]])
space('formatall', 'fmt', H1(distinct_hdrs), T1(LENS_SHORT),
      lambda hdrs, ns: [(('<{}>',), kw) for kw in kw_where(hdrs, ns)[:4]])
space('interpolate', 'field,fmt', H1(distinct_hdrs), T1(LENS_SHORT),
      lambda hdrs, ns: [((f, '<%s>'), kw) for f in field_keys(hdrs[0]) + ['zz'] for kw in kw_where(hdrs, ns)[:4]])
space('interpolateall', 'fmt', H1(distinct_hdrs), T1(LENS_SHORT),
      lambda hdrs, ns: [(('<%s>',), kw) for kw in kw_where(hdrs, ns)[:4]])
space('sub', 'field,pattern,repl,count', H1(distinct_hdrs), T1(LENS_SHORT),
      lambda hdrs, ns: [((f, pat, repl) + cnt, {}) for f in field_keys(hdrs[0]) + ['zz']
                        for pat, repl in (('[0-9]', '#'), ('^r', ''), ('(c)(.)', '\\2\\1'))
                        for cnt in ((), (0,), (1,))]
      + [((hdrs[0][0], 'R', '_'), {'count': 1, 'flags': 2})])


def dup_hdrs():
    return [h for h in all_hdrs((2, 3)) if len(set(h)) < len(h)]


# "convert ALL fields": no field is selected by name, so duplicate field names leave nothing undefined
ALLFAMILY = 'convertall family (convertall, replaceall, convertnumbers, formatall, interpolateall)/duplicate field names'
space('convertall', 'duplicate field names', H1(dup_hdrs), T1(LENS_SHORT),
      lambda hdrs, ns: [(('@up',), {}), (('upper',), {}), ((some_dict(hdrs[0]),), {}), (('@tag',), {'where': '@true'})],
      label=ALLFAMILY)
space('replaceall', 'duplicate field names', H1(dup_hdrs), T1(LENS_SHORT),
      lambda hdrs, ns: [((cell('r', 0, j), 'NEW'), {}) for j in range(len(hdrs[0]))], label=ALLFAMILY)
space('formatall', 'duplicate field names', H1(dup_hdrs), T1(LENS_SHORT), lambda hdrs, ns: [(('<{}>',), {})],
      label=ALLFAMILY)
space('interpolateall', 'duplicate field names', H1(dup_hdrs), T1(LENS_SHORT), lambda hdrs, ns: [(('<%s>',), {})],
      label=ALLFAMILY)
space('convertall', 'long rows (frame only)', H1(all_hdrs), T1(LENS_ALL),
      lambda hdrs, ns: [(('@up',), {}), (('upper',), {'where': '@idxeq:0:r0c0'})], frame_only=True)
space('convert', 'duplicate names (frame only)', H1(lambda: [h for h in all_hdrs((2, 3)) if len(set(h)) < len(h)]),
      T1(LENS_ALL), lambda hdrs, ns: [((k, '@up'), {}) for k in sel_alphabet(hdrs[0])[:-1]], frame_only=True)


def num_alph(i, j):
    return ['%d' % (10 * i + j + 1), '%d.5' % (10 * i + j), cell('r', i, j), None, '%dj' % (j + 1)]


def num_tables(hdrs, ns):
    hdr, n = hdrs[0], ns[0]
    if len(hdr) * n > 4:
        # larger tables: one numeric pattern per position instead of the full product
        out = []
        for v in shape_vectors(len(hdr), n, LENS_SHORT(len(hdr))):
            for rot in range(5):
                rows = tuple(tuple(num_alph(i, j)[(i + j + rot) % 5] for j in range(L)) for i, L in enumerate(v))
                out.append(((tuple(hdr),) + rows,))
        return out
    return celltables(hdr, n, LENS_SHORT(len(hdr)), num_alph)


space('convertnumbers', 'numeric strings', H1(distinct_hdrs), num_tables,
      lambda hdrs, ns: [((), {})] + [((), kw) for kw in kw_where(hdrs, ns)[1:3]])
space('convertnumbers', 'duplicate field names', H1(dup_hdrs), num_tables, lambda hdrs, ns: [((), {})],
      NS(0, 2, 2), label=ALLFAMILY)


# ---- fills ------------------------------------------------------------------------------------
def fill_alph(missing, other):
    return lambda i, j: [missing, 'x%d' % j, other if other is not None else 'y%d' % j]


def subsets(hdr):
    out = []
    for k in range(0, len(hdr) + 1):
        out.extend(itertools.combinations(hdr, k))
    return out


def filldown_space(missing_kw, name):
    miss = missing_kw.get('missing')
    alph = fill_alph(miss, None) if miss is None else (lambda i, j: [miss, 'x%d' % j, None])
    space('filldown', name, H1(distinct_hdrs),
          lambda hdrs, ns: celltables(hdrs[0], ns[0], LENS_RECT(len(hdrs[0])), alph),
          lambda hdrs, ns: [(s, dict(missing_kw)) for s in subsets(hdrs[0])]
          + [((j,), dict(missing_kw)) for j in range(len(hdrs[0]))]
          + ([((tuple(reversed(hdrs[0]))), dict(missing_kw))] if len(hdrs[0]) > 1 else []),
          lambda hdrs: NS(1, 3 if len(hdrs[0]) < 3 else 2, 4 if len(hdrs[0]) < 3 else 3)(hdrs))


filldown_space({}, 'every subset of fields')
filldown_space({'missing': MISS}, 'every subset of fields, missing=')


def fill_tables(miss):
    alph = fill_alph(miss, None) if miss is None else (lambda i, j: [miss, 'x%d' % j, None])

    def f(hdrs, ns):
        w, n = len(hdrs[0]), ns[0]
        # the row-length vectors multiply the cell assignments: 3 fields x 3 rows only rectangular
        lens = LENS_RECT(w) if (w == 3 and n == 3) else LENS_ALL(w)
        return celltables(hdrs[0], n, lens, alph)
    return f


for _fn in ('fillright', 'fillleft'):
    space(_fn, 'default missing', H1(distinct_hdrs), fill_tables(None),
          lambda hdrs, ns: [((), {})], NS(0, 2, 3))
    space(_fn, 'missing=', H1(distinct_hdrs), fill_tables(MISS),
          lambda hdrs, ns: [((), {'missing': MISS})], NS(0, 2, 3))


# ---- fieldmap / rowmap ------------------------------------------------------------------------
def fieldmap_entries(hdr):
    w = len(hdr)
    out = []
    for j, h in enumerate(hdr):
        out += [h, j, (h, '@up'), (j, '@tag'), (h, some_dict(hdr)), '@get:%s' % h]
    out.append((hdr[0], chain_dict(hdr)))
    out += ['@echo', "{%s}" % hdr[0], "{%s} + {%s}" % (hdr[0], hdr[-1]), "'lit'"]
    return out


def fieldmap_args(hdrs, ns):
    ent = fieldmap_entries(hdrs[0])
    out = [(([],), {})]
    for e in ent:
        out.append((([('o0', e)],), {}))
    for e0 in ent:
        for e1 in ent:
            out.append((([('o0', e0), ('o1', e1)],), {}))
    # output fields named like input fields (swaps, shifts): every ordered pair of distinct output names over
    # own+fresh names x every pair of sources (copy by name / index, callable, expression, translated)
    hdr = hdrs[0]
    onames = list(hdr) + ['o0']
    srcs = []
    for j, h in enumerate(hdr):
        srcs += [h, j, '@get:%s' % h, '{%s}' % h, (h, chain_dict(hdr))]
    for o0 in onames:
        for o1 in onames:
            if o0 == o1 or (o0 == 'o0' and o1 == 'o0'):
                continue
            for s0 in srcs:
                for s1 in srcs:
                    out.append((([(o0, s0), (o1, s1)],), {}))
    return out


space('fieldmap', 'mappings of 0-2 output fields', H1(distinct_hdrs), T1(LENS_RECT), fieldmap_args)
space('rowmap', 'rowmapper,header', H1(distinct_hdrs), T1(LENS_RECT),
      lambda hdrs, ns: [((f, ['h0', 'h1']), {}) for f in
                        ['@rev', '@revlist', '@dup', '@pick:%s:%s' % (hdrs[0][-1], hdrs[0][0]),
                         '@pickattr:%s' % hdrs[0][-1], '@pick:%s:%s' % (hdrs[0][0], hdrs[0][0])]]
      + [(('@rev',), {'header': ('h0',)})])
space('rowmap', 'ragged rows (frame only)', H1(distinct_hdrs), T1(LENS_ALL),
      lambda hdrs, ns: [((f, ['h0', 'h1']), {}) for f in ['@rev', '@dup', '@idx:0']], frame_only=True)
space('fieldmap', 'ragged rows (frame only)', H1(distinct_hdrs), T1(LENS_ALL),
      lambda hdrs, ns: [(([('o0', e), ('o1', '@echo')],), {}) for e in fieldmap_entries(hdrs[0])], frame_only=True)


# ---- accessors --------------------------------------------------------------------------------
def values_args(hdrs, ns):
    hdr = hdrs[0]
    out = []
    for kw in kw_missing():
        for s in selections(hdr, None, 1):
            out.append((s, kw))                       # one field / several positional fields
            if len(s) >= 2:
                out.append(((s,), kw))                # a tuple of fields
                out.append(((list(s),), kw))
    return out


def slices(n):
    out = [()]
    r = [None] + list(range(0, n + 2))
    out += [(b,) for b in r]
    out += [(a, b) for a in r for b in r]
    out += [(a, b, c) for a in r for b in r for c in (None, 1, 2, 3)]
    return out


def few_slices(n):
    return [(), (1,), (None,), (1, None), (0, None, 2), (1, n + 1, 1), (n + 1,)]


space('values', 'one / several / tuple of fields', H1(lambda: all_hdrs() + int_hdrs()), T1(LENS_ALL), values_args,
      NS(0, 2, 3))
space('data', 'all slice triples', H1(all_hdrs), T1(LENS_ALL), lambda hdrs, ns: [(s, {}) for s in slices(ns[0])])
for _fn in ('dicts', 'records', 'namedtuples'):
    space(_fn, 'slice,missing', H1(distinct_hdrs), T1(LENS_ALL),
          lambda hdrs, ns: [(s, kw) for s in few_slices(ns[0]) for kw in kw_missing()])
space('columns', 'missing', H1(distinct_hdrs), T1(LENS_ALL),
      lambda hdrs, ns: [((), kw) for kw in kw_missing()] + [((MISS,), {})])
for _fn in ('header', 'fieldnames', 'listoflists', 'listoftuples', 'tupleoflists', 'tupleoftuples'):
    space(_fn, 'plain', H1(all_hdrs), T1(LENS_ALL), lambda hdrs, ns: [((), {})])


# ---------------------------------------------------------------------------------------------
# calling petl and normalising its output
# ---------------------------------------------------------------------------------------------

def _rows(tbl):
    return tuple(tuple(r) for r in tbl)


def _exact(x):
    return x


ACCESSOR = {
    'values': lambda out, hdr: [tuple(v) if isinstance(v, list) else v for v in out],
    'data': lambda out, hdr: [tuple(r) for r in out],
    'dicts': lambda out, hdr: [dict(d) for d in out],
    'namedtuples': lambda out, hdr: [(tuple(type(x)._fields), tuple(x)) for x in out],
    'records': lambda out, hdr: [(tuple(rec[j] for j in range(len(hdr))),
                                  tuple(rec[str(h)] for h in hdr),
                                  tuple(getattr(rec, str(h)) for h in hdr)) for rec in out],
    'columns': lambda out, hdr: dict((k, list(v)) for k, v in out.items()),
    'header': lambda out, hdr: out, 'fieldnames': lambda out, hdr: out,
    'listoflists': lambda out, hdr: out, 'listoftuples': lambda out, hdr: out,
    'tupleoflists': lambda out, hdr: out, 'tupleoftuples': lambda out, hdr: out,
}


def build(fn, tables, args, kw):
    """Call the petl function; returns the raw view / container (nothing is iterated here)."""
    if fn == 'convert[]=':
        view = etl.convert(tables[0], **kw)
        for k, c in args[0]:
            view[k] = c
        return view
    if fn == 'rename[]=':
        init = dict(args[1]) if len(args) > 1 and args[1] else None
        view = etl.rename(tables[0], init, **kw) if init is not None else etl.rename(tables[0], **kw)
        for k, v in args[0]:
            view[k] = v
        return view
    if fn == 'fieldmap' and args and isinstance(args[0], (list, tuple)):
        args = (OrderedDict(args[0]),) + tuple(args[1:])
    return getattr(etl, fn)(*(tuple(tables) + tuple(args)), **kw)


def normalise(fn, out, hdr):
    """One complete pass over the view / container, in the normal form of the reference model."""
    norm = ACCESSOR.get(fn)
    if norm is not None:
        return norm(out, hdr)
    return _rows(out)


def call_petl(fn, tables, args, kw):
    return normalise(fn, build(fn, tables, args, kw), tables[0][0])


# ---------------------------------------------------------------------------------------------
# second axis: state surviving on a view between passes.  pass 1 over the view, mutate the underlying source,
# pass 2 over the SAME view object must equal what a freshly built view over the (mutated) source yields.
# ---------------------------------------------------------------------------------------------

EAGER = ('columns', 'header', 'fieldnames', 'listoflists', 'listoftuples', 'tupleoflists', 'tupleoftuples')
FAMILY = {'convertall': 'convertall family', 'replaceall': 'convertall family', 'convertnumbers': 'convertall family',
          'formatall': 'convertall family', 'interpolateall': 'convertall family'}
PASS1 = ('full', 'first item only', 'none')


def mutations(hdr, n):
    """Every in-place change of a list table with header hdr and n rectangular rows, by kind."""
    w = len(hdr)
    out = [('none',)]
    out += [('rename field', j) for j in range(w)]
    if w >= 2:
        out.append(('swap two field names',))
    out += [('append column',), ('drop last column',)]
    out += [('shorten row', i) for i in range(n)]
    out += [('lengthen row', i) for i in range(n)]
    out += [('append row',), ('drop last row',)]
    if n and w:
        out += [('change cell', 0, 0), ('change cell', n - 1, w - 1)]
    return out


def view_mutations(hdr):
    """Changes made through an upstream rename view by suffix notation (tbl[old] = new)."""
    w = len(hdr)
    out = [('rename field', j) for j in range(w)]
    if w >= 2 and len(set(hdr)) == w:
        out.append(('swap two field names',))
    return out


def apply_mutation(under, view, mut):
    """under: the list-of-lists table; view: None or the upstream rename view wrapped around it."""
    kind = mut[0]
    hdr = under[0]
    w = len(hdr)
    if kind == 'none':
        return
    if kind == 'rename field':
        j = mut[1]
        if view is not None:
            view[j] = 'zq%d' % j
        else:
            hdr[j] = 'zq%d' % j
    elif kind == 'swap two field names':
        if view is not None:
            view[0] = hdr[1]
            view[1] = hdr[0]
        else:
            hdr[0], hdr[1] = hdr[1], hdr[0]
    elif kind == 'append column':
        hdr.append('zq')
        for i, row in enumerate(under[1:]):
            row.append(cell('r', i, w))
    elif kind == 'drop last column':
        if w:
            hdr.pop()
            for row in under[1:]:
                if len(row) >= w:
                    row.pop()
    elif kind == 'shorten row':
        row = under[1 + mut[1]]
        if row:
            row.pop()
    elif kind == 'lengthen row':
        under[1 + mut[1]].append(cell('r', mut[1], w))
    elif kind == 'append row':
        i = len(under) - 1
        under.append([cell('r', i, j) for j in range(w)])
    elif kind == 'drop last row':
        if len(under) > 1:
            under.pop()
    elif kind == 'change cell':
        under[1 + mut[1]][mut[2]] = 'CHANGED'
    else:
        raise ValueError(kind)


def _cur_hdr(t):
    for h in t:
        return tuple(h)
    return ()


def _guarded(f):
    try:
        return ('ok', f())
    except Exception as e:  # noqa
        return ('raised', type(e).__name__, str(e)[:120])


# ---------------------------------------------------------------------------------------------
# third axis: the ROW TYPE delivered by the upstream stage.  Two-stage pipelines: stage 1 delivers the rows of the
# table as lists / petl Records (the real petl stages that pass Records on) / namedtuples, stage 2 is the function
# under test; it must yield what it yields on the materialised tuple rows of stage 1.
# ---------------------------------------------------------------------------------------------

import collections as _collections

_NT_CACHE = {}


class _NamedTupleRows(etl.Table):
    """Header as a tuple, every data row as a namedtuple instance (of the row's own length: ragged rows stay)."""

    def __init__(self, t):
        self.t = t

    def __iter__(self):
        yield tuple(self.t[0])
        for row in self.t[1:]:
            n = len(row)
            cls = _NT_CACHE.get(n)
            if cls is None:
                cls = _NT_CACHE[n] = _collections.namedtuple('ntrow', ['c%d' % j for j in range(n)])
            yield cls(*row)


def _never(rec):
    return False


def _always3(prv, cur, nxt):
    return True


# On the current tree every transform stage delivers plain tuples; only the pass-through stages (skip, skipcomments,
# data, wrap, cache, progress, prefix/suffixheader) hand on the source's own row objects, and fromdb hands on the
# DB driver's row objects.  The two convert/selectusingcontext kinds delivered petl Records before the repair
# ccf9930; they are kept to pin it (if Records come back, the differential reports it).
ROWTYPES = ('list rows', 'Record rows via convert(where=never true)',
            'tuple+Record rows via convert(where=true for the first row only)',
            'Record rows via selectusingcontext', 'namedtuple rows',
            'list rows handed on by the pass-through stages skip(0) and cache()')
SQLITE_ROWS = 'sqlite3.Row rows via fromdb(connection with row_factory=sqlite3.Row)'


def _sqlite_applicable(t):
    """A DB table is rectangular and has distinct (case-insensitive) text column names."""
    hdr = t[0]
    return (len(hdr) > 0 and all(isinstance(h, str) and h for h in hdr)
            and len(set(h.lower() for h in hdr)) == len(hdr) and all(len(r) == len(hdr) for r in t[1:]))


def _sqlite_table(t):
    import sqlite3
    conn = sqlite3.connect(':memory:')
    conn.row_factory = sqlite3.Row
    names = [str(h) for h in t[0]]
    conn.execute('create table t (%s)' % ', '.join('"%s"' % n for n in names))
    conn.executemany('insert into t values (%s)' % ', '.join('?' * len(names)), [tuple(r) for r in t[1:]])
    return etl.fromdb(conn, 'select * from t order by rowid')


def wrap_rowtype(kind, t):
    """Stage 1: a table with the same header and the same cells as t whose rows are delivered as `kind`."""
    if kind == 'list rows':
        return [list(r) for r in t]
    if kind == 'Record rows via convert(where=never true)':
        return etl.convert(t, {}, where=_never)
    if kind == 'tuple+Record rows via convert(where=true for the first row only)':
        return etl.convert(t, {}, where=_FirstOnly())
    if kind == 'Record rows via selectusingcontext':
        return etl.selectusingcontext(t, _always3)
    if kind == 'namedtuple rows':
        return _NamedTupleRows(t)
    if kind == 'list rows handed on by the pass-through stages skip(0) and cache()':
        return etl.wrap(etl.skip([list(r) for r in t], 0)).cache()
    if kind == SQLITE_ROWS:
        return _sqlite_table(t)
    raise KeyError(kind)


class _FirstOnly(object):
    """where-predicate that is true for rows equal to row r0 (cells are position-tagged, so: the first row)."""

    def __call__(self, rec):
        return any(v.__class__ is str and v.startswith(('r0c', 's0c', 't0c')) for v in rec) or len(rec) == 0


def evaluate_rowtype(case):
    fn = case['fn']
    kind = case['rowtype']
    args = R.materialise(tuple(case['args']))
    kw = R.materialise(dict(case.get('kwargs') or {}))
    tables = case['tables']
    hdr = tables[0][0]
    typed = tuple(wrap_rowtype(kind, t) for t in tables)
    plain = _guarded(lambda: call_petl(fn, tables, args, kw))
    obs = _guarded(lambda: normalise(fn, build(fn, typed, args, kw), hdr))
    nontriv = len(tables[0]) > 1
    if plain[0] != 'ok':
        if obs[0] == 'ok':
            return ('viol', 'yields a result where the same call on tuple rows raises', plain, obs,
                    'the result depends on the type of the rows delivered by the upstream stage', nontriv, 'noexc')
        return ('ok', None, None, None, '', nontriv, 'exc')
    if obs[0] != 'ok':
        return ('viol', 'raises %s' % obs[1], plain[1], obs,
                'raises when the upstream stage delivers %s; the same call on the materialised tuple rows works'
                % kind, nontriv, 'exc')
    a, b = obs[1], plain[1]
    if fn in ('dicts', 'columns'):
        a, b = _canon_dicts(a), _canon_dicts(b)
    ra = repr(a)
    if a == b and ra == repr(b):
        return ('ok', None, None, None, '', nontriv, ra)
    return ('viol', 'differs from the same call on tuple rows', plain[1], obs[1],
            'the upstream stage delivers %s; the result differs from the same call on the materialised tuple rows'
            % kind, nontriv, ra)


def _same_result(fn, a, b):
    if a[0] != 'ok' or b[0] != 'ok':
        return a[0] != 'ok' and b[0] != 'ok'
    return a[1] == b[1] and repr(a[1]) == repr(b[1])


def _construction_time_reading(fn, table, n0, args, kw):
    """The documented convenience form convert(table, <all fields>, converter) with the fields that existed when
    the view was constructed (selected by position)."""
    idx = tuple(range(n0))
    if fn == 'convertall':
        return etl.convert(table, idx, *args, **kw)
    if fn == 'replaceall':
        return etl.convert(table, idx, {args[0]: args[1]}, **kw)
    if fn == 'convertnumbers':
        from petl.util.parsers import numparser
        kw = dict(kw)
        strict = args[0] if args else kw.pop('strict', False)
        return etl.convert(table, idx, numparser(strict), **kw)
    if fn == 'formatall':
        fmt = args[0]
        return etl.convert(table, idx, lambda v: fmt.format(v), **kw)
    if fn == 'interpolateall':
        fmt = args[0]
        return etl.convert(table, idx, lambda v: fmt % v, **kw)
    raise KeyError(fn)


def evaluate_repass(case):
    fn = case['fn']
    rp = case['repass']
    args = R.materialise(tuple(case['args']))
    kw = R.materialise(dict(case.get('kwargs') or {}))
    unders = [[list(r) for r in t] for t in case['tables']]
    tabs = list(unders)
    ti = rp['t']
    view = None
    if rp['src'] == 'rename view':
        view = etl.rename(unders[ti])
        tabs[ti] = view
    tabs = tuple(tabs)
    n0 = len(_cur_hdr(tabs[0]))          # number of fields when the view is constructed
    try:
        obj = build(fn, tabs, args, kw)
    except Exception:  # noqa - judged by the first axis
        return ('ok', None, None, None, '', False, 'exc-at-construction')
    p1 = rp['pass1']
    if p1 == 'full':
        _guarded(lambda: normalise(fn, obj, _cur_hdr(tabs[0])))
    elif p1 == 'first item only':
        def first():
            it = iter(obj)
            next(it, None)
            next(it, None)
            del it
        _guarded(first)
    apply_mutation(unders[ti], view, tuple(rp['mut']))
    hdr = _guarded(lambda: _cur_hdr(tabs[0]))
    hdr = hdr[1] if hdr[0] == 'ok' else ()
    again = _guarded(lambda: normalise(fn, obj, hdr))
    fresh = _guarded(lambda: normalise(fn, build(fn, tabs, args, kw), hdr))
    nontriv = rp['mut'][0] != 'none' and p1 != 'none'
    if fn in FAMILY and not _same_result(fn, again, fresh):
        # the statement does not say WHEN "all fields" is resolved: at iteration (= fresh view, above) or when
        # the view is built (= convert(table, <all fields at construction>, ...)).  Both readings are accepted.
        alt = _guarded(lambda: normalise('convert', _construction_time_reading(fn, tabs[0], n0, args, kw), hdr))
        if _same_result(fn, again, alt):
            return ('ok', None, None, None, '', nontriv, 'construction-time reading: ' + repr(again)[:200])
    if fresh[0] != 'ok':
        if again[0] == 'ok':
            return ('viol', 'reused view yields a result where a fresh view raises', fresh, again,
                    'after the source changed, a second pass over the same view object does not behave like a '
                    'freshly built view', nontriv, 'noexc')
        return ('ok', None, None, None, '', nontriv, 'exc')
    if again[0] != 'ok':
        return ('viol', 'reused view raises where a fresh view works', fresh[1], again,
                'after the source changed, a second pass over the same view object raises', nontriv, 'exc')
    a, f = again[1], fresh[1]
    if fn == 'dicts':
        a, f = _canon_dicts(a), _canon_dicts(f)
    ra = repr(a)
    if a == f and ra == repr(f):
        return ('ok', None, None, None, '', nontriv, ra)
    return ('viol', 'reused view differs from a fresh view', fresh[1], again[1],
            'after the source changed (%s, %s, pass 1: %s) a second pass over the same view object differs from '
            'what a freshly built view yields' % (rp['src'], ' '.join(map(str, rp['mut'])), p1), nontriv, ra)


def _canon_dicts(x):
    """dict results: compare as mappings (key order is not part of the documentation)."""
    if isinstance(x, dict):
        return ('dict',) + tuple(sorted(((repr(k), _canon_dicts(v)) for k, v in x.items())))
    if isinstance(x, list):
        return [_canon_dicts(v) for v in x]
    return x


def _nrows_expected(fn, tables):
    how = R.ONE_TO_ONE.get(fn)
    if how is None:
        return None
    ns = [len(t) - 1 for t in tables]
    if how == 'n':
        return ns[0]
    if how == 'n+1':
        return ns[0] + 1
    if how == 'sum':
        return sum(ns)
    return max(ns)


def _frame(fn, tables, obs, args=()):
    """Frame conditions checked without the per-function reference: row count, and no position-tagged cell
    of input row i shows up in an output row other than the one that corresponds to row i."""
    want = _nrows_expected(fn, tables)
    if fn == 'addcolumn':
        want = max(len(tables[0]) - 1, len(args[1]))
        if want != len(tables[0]) - 1:
            return None
    if want is None:
        return None
    got = len(obs) - 1
    if got != want:
        return 'frame: %d output rows for %s input rows' % (got, '+'.join(str(len(t) - 1) for t in tables))
    how = R.ONE_TO_ONE.get(fn, 'n')
    tags = _TAGS
    owner = []
    if how == 'sum':
        for letter, t in zip('rst', tables):
            owner.extend((letter, i) for i in range(len(t) - 1))
    for k, row in enumerate(obs[1:]):
        for v in row:
            if v.__class__ is str:
                tg = tags.get(v)
                if tg is None:
                    continue
                if how == 'sum':
                    ok = tg == owner[k]
                elif how == 'n+1':
                    ok = tg == ('r', k - 1)
                else:
                    ok = tg[1] == k
                if not ok:
                    return 'frame: output row %d carries cell %s of another input row' % (k, v)
    return None


def evaluate(case):
    """-> (status, signature, expected, observed, message, nontrivial, outcome); status in ok/viol/undefined."""
    if case.get('repass'):
        return evaluate_repass(case)
    if case.get('rowtype'):
        return evaluate_rowtype(case)
    fn = case['fn']
    tables = case['tables']
    args = R.materialise(tuple(case['args']))
    kw = R.materialise(dict(case.get('kwargs') or {}))
    if case.get('frame_only'):
        try:
            obs = call_petl(fn, tables, args, kw)
        except Exception:  # noqa - the documentation is silent here, raising is allowed
            return ('ok', None, None, None, '', False, 'exc')
        fr = _frame(fn, tables, obs, args)
        if fr is not None:
            return ('viol', 'frame: row count' if 'output rows' in fr else 'frame: cell of another input row',
                    None, obs, fr, True, 'frame')
        return ('ok', None, None, None, '', len(tables[0]) > 1, repr(obs))
    try:
        exp = R.REF[fn](tables, args, kw)
        eok = True
    except R.FieldSelection as e:
        exp, eok = ('FieldSelectionError', str(e)), False
    except R.Undefined:
        return ('undefined', None, None, None, '', False, None)
    try:
        obs = call_petl(fn, tables, args, kw)
        ook = True
    except Exception as e:  # noqa
        obs, ook = ('raised', type(e).__name__, str(e)[:120]), False
    nontriv = False
    if eok:
        t0 = tables[0]
        nontriv = len(t0) > 1 and (exp != t0 or any(len(r) != len(t0[0]) for r in t0[1:]))
    if not eok:
        if ook:
            return ('viol', 'no exception for a non-existent field', exp, obs,
                    'the selection names a field that does not exist; a FieldSelectionError is documented',
                    False, 'noexc')
        return ('ok', None, None, None, '', False, 'exc')
    if not ook:
        return ('viol', 'raises %s' % obs[1], exp, obs, 'petl raised where the documentation defines a result',
                nontriv, 'exc')
    if fn in ('dicts', 'columns'):
        cexp, cobs = _canon_dicts(exp), _canon_dicts(obs)
    else:
        cexp, cobs = exp, obs
    robs = repr(cobs)
    if cexp == cobs and repr(cexp) == robs:
        fr = _frame(fn, tables, obs, args)
        if fr is not None:
            return ('viol', 'frame: row count' if 'output rows' in fr else 'frame: cell of another input row',
                    exp, obs, fr, nontriv, robs)
        return ('ok', None, None, None, '', nontriv, robs)
    # classify the difference
    if fn in ACCESSOR:
        sig = 'result differs'
        if isinstance(exp, (list, tuple)) and isinstance(obs, (list, tuple)) and len(exp) != len(obs):
            sig = 'number of items differs'
    else:
        if len(obs) == 0 or len(exp) == 0 or obs[:1] != exp[:1]:
            sig = 'header differs'
        elif len(obs) != len(exp):
            sig = 'row count differs'
        elif [len(r) for r in obs] != [len(r) for r in exp]:
            sig = 'row lengths differ (padding/trimming)'
        elif cexp == cobs:
            sig = 'cell types differ'
        else:
            sig = 'cells differ'
    return ('viol', sig, exp, obs, 'output differs from the cell-by-cell reference', nontriv, robs)


# ---------------------------------------------------------------------------------------------
# runner interface
# ---------------------------------------------------------------------------------------------

TARGET = {'quick': 20000, 'thorough': 60000}      # cases per work item (approximately)


_COUNT = {}


def items(tier, seed):
    out = []
    for fn, forms in SPACES.items():
        for form, (headers, tables, args, ns) in forms.items():
            for hdrs in headers():
                for nn in ns(hdrs):
                    ck = (tier, seed % len(_NAME_POOLS), fn, form, hdrs, nn)
                    if ck not in _COUNT:
                        _COUNT[ck] = len(tables(hdrs, nn)) * len(args(hdrs, nn))
                    total = _COUNT[ck]
                    if total == 0:
                        continue
                    chunks = max(1, -(-total // TARGET[tier]))
                    for c in range(chunks):
                        out.append({'fn': fn, 'form': form, 'hdrs': hdrs, 'ns': nn, 'chunk': c, 'chunks': chunks,
                                    'size': -(-total // chunks)})
    out.extend(repass_items(tier))
    out.extend(rowtype_items(tier))
    # simplest first (violations keep the first case per group): by rows, then width; stable otherwise
    out.sort(key=lambda it: (sum(it['ns']), sum(len(h) for h in it['hdrs'])))
    # the seed rotates the order of equally simple items only
    keyf = lambda it: (sum(it['ns']), sum(len(h) for h in it['hdrs']))
    res = []
    for _, grp in itertools.groupby(out, key=keyf):
        res.extend(spaces.rotate(list(grp), seed))
    return res


REPASS_ROWS = 2
REPASS_WIDE_ARGS = 200


def repass_plan(hdrs):
    """(table index, source kind, mutation, pass-1 kind) for a call with input headers hdrs."""
    out = []
    for ti, h in enumerate(hdrs):
        for p1 in PASS1:
            for m in mutations(h, REPASS_ROWS):
                if p1 == 'none' and m[0] != 'none':
                    continue            # no first pass: only the unchanged source (baseline of the differential)
                out.append((ti, 'list', m, p1))
            if p1 != 'none':
                for m in view_mutations(h):
                    out.append((ti, 'rename view', m, p1))
    return out


def repass_items(tier):
    """Second axis (same space in both tiers): every call form x every header kind with <= 2 fields x EVERY argument
    value of the form; headers with 3 fields for the call forms with <= REPASS_WIDE_ARGS argument values (state kept
    on a view is a property of the view class, not of the argument value).  Tables: rectangular, REPASS_ROWS rows."""
    out = []
    for fn, forms in SPACES.items():
        if fn in EAGER:
            continue
        for form, (headers, tables, args, ns) in forms.items():
            for hdrs in headers():
                nn = (REPASS_ROWS,) * len(hdrs)
                ck = (tier, 'repass', _N, fn, form, hdrs)
                if ck not in _COUNT:
                    na = len(args(hdrs, nn))
                    if any(len(h) > 2 for h in hdrs) and na > REPASS_WIDE_ARGS:
                        na = 0
                    _COUNT[ck] = na * len(repass_plan(hdrs))
                total = _COUNT[ck]
                if not total:
                    continue
                chunks = max(1, -(-total // (TARGET[tier] // 2)))
                for c in range(chunks):
                    out.append({'fn': fn, 'form': form, 'hdrs': hdrs, 'ns': nn, 'chunk': c, 'chunks': chunks,
                                'size': -(-total // chunks), 'mode': 'repass'})
    return out


def rowtype_tables(hdrs, n):
    ts = [tables1(h, n, LENS_ALL(len(h)), letter) for h, letter in zip(hdrs, 'rst')]
    return [tuple(x[0] for x in combo) for combo in itertools.product(*ts)]


def rowtype_plan(hdrs, n):
    """(tables, upstream row type) pairs; the sqlite kind only where a DB table can hold the input."""
    out = []
    for ts in rowtype_tables(hdrs, n):
        for kind in ROWTYPES:
            out.append((ts, kind))
        if all(_sqlite_applicable(t) for t in ts):
            out.append((ts, SQLITE_ROWS))
    return out


def rowtype_ns(hdrs):
    return [(n,) * len(hdrs) for n in ((1, 2) if len(hdrs) == 1 else (1,))]


def rowtype_items(tier):
    """Third axis (same space in both tiers): every call form x every header kind with <= 2 fields x EVERY argument
    value x every table with 1-2 rows of every length 0..w+1 (1 row per input for the multi-table functions) x
    every upstream row type."""
    out = []
    for fn, forms in SPACES.items():
        for form, (headers, tables, args, ns) in forms.items():
            for hdrs in headers():
                for nn in rowtype_ns(hdrs):
                    ck = (tier, 'rowtype', _N, fn, form, hdrs, nn)
                    if ck not in _COUNT:
                        na = len(args(hdrs, nn)) if all(len(h) <= 2 for h in hdrs) else 0
                        _COUNT[ck] = na * len(rowtype_plan(hdrs, nn[0])) if na else 0
                    total = _COUNT[ck]
                    if not total:
                        continue
                    chunks = max(1, -(-total // (TARGET[tier] // 2)))
                    for c in range(chunks):
                        out.append({'fn': fn, 'form': form, 'hdrs': hdrs, 'ns': nn, 'chunk': c, 'chunks': chunks,
                                    'size': -(-total // chunks), 'mode': 'rowtype'})
    return out


def rowtype_cases(item):
    fn, form = item['fn'], item['form']
    headers, tables, args, ns = SPACES[fn][form]
    hdrs = item['hdrs']
    prod = itertools.product(args(hdrs, item['ns']), rowtype_plan(hdrs, item['ns'][0]))
    if item['chunks'] > 1:
        prod = itertools.islice(prod, item['chunk'], None, item['chunks'])
    for (a, kw), (ts, kind) in prod:
        yield {'fn': fn, 'form': form, 'tables': ts, 'args': a, 'kwargs': kw, 'rowtype': kind}


def repass_cases(item):
    fn, form = item['fn'], item['form']
    headers, tables, args, ns = SPACES[fn][form]
    hdrs = item['hdrs']
    ts = tuple(mk(h, (len(h),) * REPASS_ROWS, letter) for h, letter in zip(hdrs, 'rst'))
    prod = itertools.product(args(hdrs, item['ns']), repass_plan(hdrs))
    if item['chunks'] > 1:
        prod = itertools.islice(prod, item['chunk'], None, item['chunks'])
    for (a, kw), (ti, src, m, p1) in prod:
        yield {'fn': fn, 'form': form, 'tables': ts, 'args': a, 'kwargs': kw,
               'repass': {'t': ti, 'src': src, 'mut': m, 'pass1': p1}}


def bounds(tier, seed):
    its = items(tier, seed)
    per = OrderedDict()
    for it in its:
        k = '%s/%s' % (it['fn'], it['form'])
        if it.get('mode') == 'repass':
            k = 'second pass after source change: ' + it['fn']
        if it.get('mode') == 'rowtype':
            k = 'upstream row types: ' + it['fn']
        per[k] = per.get(k, 0) + it['size']
    return {'max_rows': nmax(), 'max_fields': 3, 'functions': len(SPACES), 'call_forms': len(per),
            'field_names': list(_N), 'missing_values': [None, MISS],
            'cases_per_call_form': per}


def cases_of(item):
    if item.get('mode') == 'repass':
        for c in repass_cases(item):
            yield c
        return
    if item.get('mode') == 'rowtype':
        for c in rowtype_cases(item):
            yield c
        return
    fn, form = item['fn'], item['form']
    headers, tables, args, ns = SPACES[fn][form]
    ts = tables(item['hdrs'], item['ns'])
    as_ = args(item['hdrs'], item['ns'])
    prod = itertools.product(as_, ts)
    if item['chunks'] > 1:
        prod = itertools.islice(prod, item['chunk'], None, item['chunks'])
    fo = (fn, form) in FRAME_ONLY
    for (a, kw), t in prod:
        c = {'fn': fn, 'form': form, 'tables': t, 'args': a, 'kwargs': kw}
        if fo:
            c['frame_only'] = True
        yield c


def run_item(item, acc):
    fn, form = item['fn'], item['form']
    key = LABEL.get((fn, form)) or '%s/%s' % (fn, form)
    repass = item.get('mode') == 'repass'
    if repass:
        key = '%s (same view iterated again after the source changed)' % FAMILY.get(fn, fn)
    rowtype = item.get('mode') == 'rowtype'
    if rowtype:
        key = '%s fed non-tuple rows by the upstream stage' % FAMILY.get(fn, fn)
    key0 = key
    n_nt = 0
    n = 0
    for case in cases_of(item):
        n += 1
        status, sig, exp, obs, msg, nontriv, outcome = evaluate(case)
        if status == 'undefined':
            acc.counters['outside-documented-domain:' + key] += 1
            continue
        if nontriv:
            n_nt += 1
        acc.outcome(outcome)
        if status == 'viol':
            key = key0
            acc.violation('%s | %s' % (key, sig), case, exp, obs,
                          '%s(%s): %s' % (fn, form, msg))
    acc.evals += n
    acc.states += n
    acc.transitions += n
    acc.nontrivial += n_nt
    if rowtype:
        acc.counters['row-type cases:' + fn] += n
    elif repass:
        acc.counters['second-pass cases:' + fn] += n
        acc.counters['second-pass nontrivial:' + fn] += n_nt
    elif (fn, form) in FRAME_ONLY:
        acc.counters['frame-only cases:' + fn] += n
    else:
        acc.counters['cases:' + fn] += n
        acc.counters['nontrivial:' + fn] += n_nt
    if item['chunk'] == 0 and sum(item['ns']) >= 1 and item['size'] <= 4000:
        for case in itertools.islice(cases_of(item), 3, 4):
            acc.sample(case, 1)


def replay(case):
    status, sig, exp, obs, msg, nontriv, outcome = evaluate(case)
    if status != 'viol':
        return None
    return (exp, obs, '%s | %s' % (sig, msg))


def _is_allfamily_dup(group, case, params):
    """known-finding classifier: a convert-all convenience function on a table with duplicate field names."""
    if case.get('fn') not in ('convertall', 'replaceall', 'convertnumbers', 'formatall', 'interpolateall'):
        return False
    hdr = case['tables'][0][0]
    return len(set(map(str, hdr))) < len(hdr)


CLASSIFIERS = {'convertall_family_duplicate_field_names': _is_allfamily_dup}


def vacuity(cov, tier):
    problems = []
    c = cov['per_case_counters']
    for fn in SPACES:
        if not c.get('cases:' + fn):
            problems.append('no case for %s' % fn)
        elif not c.get('nontrivial:' + fn) and fn not in ('header', 'fieldnames'):
            problems.append('no non-trivial case for %s' % fn)
        if fn not in EAGER and not c.get('second-pass nontrivial:' + fn):
            problems.append('no second-pass case for %s' % fn)
    und = sum(v for k, v in c.items() if k.startswith('outside-documented-domain:'))
    if und:
        problems.append('%d generated cases fall outside the documented domain (generator defect)' % und)
    return problems
