"""C03 — transformations never modify their inputs or rows already delivered.

E2: every call form of the shared catalogue plus a local list of call forms whose ARGUMENT containers
(field lists, converter dicts, column lists, dict sources ...) are supplied by the check, x every source
table built from mutable lists over every row-shape vector in {full, short1, short2, long, empty}^n
(n <= 2 quick, n <= 3 thorough, plus n+1 rows with at most one non-full row; binary operators: the vector on either input or on both, and all pairs
of vectors with n <= 2 in thorough) x evaluation mode {full pass, first 1/2/3 items then abandoned, two
consecutive full passes}.  Oracle: a deep, type-faithful snapshot of every source / argument container
taken before construction equals the snapshot taken afterwards; every yielded object is retained with a
snapshot taken when it was yielded and must still equal that snapshot after the evaluation finished.
Exceptions raised by the operator (ragged rows it cannot handle) are tolerated: the snapshots are
compared all the same, the evaluation up to the exception being a partial evaluation.
"""
import copy
import datetime
import decimal
import itertools
import os
import re
import shutil
import tempfile
from collections import OrderedDict

import petl as etl

from .. import catalogue as C
from .. import env

ID = 'C03'
LEVEL = 'model_checking'
ENGINE = 'E2 small-scope enumeration with before/after deep snapshots of sources and delivered rows'
RULE = ('state = (call form, row-shape vector(s) of the mutable list-of-lists source(s), evaluation mode); the real '
        'petl operator is built and iterated per mode; compared: snapshot(sources + argument containers) before '
        'vs after, and for every delivered object its snapshot at yield time vs after the whole evaluation '
        '(including a second pass).  Exceptions raised by petl on ragged rows end the evaluation early and are '
        'not violations.  A state is non-trivial when some source has >= 1 data row and the evaluation delivered '
        'at least one item (eager call forms: returned) before any exception')
ASSUMPTIONS = [
    'tables have <= 2 (quick) / <= 3 (thorough) data rows and 3 fields; cell values include mutable lists and '
    'dicts for the unpack/unpackdict forms',
    'binary operators: the shape vector is placed on the left, the right or both inputs (the other being two full '
    'rows); all pairs of vectors only for n <= 2 in thorough',
    'user callables passed to operators are written by the check and do not mutate their arguments',
    'excluded: lookup(..., dictionary=d) style arguments that the operator is documented to fill; '
    'addcolumn(long) (c02only); interval* (package missing)',
]

_VALUE_TYPES = (bool, int, float, complex, str, bytes, decimal.Decimal, datetime.date, datetime.time,
                datetime.timedelta)
SHAPES = ('full', 'short1', 'short2', 'long', 'empty')
MODES = ('full', 'take1', 'take2', 'take3', 'twice')
EAGER_MODES = ('full', 'twice')
FULL2 = ('full', 'full')


# ---------------------------------------------------------------------------------------------
# sources
# ---------------------------------------------------------------------------------------------

def shaped(kind, i, shape):
    r = [copy.deepcopy(c) for c in C.row(kind, i)]
    if shape == 'full':
        return r
    if shape == 'short1':
        return r[:1]
    if shape == 'short2':
        return r[:-1]
    if shape == 'long':
        return r + ['extra%d' % i]
    if shape == 'empty':
        return []
    raise KeyError(shape)


def mktable(kind, vec):
    return [list(C.HEADERS[kind])] + [shaped(kind, i, s) for i, s in enumerate(vec)]


def vectors(maxn, extra=False):
    """All shape vectors with <= maxn rows; extra: plus the vectors with maxn+1 rows of which at most one is
    not 'full' (so that the third catalogue row - the first duplicate key - is reached in the quick tier)."""
    out = []
    for n in range(maxn + 1):
        out.extend(itertools.product(SHAPES, repeat=n))
    if extra:
        n = maxn + 1
        out.append(('full',) * n)
        for i in range(n):
            for s in SHAPES[1:]:
                out.append(('full',) * i + (s,) + ('full',) * (n - i - 1))
    return out


def snap(x):
    """Immutable, type-faithful structural snapshot (works for Record / namedtuple rows, which cannot be
    deep-copied)."""
    if isinstance(x, list):
        return ('list', type(x).__name__, tuple(snap(c) for c in x))
    if isinstance(x, tuple):
        return ('tuple', type(x).__name__, tuple(snap(c) for c in x))
    if isinstance(x, dict):
        return ('dict', type(x).__name__, tuple(sorted(((snap(k), snap(v)) for k, v in x.items()), key=repr)))
    if isinstance(x, (set, frozenset)):
        return ('set', type(x).__name__, tuple(sorted((snap(c) for c in x), key=repr)))
    if x is None or isinstance(x, _VALUE_TYPES):
        return (type(x).__name__, repr(x))
    if isinstance(x, BaseException):
        return ('exception', type(x).__name__, repr(x.args))
    # any other object (views, functions, generators ...) is compared by identity: rendering a petl view
    # with repr() would iterate it
    return ('object', type(x).__name__, id(x))


def show(s):
    """Readable text for a snapshot."""
    tag = s[0]
    if tag == 'list':
        return '[' + ', '.join(show(c) for c in s[2]) + ']'
    if tag == 'tuple':
        inner = ', '.join(show(c) for c in s[2])
        return ('(' + inner + ')') if s[1] == 'tuple' else '%s(%s)' % (s[1], inner)
    if tag == 'dict':
        return '{' + ', '.join('%s: %s' % (show(k), show(v)) for k, v in s[2]) + '}'
    if tag == 'set':
        return '{' + ', '.join(show(c) for c in s[2]) + '}'
    if tag == 'object':
        return '<%s object>' % s[1]
    if tag == 'exception':
        return '%s%s' % (s[1], s[2])
    return s[1]


def plain(x, depth=0):
    """Codec-friendly rendering for the replay file."""
    if depth > 6:
        return repr(x)
    if isinstance(x, list):
        return [plain(c, depth + 1) for c in x]
    if isinstance(x, tuple):
        return tuple(plain(c, depth + 1) for c in x)
    if isinstance(x, dict):
        return dict((repr(k) if not isinstance(k, (str, int)) else k, plain(v, depth + 1)) for k, v in x.items())
    if x is None or isinstance(x, (bool, int, float, str, bytes)):
        return x
    if isinstance(x, _VALUE_TYPES + (BaseException,)):
        return repr(x)
    return '<%s object>' % type(x).__name__


def describe(before, after, path='source'):
    """First difference between two plain structures, as text."""
    if type(before) is not type(after):
        return '%s: type %s -> %s' % (path, type(before).__name__, type(after).__name__)
    if isinstance(before, (list, tuple)):
        if len(before) != len(after):
            return '%s: length %d -> %d (%r -> %r)' % (path, len(before), len(after), before, after)
        for i, (a, b) in enumerate(zip(before, after)):
            if snap(a) != snap(b):
                return describe(a, b, '%s[%d]' % (path, i))
    if isinstance(before, dict):
        if sorted(map(repr, before)) != sorted(map(repr, after)):
            return '%s: keys %r -> %r' % (path, sorted(map(repr, before)), sorted(map(repr, after)))
        for k in before:
            if snap(before[k]) != snap(after[k]):
                return describe(before[k], after[k], '%s[%r]' % (path, k))
    return '%s: %r -> %r' % (path, before, after)


# ---------------------------------------------------------------------------------------------
# local call forms with caller-owned argument containers
# ---------------------------------------------------------------------------------------------

class ArgOp(object):
    """fn(tables, args[, ctx]) -> view; mkargs() -> fresh dict of argument containers (snapshotted too)."""

    def __init__(self, name, kinds, mkargs, fn, tags=()):
        self.name = name
        self.kinds = tuple(kinds)
        self.mkargs = mkargs
        self.fn = fn
        self.tags = set(tags)

    def build(self, tables, args, ctx=None):
        if 'ctx' in self.tags:
            return self.fn(tables, args, ctx)
        return self.fn(tables, args)


ARGOPS = []
ARG_BY_NAME = {}


def A(name, kinds, mkargs, fn, tags=()):
    o = ArgOp('args:' + name, kinds, mkargs, fn, tags)
    assert o.name not in ARG_BY_NAME
    ARGOPS.append(o)
    ARG_BY_NAME[o.name] = o


def _dictrows(kind, vec):
    """Source for fromdicts: a list of dicts (short rows give dicts with fewer keys)."""
    hdr = C.HEADERS[kind]
    return [dict(zip(hdr, shaped(kind, i, s))) for i, s in enumerate(vec)]


def _argops():
    g = ['g']
    A('cut(list)', g, lambda: {'f': ['x', 'k']}, lambda ts, a: etl.cut(ts[0], a['f']))
    A('cut(*list)', g, lambda: {'f': ['x', 'k']}, lambda ts, a: etl.cut(ts[0], *a['f']))
    A('cutout(*list)', g, lambda: {'f': ['v']}, lambda ts, a: etl.cutout(ts[0], *a['f']))
    A('cat(header)', g, lambda: {'h': ['x', 'k', 'n']}, lambda ts, a: etl.cat(ts[0], header=a['h']))
    A('stack(missing)', ['g', 'g2'], lambda: {}, lambda ts, a: etl.stack(ts[0], ts[1], missing='-'))
    A('cat(missing)', ['g', 'g2'], lambda: {}, lambda ts, a: etl.cat(ts[0], ts[1], missing='-'))
    A('addfields(list)', g, lambda: {'f': [['n1', 1], ['n2', 2, 0]]}, lambda ts, a: etl.addfields(ts[0], a['f']))
    A('addcolumn(list)', g, lambda: {'c': [10, 20, 30]}, lambda ts, a: etl.addcolumn(ts[0], 'c', a['c']))
    A('addcolumn(list,index,missing)', g, lambda: {'c': [[1], [2]]},
      lambda ts, a: etl.addcolumn(ts[0], 'c', a['c'], index=1, missing='-'))
    A('addfield(list value)', g, lambda: {'v': [1, 2]}, lambda ts, a: etl.addfield(ts[0], 'n', a['v']))
    A('setheader(list)', g, lambda: {'h': ['a', 'b', 'c']}, lambda ts, a: etl.setheader(ts[0], a['h']))
    A('extendheader(list)', g, lambda: {'h': ['e', 'f']}, lambda ts, a: etl.extendheader(ts[0], a['h']))
    A('pushheader(list)', g, lambda: {'h': ['a', 'b', 'c']}, lambda ts, a: etl.pushheader(ts[0], a['h']))
    A('rename(dict)', g, lambda: {'d': {'k': 'kk', 'v': 'vv'}}, lambda ts, a: etl.rename(ts[0], a['d']))
    A('convert(dict spec)', g, lambda: {'d': {'k': 'upper', 'x': 'lower'}},
      lambda ts, a: etl.convert(ts[0], a['d']))
    A('convert(list spec)', g, lambda: {'l': ['upper', None, 'upper']}, lambda ts, a: etl.convert(ts[0], a['l']))
    A('convert(dict mapping)', g, lambda: {'d': {'a': 'A', 'b': ['B']}},
      lambda ts, a: etl.convert(ts[0], 'k', a['d']))
    A('convert(field list)', g, lambda: {'f': ['k', 'x']}, lambda ts, a: etl.convert(ts[0], a['f'], 'upper'))
    A('convert(failonerror=False)', g, lambda: {}, lambda ts, a: etl.convert(ts[0], 'v', lambda v: v + 1,
                                                                            failonerror=False, errorvalue='E'))
    A('convertall(where)', g, lambda: {}, lambda ts, a: etl.convertall(ts[0], str, where=lambda r: len(r) > 1))
    A('replaceall', g, lambda: {}, lambda ts, a: etl.replaceall(ts[0], 'a', ['A']))
    A('fieldmap(OrderedDict)', g,
      lambda: {'m': OrderedDict([('K', 'k'), ('V2', ('v', lambda v: v * 2)), ('D', ('k', {'a': 'A'}))])},
      lambda ts, a: etl.fieldmap(ts[0], a['m']))
    A('fieldmap(failonerror=False)', g, lambda: {'m': OrderedDict([('V2', ('v', lambda v: v * 2)), ('X', 'x')])},
      lambda ts, a: etl.fieldmap(ts[0], a['m'], failonerror=False, errorvalue='E'))
    A('rowmap(header list)', g, lambda: {'h': ['k', 'n']},
      lambda ts, a: etl.rowmap(ts[0], lambda r: [r[0], len(r)], header=a['h']))
    A('rowmap(identity)', g, lambda: {'h': ['k', 'v', 'x']},
      lambda ts, a: etl.rowmap(ts[0], lambda r: r, header=a['h']))
    A('rowmapmany(header list)', g, lambda: {'h': ['k', 'n']},
      lambda ts, a: etl.rowmapmany(ts[0], lambda r: [[r[0], 1], [r[0], 2]], header=a['h']))
    A('unpack(list)', ['l'], lambda: {'f': ['v1', 'v2']}, lambda ts, a: etl.unpack(ts[0], 'v', a['f']))
    A('unpack(list,orig,missing)', ['l'], lambda: {'f': ['v1', 'v2', 'v3']},
      lambda ts, a: etl.unpack(ts[0], 'v', a['f'], include_original=True, missing='-'))
    A('unpackdict(keys list)', ['d'], lambda: {'f': ['p', 'q', 'z']},
      lambda ts, a: etl.unpackdict(ts[0], 'v', keys=a['f'], includeoriginal=True, missing='-'))
    A('capture(list)', g, lambda: {'f': ['c1', 'c2']},
      lambda ts, a: etl.capture(ts[0], 'x', r'(\w)(\d+)', a['f'], fill=['?', '?']))
    A('split(list)', g, lambda: {'f': ['p', 'q']}, lambda ts, a: etl.split(ts[0], 'x', '-', a['f']))
    A('splitdown', g, lambda: {}, lambda ts, a: etl.splitdown(ts[0], 'x', '-', maxsplit=1))
    A('melt(lists)', g, lambda: {'k': ['k'], 'v': ['v', 'x']},
      lambda ts, a: etl.melt(ts[0], key=a['k'], variables=a['v']))
    A('recast(lists)', ['melted'], lambda: {'k': ['k'], 'r': {'value': sum}},
      lambda ts, a: etl.recast(ts[0], key=a['k'], reducers=a['r'], missing='-'))
    A('recast(variable values)', ['melted'], lambda: {'v': {'variable': ['var0', 'var1']}},
      lambda ts, a: etl.recast(ts[0], variablefield=a['v']))
    A('pivot(missing)', ['piv'], lambda: {}, lambda ts, a: etl.pivot(ts[0], 'k', 'v', 'x', sum, missing='-'))
    A('sort(key list)', g, lambda: {'k': ['k', 'v']}, lambda ts, a: etl.sort(ts[0], a['k']))
    A('sort(key list,b1)', g, lambda: {'k': ['k', 'v']}, lambda ts, a: etl.sort(ts[0], a['k'], buffersize=1))
    A('sort(x,reverse,b2)', g, lambda: {}, lambda ts, a: etl.sort(ts[0], 'x', reverse=True, buffersize=2))
    A('mergesort(key list)', ['g', 'same'], lambda: {'k': ['k']},
      lambda ts, a: etl.mergesort(ts[0], ts[1], key=a['k']))
    A('mergesort(header list)', ['g', 'same'], lambda: {'h': ['k', 'v', 'x']},
      lambda ts, a: etl.mergesort(ts[0], ts[1], key='k', header=a['h'], missing='-'))
    A('join(key list)', ['g', 'g2'], lambda: {'k': ['k']}, lambda ts, a: etl.join(ts[0], ts[1], key=a['k']))
    A('outerjoin(missing)', ['g', 'g2'], lambda: {}, lambda ts, a: etl.outerjoin(ts[0], ts[1], key='k', missing='-'))
    A('leftjoin(lkey,rkey lists)', ['g', 'g2'], lambda: {'l': ['k'], 'r': ['k']},
      lambda ts, a: etl.leftjoin(ts[0], ts[1], lkey=a['l'], rkey=a['r']))
    A('hashjoin(key list)', ['g', 'g2'], lambda: {'k': ['k']}, lambda ts, a: etl.hashjoin(ts[0], ts[1], key=a['k']))
    A('hashleftjoin(missing)', ['g', 'g2'], lambda: {},
      lambda ts, a: etl.hashleftjoin(ts[0], ts[1], key='k', missing='-'))
    A('hashrightjoin(missing)', ['g', 'g2'], lambda: {},
      lambda ts, a: etl.hashrightjoin(ts[0], ts[1], key='k', missing='-'))
    A('lookupjoin(missing)', ['g', 'g2'], lambda: {},
      lambda ts, a: etl.lookupjoin(ts[0], ts[1], key='k', missing='-'))
    A('unjoin(key)[both]', g, lambda: {}, lambda ts, a: etl.cat(*etl.unjoin(ts[0], 'v', key='k')))
    A('aggregate(key list,OrderedDict)', g,
      lambda: {'k': ['k'], 'a': OrderedDict([('n', len), ('vs', ('v', list)), ('xs', 'x')])},
      lambda ts, a: etl.aggregate(ts[0], a['k'], a['a']))
    A('aggregate(list spec)', g, lambda: {'a': [['n', len], ['s', 'v', sum]]},
      lambda ts, a: etl.aggregate(ts[0], 'k', a['a']))
    A('aggregate(list of rows)', g, lambda: {}, lambda ts, a: etl.aggregate(ts[0], 'k', list))
    A('rowreduce(rows kept)', g, lambda: {'h': ['k', 'rows']},
      lambda ts, a: etl.rowreduce(ts[0], 'k', lambda k, rows: [k, list(rows)], header=a['h']))
    A('duplicates(key list)', g, lambda: {'k': ['k']}, lambda ts, a: etl.duplicates(ts[0], a['k']))
    A('conflicts(exclude list)', g, lambda: {'e': ['x']},
      lambda ts, a: etl.conflicts(ts[0], 'k', exclude=a['e']))
    A('conflicts(include list)', g, lambda: {'i': ['v']},
      lambda ts, a: etl.conflicts(ts[0], 'k', include=a['i']))
    A('mergeduplicates(key list)', g, lambda: {'k': ['k']}, lambda ts, a: etl.mergeduplicates(ts[0], a['k']))
    A('merge(key list)', ['g', 'g2'], lambda: {'k': ['k']}, lambda ts, a: etl.merge(ts[0], ts[1], key=a['k']))
    A('selectin(list)', g, lambda: {'l': ['a', 'b']}, lambda ts, a: etl.selectin(ts[0], 'k', a['l']))
    A('selectnotin(list)', g, lambda: {'l': ['a']}, lambda ts, a: etl.selectnotin(ts[0], 'k', a['l']))
    A('select(every row)', g, lambda: {}, lambda ts, a: etl.select(ts[0], lambda r: len(r) >= 0))
    A('filldown(fields)', ['fill'], lambda: {'f': ['k', 'v']}, lambda ts, a: etl.filldown(ts[0], *a['f']))
    A('filldown(missing)', ['fill'], lambda: {}, lambda ts, a: etl.filldown(ts[0], missing=None))
    A('fillright(missing)', ['fill'], lambda: {}, lambda ts, a: etl.fillright(ts[0], missing=None))
    A('fillright(missing=3)', g, lambda: {}, lambda ts, a: etl.fillright(ts[0], missing=3))
    A('fillleft(missing=3)', g, lambda: {}, lambda ts, a: etl.fillleft(ts[0], missing=3))
    A('filldown(missing=1)', g, lambda: {}, lambda ts, a: etl.filldown(ts[0], 'v', missing=1))
    # presorted forms: source rows reach the merge / grouping loops without passing through sort()
    for nm, f in [('join', etl.join), ('leftjoin', etl.leftjoin), ('rightjoin', etl.rightjoin),
                  ('outerjoin', etl.outerjoin), ('antijoin', etl.antijoin), ('lookupjoin', etl.lookupjoin)]:
        A('%s(presorted)' % nm, ['g', 'g2'], lambda: {},
          (lambda f: lambda ts, a: f(ts[0], ts[1], key='k', presorted=True))(f))
    A('complement(presorted)', ['g', 'same'], lambda: {},
      lambda ts, a: etl.complement(ts[0], ts[1], presorted=True))
    A('intersection(presorted)', ['g', 'same'], lambda: {},
      lambda ts, a: etl.intersection(ts[0], ts[1], presorted=True))
    A('mergesort(presorted)', ['g', 'same'], lambda: {},
      lambda ts, a: etl.mergesort(ts[0], ts[1], key='k', presorted=True))
    for nm, fn in [
        ('duplicates', lambda t: etl.duplicates(t, 'k', presorted=True)),
        ('unique', lambda t: etl.unique(t, 'k', presorted=True)),
        ('distinct', lambda t: etl.distinct(t, 'k', presorted=True)),
        ('distinct(count)', lambda t: etl.distinct(t, 'k', count='n', presorted=True)),
        ('conflicts', lambda t: etl.conflicts(t, 'k', presorted=True)),
        ('aggregate', lambda t: etl.aggregate(t, 'k', list, presorted=True)),
        ('aggregate(multi)', lambda t: etl.aggregate(t, 'k', OrderedDict([('rows', list), ('vs', ('v', list))]),
                                                     presorted=True)),
        ('rowreduce', lambda t: etl.rowreduce(t, 'k', lambda k, rows: [k, list(rows)], header=['k', 'rows'],
                                              presorted=True)),
        ('rowgroupmap', lambda t: etl.rowgroupmap(t, 'k', lambda k, rows: list(rows), header=['k', 'v', 'x'],
                                                  presorted=True)),
        ('mergeduplicates', lambda t: etl.mergeduplicates(t, 'k', presorted=True)),
        ('fold', lambda t: etl.fold(t, 'k', lambda a, b: a, presorted=True)),
        ('groupselectfirst', lambda t: etl.groupselectfirst(t, 'k', presorted=True)),
        ('groupselectlast', lambda t: etl.groupselectlast(t, 'k', presorted=True)),
        ('unjoin[0]', lambda t: etl.unjoin(t, 'k', presorted=True)[0]),
        ('unjoin[1]', lambda t: etl.unjoin(t, 'k', presorted=True)[1]),
    ]:
        A('%s(presorted)' % nm, g, lambda: {}, (lambda fn: lambda ts, a: fn(ts[0]))(fn))
    A('validate(lists)', g,
      lambda: {'c': [dict(name='v_int', field='v', test=int), dict(name='k_ab', field='k', assertion=lambda v: v in 'ab')],
               'h': ['k', 'v', 'x']},
      lambda ts, a: etl.validate(ts[0], constraints=a['c'], header=a['h']))
    A('transpose', g, lambda: {}, lambda ts, a: etl.transpose(ts[0]))
    A('unflatten(list input)', [], lambda: {'s': ['a', 1, 'b', 2, 'c']}, lambda ts, a: etl.unflatten(a['s'], 2))
    A('fromdicts(list of dicts)', [], lambda: {'d': _dictrows('g', ('full', 'short2', 'full')), 'h': ['k', 'v', 'x']},
      lambda ts, a: etl.fromdicts(a['d'], header=a['h']))
    A('fromdicts(list of dicts,noheader)', [], lambda: {'d': _dictrows('g', ('full', 'short1', 'full'))},
      lambda ts, a: etl.fromdicts(a['d']))
    A('fromdicts(dicts with list cells)', [], lambda: {'d': _dictrows('l', ('full', 'full'))},
      lambda ts, a: etl.unpack(etl.fromdicts(a['d'], header=['k', 'v', 'x']), 'v', ['v1', 'v2']))
    A('fromcolumns(lists)', [], lambda: {'c': [['a', 'b', 'c'], [1, 2], [[1], [2], [3]]], 'h': ['k', 'v', 'x']},
      lambda ts, a: etl.fromcolumns(a['c'], header=a['h'], missing='-'))
    A('dummytable(fields list)', [], lambda: {'f': [['a', C._rnd_int], ['b', C._rnd_float]]},
      lambda ts, a: etl.dummytable(3, fields=a['f'], seed=7))
    A('wrap(list)[k]', g, lambda: {}, lambda ts, a: etl.wrap(ts[0])['k'], ('container',))
    A('tohtml', g, lambda: {}, lambda ts, a, ctx: etl.tohtml(ts[0], os.path.join(ctx, 'o.html')), ('ctx', 'eager'))
    A('tojsonarrays', g, lambda: {}, lambda ts, a, ctx: etl.tojsonarrays(ts[0], os.path.join(ctx, 'o.json')),
      ('ctx', 'eager'))
    A('tocsv+appendcsv', g, lambda: {},
      lambda ts, a, ctx: (etl.tocsv(ts[0], os.path.join(ctx, 'o.csv')), etl.appendcsv(ts[0], os.path.join(ctx, 'o.csv'))),
      ('ctx', 'eager'))
    A('topickle+appendpickle', g, lambda: {},
      lambda ts, a, ctx: (etl.topickle(ts[0], os.path.join(ctx, 'o.p')), etl.appendpickle(ts[0], os.path.join(ctx, 'o.p'))),
      ('ctx', 'eager'))
    A('todb+appenddb', g, lambda: {}, _todb, ('ctx', 'eager'))
    A('totext(list cells)', ['l'], lambda: {},
      lambda ts, a, ctx: etl.totext(ts[0], os.path.join(ctx, 'o.txt'), template='{k}|{v}\n'), ('ctx', 'eager'))


def _todb(ts, a, ctx):
    import sqlite3
    conn = sqlite3.connect(os.path.join(ctx, 'o.db'))
    try:
        conn.execute('CREATE TABLE t (k TEXT, v INTEGER, x TEXT)')
        etl.todb(ts[0], conn, 't')
        etl.appenddb(ts[0], conn, 't')
    finally:
        conn.close()


_argops()


def by_name(name):
    if name in ARG_BY_NAME:
        return ARG_BY_NAME[name]
    return C.BY_NAME[name]


def all_ops():
    return [o for o in C.OPS if 'c02only' not in o.tags] + ARGOPS


def base(name):
    if name.startswith('args:'):
        name = name[5:]
    return re.split(r'[(]', name)[0]


# ---------------------------------------------------------------------------------------------
# one state
# ---------------------------------------------------------------------------------------------

def _close(it):
    c = getattr(it, 'close', None)
    if c is not None:
        try:
            c()
        except Exception:
            pass


def evaluate(op, vecs, mode):
    """Runs one state on the real petl.  -> (problems, info) where problems is a list of
    (signature, expected, observed, message) and info = (delivered items, exception type or None)."""
    tables = [mktable(kd, v) for kd, v in zip(op.kinds, vecs)]
    isarg = isinstance(op, ArgOp)
    args = op.mkargs() if isarg else None
    before_plain = copy.deepcopy(tables)
    before = snap(tables)
    args_before = snap(args) if isarg else None
    args_plain = plain(args) if isarg else None
    ctx = tempfile.mkdtemp(prefix='c03-', dir=env.worker_dir()) if 'ctx' in op.tags else None
    retained = []
    exc = None
    delivered = 0
    passes = 2 if mode == 'twice' else 1
    take = {'take1': 1, 'take2': 2, 'take3': 3}.get(mode)
    try:
        try:
            if 'eager' in op.tags:
                for _ in range(passes):
                    res = op.build(tables, args, ctx) if isarg else op.build(tables, ctx=ctx)
                    retained.append((res, snap(res)))
                    delivered += 1
            else:
                view = op.build(tables, args, ctx) if isarg else op.build(tables, ctx=ctx)
                for _ in range(passes):
                    it = iter(view)
                    try:
                        n = 0
                        while take is None or n < take:
                            try:
                                item = next(it)
                            except StopIteration:
                                break
                            retained.append((item, snap(item)))
                            n += 1
                            delivered += 1
                    finally:
                        _close(it)
                        del it
                del view
        except Exception as e:   # tolerated: C03 is about mutation, not about which shapes an operator accepts
            exc = type(e).__name__
    finally:
        if ctx:
            shutil.rmtree(ctx, ignore_errors=True)
    problems = []
    after = snap(tables)
    if after != before:
        why = describe(before_plain, plain(tables))
        problems.append(('source modified', before_plain, plain(tables),
                         '%s modified its input (%s mode, %s): %s' % (op.name, mode, _vtxt(vecs), why)))
    if isarg and snap(args) != args_before:
        why = describe(args_plain, plain(args), 'argument')
        problems.append(('argument container modified', args_plain, plain(args),
                         '%s modified a caller-owned argument container: %s' % (op.name, why)))
    for i, (obj, s) in enumerate(retained):
        now = snap(obj)
        if now != s:
            problems.append(('delivered row altered later', show(s)[:600], show(now)[:600],
                             '%s: item #%d delivered earlier was altered by continuing the evaluation (%s mode, %s)'
                             % (op.name, i, mode, _vtxt(vecs))))
            break
    return problems, (delivered, exc, len(retained))


def _vtxt(vecs):
    return 'shapes ' + ' / '.join('(' + ','.join(v) + ')' for v in vecs)


# ---------------------------------------------------------------------------------------------
# runner interface
# ---------------------------------------------------------------------------------------------

def maxn(tier):
    return 2 if tier == 'quick' else 3


def inputs(op, tier):
    k = len(op.kinds)
    vs = vectors(maxn(tier), extra=True)
    if k == 0:
        return [()]
    if k == 1:
        return [(v,) for v in vs]
    out, seen = [], set()

    def add(x):
        if x not in seen:
            seen.add(x)
            out.append(x)
    for v in vs:
        if k == 2:
            add((v, FULL2))
            add((FULL2, v))
            add((v, v))
        else:
            add(tuple([v] + [FULL2] * (k - 1)))
            add(tuple([v] * k))
    if tier == 'thorough' and k == 2:
        for a in vectors(2):
            for b in vectors(2):
                add((a, b))
    return out


def items(tier, seed):
    out = [(o.name, tier) for o in all_ops()]
    k = seed % len(out)
    return out[k:] + out[:k]


def cost(item):
    o = by_name(item[0])
    c = max(1, len(o.kinds)) ** 2
    if o.tags & {'ctx', 'io'}:
        c *= 8
    if 'sorted' in o.tags:
        c *= 2
    return c


def bounds(tier, seed):
    return {'call_forms': len(all_ops()), 'catalogue_forms': len(all_ops()) - len(ARGOPS),
            'local_forms_with_caller_owned_arguments': len(ARGOPS), 'shapes': list(SHAPES),
            'max_rows': maxn(tier), 'shape_vectors': len(vectors(maxn(tier), extra=True)),
            'extra_vectors': 'max_rows+1 rows with at most one non-full row', 'modes': list(MODES),
            'eager_modes': list(EAGER_MODES),
            'binary_inputs': 'vector on left / right / both' + (' + all pairs with n<=2' if tier == 'thorough' else '')}


def run_item(item, acc):
    name, tier = item
    op = by_name(name)
    modes = EAGER_MODES if 'eager' in op.tags else MODES
    done = 0
    for vecs in inputs(op, tier):
        for mode in modes:
            acc.states += 1
            acc.transitions += 2 if mode == 'twice' else 1
            problems, (delivered, exc, nret) = evaluate(op, vecs, mode)
            acc.evals += 1 + nret
            if any(len(v) for v in vecs) and delivered > (0 if 'eager' in op.tags or 'container' in op.tags else 1):
                acc.nontrivial += 1
            if exc is None:
                done += 1
            else:
                acc.counters['tolerated exceptions'] += 1
            acc.outcome((name, vecs, mode, delivered, exc, tuple(p[0] for p in problems)))
            for sig, exp, obs, msg in problems:
                acc.violation('%s | %s' % (base(name), sig),
                              {'op': name, 'vecs': [list(v) for v in vecs], 'mode': mode, 'sig': sig},
                              exp, obs, msg)
    if done == 0:
        acc.notes.append('call form %s never completed without an exception' % name)
        acc.counters['call forms that never completed'] += 1
    acc.counters['call forms'] += 1
    acc.sample({'op': name, 'inputs': len(inputs(op, tier)), 'modes': list(modes),
                'states_completed_without_exception': done}, 1)


def replay(case):
    op = by_name(case['op'])
    problems, _ = evaluate(op, tuple(tuple(v) for v in case['vecs']), case['mode'])
    problems = [p for p in problems if p[0] == case['sig']]
    if not problems:
        return None
    sig, exp, obs, msg = problems[0]
    return (exp, obs, msg)


def vacuity(cov, tier):
    c = cov['per_case_counters']
    out = []
    if c.get('call forms that never completed', 0):
        out.append('%d call form(s) never completed without an exception: %s'
                   % (c['call forms that never completed'], cov.get('notes')))
    if c.get('call forms', 0) != len(all_ops()):
        out.append('not every call form was run')
    return out


def _cls_opbase(group, case, params):
    return base(case.get('op', '')) in params.get('ops', []) and case.get('sig') == params.get('sig')


CLASSIFIERS = {'operator_and_signature': _cls_opbase}
