"""Manifest metadata per check (level, technique, claims)."""
PENDING_REASON = ('check not built yet in this snapshot of /verif (the property is in scope of bounded '
                  'exhaustive exploration, see DESIGN.md §3); not claimed until its check is registered')

META = {
    'C04': {
        'engine': 'E2', 'level': 'model_checking',
        'technique': 'exhaustive enumeration of all pairs and triples over a 36-value mixed-type alphabet '
                     'on the real Comparable, checked against order laws and an independent reference order',
        'text': 'All 1 296 ordered pairs and 46 656 ordered triples over V36 are run through '
                'petl.comparison.Comparable (laws: irreflexive/asymmetric/transitive, incomparability '
                'transitive, equivalence == ==, derived operators) and compared with an independent '
                'reference cmp; every pair is also pushed through sort, issorted, the comparison/range '
                'selectors and join. Complete for the alphabet, silent about values outside it.',
        'note': 'trusts the 36 representatives to cover every branch of the comparison ladder; NaN excluded',
    },
}
