"""Manifest metadata per check (level, technique, claims)."""
PENDING_REASON = ('check not built yet in this snapshot of /verif (the property is in scope of bounded '
                  'exhaustive exploration, see DESIGN.md §3); not claimed until its check is registered')

META = {
    'C01': {
        'engine': 'E1', 'level': 'model_checking',
        'technique': 'stateless exhaustive exploration of all open/next interleavings of 2 iterators (and '
                     'deviation-bounded interleavings of 3) over every catalogue view on the real objects, '
                     'with a fresh-pass oracle in every node',
        'text': 'For each of ~240 view call forms (all transforms, util views, extractors, every caching '
                'configuration) every interleaving of open/next on two iterators over 2-3-row sources is '
                'executed on the live petl view from a cold start, after a full pass and after an abandoned '
                'pass; three iterators with <=2 mid-pass switches (all interleavings on 1-row sources in '
                'thorough). Every item is compared with a solo pass over a freshly built identical view and a '
                'fresh complete pass is run in every node (= every abandonment point).',
        'note': 'bounded to <=3 iterators and <=4-row sources; the catalogue call forms stand for the view '
                'classes; tee* excluded by the statement; packages not installed (intervaltree, numpy ...) excluded',
    },
    'C04': {
        'engine': 'E2', 'level': 'model_checking',
        'technique': 'exhaustive enumeration of all pairs and triples over a 36-value mixed-type alphabet '
                     'on the real Comparable, checked against order laws and an independent reference order',
        'text': 'All 1 296 ordered pairs and 46 656 ordered triples over V36 are run through '
                'petl.comparison.Comparable (laws: irreflexive/asymmetric/transitive, incomparability '
                'transitive, equivalence == ==, derived operators) and compared with an independent '
                'reference cmp; every pair is also pushed through sort, issorted, the comparison/range '
                'selectors and join. Complete for the alphabet, silent about values outside it.',
        'note': 'trusts the 36 representatives to cover every branch of the comparison ladder; NaN excluded',
    },
}
