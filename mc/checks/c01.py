"""C01 — views are re-iterable; iterators over one view are mutually independent.

E1: for every catalogue view, explore ALL interleavings of open/next events on 2 iterators (and
deviation-bounded interleavings on 3), from a cold start and from two warm starts (after one full
pass; after a pass abandoned after 2 items).  Step oracle: every item equals the item a solo pass
over a freshly built identical view yields at that position.  Node oracle (every node = every
abandonment point): one more complete pass yields the full expected sequence.
"""
import os
import random
import shutil

from .. import catalogue as C
from .. import env
from .. import explore
from ..sources import freeze

ID = 'C01'
LEVEL = 'model_checking'
ENGINE = 'E1 stateless schedule explorer on live petl views'
RULE = ('world = catalogue view over immutable tuple sources, and over list-typed sources (list header, list rows, '
        'fresh per world); events open(i)/next(i), and one clearcache() at any point for the views that offer it (cache, sort); all interleavings for 2 '
        'iterators, deviation-bounded (mid-pass switches) for 3; x warm start (cold / after full pass / after '
        'pass abandoned at item 2); node = event history; fresh full pass checked in every node. A node is '
        'non-trivial when at least two iterators are mid-pass (delivered >=1 item, not exhausted) or one is '
        'mid-pass while another has finished')
ASSUMPTIONS = ['sources are small (1-4 data rows); at most 3 live iterators',
               'global random state pinned per world (random.seed) so schedules replay deterministically',
               'tee* views excluded by the statement; interval*/numpy/pandas/xls views need missing packages']

WARM = ('cold', 'afterfull', 'afterpartial')


CLEARABLE = None


def setup(tier, seed):
    """Which catalogue views offer clearcache() (CacheView, SortView)."""
    global CLEARABLE
    CLEARABLE = set()
    for o in eligible():
        if not o.kinds or 'ctx' in o.tags:
            continue
        try:
            v = o.build([C.table(kd, 1) for kd in o.kinds])
        except Exception:
            continue
        if hasattr(v, 'clearcache'):
            CLEARABLE.add(o.name)


def eligible():
    return [o for o in C.OPS if not (o.tags & {'eager', 'notee'})
            and ('c02only' not in o.tags or 'presorted' in o.tags)]


class Harness(object):
    def __init__(self, opname, n, k, warm, tag='', src='tuple', clear=False):
        self.op = C.BY_NAME[opname]
        self.src = src
        self.clear = clear
        self.n = n
        self.k = k
        self.warm = warm
        self.dir = os.path.join(env.worker_dir(), 'c01' + tag)
        self.tables = None
        self._fresh_dir()
        self.E = self._expected()

    # -- world -----------------------------------------------------------------------------
    def _fresh_dir(self):
        shutil.rmtree(self.dir, ignore_errors=True)
        os.makedirs(self.dir)
        return self.dir

    def _build(self):
        if not self.op.kinds:
            random.seed(20260101)   # views that draw from the process-global RNG
        if self.src == 'list':
            # list header and list rows, fresh per world: a view that edits its source in place shows on later passes
            tables = [C.table(kd, self.n, mutable=True) for kd in self.op.kinds]
            return self.op.build(tables, ctx=self.dir if 'ctx' in self.op.tags else None)
        if self.tables is None:
            self.tables = [C.table(kd, self.n) for kd in self.op.kinds]   # immutable tuples: shareable
        return self.op.build(self.tables, ctx=self.dir if 'ctx' in self.op.tags else None)

    def _expected(self):
        a = [freeze(x) for x in self._build()]
        b = [freeze(x) for x in self._build()]
        if a != b:
            raise RuntimeError('catalogue view %s is not deterministic across fresh builds' % self.op.name)
        return a

    def reset(self):
        w = {'view': self._build(), 'its': {}, 'pos': {}, 'done': {}, 'last': None, 'lastpos': None,
             'switches': 0, 'clears': 0}
        if self.warm == 'afterfull':
            for _ in w['view']:
                pass
        elif self.warm == 'afterpartial':
            it = iter(w['view'])
            try:
                next(it)
                next(it)
            except StopIteration:
                pass
            del it
        return w

    def close(self, w):
        w['its'].clear()
        w['view'] = None

    @staticmethod
    def _mid(w, i):
        return i is not None and w['pos'].get(i, 0) >= 1 and not w['done'].get(i, False)

    def enabled(self, w):
        last = w['last']
        cost = 1 if self._mid(w, last) else 0
        out = []
        if last is not None and not w['done'][last]:
            out.append((('next', last), 0))
        for i in sorted(w['its']):
            if i != last and not w['done'][i]:
                out.append((('next', i), cost))
        m = len(w['its'])
        if m < self.k:
            out.append((('open', m), cost))
        if self.clear and w['clears'] < 1 and hasattr(w['view'], 'clearcache'):
            # the public clearcache() of the caching views, at most once per history, at any point
            out.append((('clear', -1), 0))
        return out

    def apply(self, w, ev):
        kind, i = ev
        if kind == 'clear':
            w['clears'] += 1
            try:
                w['view'].clearcache()
                return ('cleared',)
            except Exception as e:
                return ('exc-at-clearcache', type(e).__name__, env.excmsg(e))
        if kind == 'open':
            try:
                w['its'][i] = iter(w['view'])
                obs = ('opened',)
            except Exception as e:
                w['its'][i] = iter(())
                obs = ('exc-at-iter', type(e).__name__, env.excmsg(e))
            w['pos'][i] = 0
            w['done'][i] = False
        else:
            w['lastpos'] = w['pos'][i]
            try:
                item = next(w['its'][i])
                obs = ('item', freeze(item))
                w['pos'][i] += 1
            except StopIteration:
                obs = ('stop',)
                w['done'][i] = True
            except Exception as e:
                obs = ('exc', type(e).__name__, env.excmsg(e))
                w['done'][i] = True
        if w['last'] is not None and w['last'] != i:
            w['switches'] += 1
        w['last'] = i
        return obs

    def step_check(self, w, ev, obs):
        kind, i = ev
        if kind == 'clear':
            if obs != ('cleared',):
                return ('cleared', obs, 'clearcache() raised')
            return None
        if kind == 'open':
            if obs != ('opened',):
                return ('iterator', obs, 'iter(view) raised: it%d' % i)
            return None
        p = w['lastpos']
        exp = ('item', self.E[p]) if p < len(self.E) else ('stop',)
        if obs != exp:
            what = 'raised' if obs[0] == 'exc' else ('ended early' if obs == ('stop',) else
                                                      ('did not end' if exp == ('stop',) else 'wrong item'))
            return (exp, obs, 'interleaved iterator %s: it%d at position %d' % (what, i, p))
        return None

    def node_check(self, w, hist):
        try:
            got = [freeze(x) for x in w['view']]
        except Exception as e:
            return (self.E, ('exc', type(e).__name__, env.excmsg(e)), 'fresh pass raised')
        if got != self.E:
            return (self.E, got, 'fresh pass differs')
        return None

    def abstract(self, w):
        return (tuple(sorted(w['pos'].items())), tuple(sorted(w['done'].items())), _vdig(w['view'], 0))

    def nontrivial(self, w, hist):
        mids = sum(1 for i in w['its'] if self._mid(w, i))
        fin = sum(1 for i in w['its'] if w['done'][i])
        return mids >= 2 or (mids >= 1 and fin >= 1)


def _vdig(obj, depth):
    if depth > 3:
        return '.'
    try:
        d = vars(obj)
    except TypeError:
        if isinstance(obj, (list, tuple, dict)):
            return (type(obj).__name__, len(obj))
        if obj is None or isinstance(obj, (bool, int)):
            return obj
        return type(obj).__name__
    return (type(obj).__name__,) + tuple((k, _vdig(v, depth + 1)) for k, v in sorted(d.items()))


def config_of(h, bound):
    return {'op': h.op.name, 'n': h.n, 'k': h.k, 'warm': h.warm, 'bound': bound, 'src': h.src, 'clear': h.clear}


def items(tier, seed):
    out = []
    ops = eligible()
    for o in ops:
        expand = 'expand' in o.tags or ('dup' in o.kinds and len(o.kinds) > 1)   # (joins on one repeated key: n*n rows)
        n2 = 2 if expand else 3
        n3 = 1 if expand else 2
        stateful = 'stateful' in o.tags
        # (the presorted=True variants hold no state between passes: one warm start besides the cold one in quick)
        for warm in (WARM if tier == 'thorough' or 'presorted' not in o.tags else ('cold', 'afterpartial')):
            out.append({'op': o.name, 'n': n2, 'k': 2, 'warm': warm, 'bound': None})
        # three iterators: shared state lives in the 'stateful' views, the others are pure generators
        out.append({'op': o.name, 'n': n3, 'k': 3, 'warm': 'cold', 'bound': 2 if stateful else 1})
        if o.name in CLEARABLE:
            # caching views with a public clearcache(): one call at any point of the history
            out.append({'op': o.name, 'n': n3, 'k': 2, 'warm': 'cold', 'bound': 2 if tier == 'quick' else None,
                        'clear': True})
            out.append({'op': o.name, 'n': n3, 'k': 2, 'warm': 'afterfull', 'bound': 1 if tier == 'quick' else None,
                        'clear': True})
        if o.kinds:
            # the same view over list-typed sources (list header, list rows): passes that edit the source in place
            out.append({'op': o.name, 'n': n2, 'k': 2, 'warm': 'cold', 'bound': None if tier == 'thorough' else 1,
                        'src': 'list'})
        if tier == 'thorough':
            heavy = ('b1' in o.name or 'b2' in o.name or 'io' in o.tags or len(o.kinds) > 1)   # ms per node
            if not expand:
                out.append({'op': o.name, 'n': n2 + 1, 'k': 2, 'warm': 'cold', 'bound': None})
            for warm in WARM:
                out.append({'op': o.name, 'n': n3, 'k': 3, 'warm': warm,
                            'bound': 3 if (warm == 'cold' or not heavy) else 2})
            if stateful and o.kinds:     # (views without table inputs have a fixed length: n does not shrink them)
                out.append({'op': o.name, 'n': 1, 'k': 3, 'warm': 'cold', 'bound': None})
                if not heavy and not expand:
                    out.append({'op': o.name, 'n': 2, 'k': 3, 'warm': 'cold', 'bound': 5})
    k = seed % max(1, len(out))
    return out[k:] + out[:k]


def cost(item):
    o = C.BY_NAME[item['op']]
    c = {None: 6, 1: 1, 2: 5, 3: 20, 5: 80}.get(item['bound'], 10) * (3 if item['k'] == 3 and item['bound'] is None else 1)
    if 'sorted' in o.tags or 'io' in o.tags:
        c *= 4
    if 'expand' in o.tags or len(o.kinds) > 1:
        c *= 2
    return c * (item['n'] + 1)


def bounds(tier, seed):
    return {'views': len(eligible()), 'iterators': '2 (all interleavings), 3 (deviation bound 2 quick / 3 thorough; '
            'all interleavings on 1-row sources for stateful views in thorough)',
            'rows': '2-3 quick, up to 4 thorough', 'warm_starts': list(WARM),
            'source_types': 'tuple tables (all configurations); list tables (2 iterators, cold; bound 1 quick, all '
                            'interleavings thorough)',
            'excluded': sorted(o.name for o in C.OPS if 'notee' in o.tags)}


def run_item(item, acc):
    h = Harness(item['op'], item['n'], item['k'], item['warm'], src=item.get('src', 'tuple'),
                clear=item.get('clear', False))
    cfg = dict(item)
    st = explore.explore(h, item['bound'], acc, lambda hist: {'config': cfg, 'history': hist},
                         group_prefix='%s | ' % item['op'], count_nontrivial=h.nontrivial)
    acc.counters['nodes:k%d' % item['k']] += st.nodes
    acc.counters['leaves'] += st.leaves
    acc.counters['events_executed_incl_replay'] += st.events_executed
    acc.counters['views_x_modes'] += 1
    acc.sample({'config': cfg, 'expected_sequence_len': len(h.E), 'nodes': st.nodes, 'leaves': st.leaves,
                'max_depth': st.max_depth}, 1)
    shutil.rmtree(h.dir, ignore_errors=True)


def replay(case):
    cfg = case['config']
    h = Harness(cfg['op'], cfg['n'], cfg['k'], cfg['warm'], tag='r', src=cfg.get('src', 'tuple'),
                clear=cfg.get('clear', False))
    hist = [tuple(e) for e in case['history']]
    r = explore.replay(h, hist)
    shutil.rmtree(h.dir, ignore_errors=True)
    return r
