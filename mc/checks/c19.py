"""C19 — the failonerror policy decides exactly what a failing conversion becomes.

E3 fault-set enumeration: for every call form of convert / fieldmap / rowmap / rowmapmany (and the convenience
wrappers that forward failonerror), every table of n rows x EVERY subset of failing cells (rowmapmany: every
vector of generator behaviours) x the three policies x every way of supplying the policy (argument, argument
against a contrary config, config default with the argument omitted / None, config read at construction) x
errorvalue, one pass is driven with next() on the real petl view and compared with mc/refs/c19ref.py.
"""
import itertools
from collections import OrderedDict

import petl as etl
import petl.config as config

from .. import spaces
from ..refs import c19ref as ref

ID = 'C19'
LEVEL = 'fault_enumeration'
ENGINE = 'E3 failing-cell-subset enumeration against a policy reference model'
RULE = ('for each call form: all tables of n rows (two fields) x every subset of the 2n cells marked as making '
        'the user function raise (rowmapmany: every vector over {yield 0/1/2 rows, yield 0/1/2 rows then raise}) '
        '(lazy-row forms: rowmap mappers returning a generator expression / map object / iterator object whose '
        'materialisation raises at each cell position, rowmapmany yielding such rows, failing at cell position '
        '0/1/2 after 0/1/2 good rows; short-row forms: every vector of row states {a ok/bad} x {b ok/bad/absent} '
        'or empty row, with mappings / converters / mappers that read the absent field and choke on the None it '
        'reads as, errorvalue additionally "77") x where-selection subsets (where forms) x policy in {False, True, "inline"} x mode in {argument; '
        'argument with config set to a different policy; argument omitted with config set; failonerror=None with '
        'config set; config set only while the view is constructed} x errorvalue in {omitted, None, "ERR"} '
        '(cell-level forms).  The pass is driven item by item: rows delivered before an exception, the '
        'exception (the user exception must be the one raised / delivered, builtin converter exceptions are '
        'matched by presence only) and every delivered cell are compared.  A case is non-trivial when at least '
        'one cell/row fails and at least one does not.  '
        'Exception-type space: every form whose user function raises x the TYPE it raises (IndexError, KeyError, '
        'LookupError, TypeError, ValueError, AttributeError, StopIteration, RuntimeError, ZeroDivisionError besides '
        'the custom class) x all inputs of <= 2 rows (3 thorough) x policy x {argument, config} x errorvalue '
        '{omitted, "ERR"}: the expected observation does not depend on the type.  '
        'Exception objects as data: every form x every assignment of {ok, failing, exception OBJECT (instance of '
        'the custom class / ValueError / KeyError that nobody raised)} to the cells of tables of <= 2 rows (3 '
        'thorough; ragged and rowmapmany tables likewise); the user functions hand such objects on as values (they '
        'RETURN them), copy mappings copy them, untouched fields keep them.  Two-stage pipelines: an upstream '
        'convert / fieldmap run with failonerror="inline" (its failing cells become exception objects) feeding a '
        'downstream fieldmap (copy, composed, record functions) / convert (incl. pass_row, builtin int) / rowmap '
        '(incl. lazy rows) run with the policy under test, x the type the upstream functions raise.  The policy must '
        'react only to exceptions RAISED by the user function of this stage.  '
        'Positional policy: for the operators whose documented signature has failonerror at a fixed position '
        '(fieldmap(table, mappings, failonerror, errorvalue), rowmap / rowmapmany(table, f, header, failonerror)) '
        'every fieldmap / rowmap / rowmapmany form is also run with the policy (and errorvalue) passed by position, '
        'in function and in Table-method syntax, while petl.config.failonerror holds a different policy.  '
        'Hash-equal and repeated cells: every table of <= 2 rows (3 thorough) whose columns are drawn from '
        '{failing text, 2, 2.0, True, 1.0} / {failing text, 3, 3.0} with type-sensitive user functions (floats '
        'fail, the hash-equal int / bool does not), pure and fail-once: a cell must not inherit the outcome of an '
        'equal or repeated cell seen earlier.  '
        'Stateful user functions: every form that has user functions is also run with fail-once functions (raise '
        'only the first time they meet an offending value, succeed on a retry; None always fails) and with '
        'call-counting functions (a result carries how often this function was called with these arguments) over '
        'all inputs of <= 2 rows (3 thorough): the policy must apply to the failure that happened, so a second '
        'evaluation of a row shows in the delivered rows / the raised exception.  Both kinds are independent of the '
        'order in which the cells of a row are evaluated; under True the exception of ANY failing cell of the row '
        'is accepted.  The call log is compared with a once-per-cell model for information only (evidence counter '
        'info:call log differs ...), never reported.  '
        'Excluded: StopIteration raised inside map() / a hand-written iterator (the iterator protocol defines it as '
        'the end of the row, not a failure); a raising `where` predicate, a mapper returning a non-row, policy values other than the three '
        'documented ones (None / other truthy values), exceptions not derived from Exception.  Under True every '
        'row produced before the failure - including the rows a rowmapmany generator yielded for the failing source '
        'row before it raised (0..2 of them) - must be delivered before the exception surfaces.')
ASSUMPTIONS = ['tables have <= 4 rows (5 thorough) and two fields; user functions fail as a function of the cell value '
               '(and, in the stateful modes, of whether they met it before / of the call ordinal)',
               'the config default is read when the view is constructed (anchor petl/transform/conversions.py:338)']

POLICIES = (False, True, 'inline')
MODES = ('arg', 'arg-vs-config', 'config', 'none-arg+config', 'config-at-construction')   # + POS_MODES
ERRORVALUES = (ref.OMIT, None, 'ERR')
_OTHER = {False: True, True: 'inline', 'inline': False}

_R = None
_TIER = 'quick'


def setup(tier, seed):
    global _R, _TIER
    _R = spaces.reps(seed)
    _TIER = tier
    missing = set(ref.FORMS) ^ set(BUILD)
    if missing:
        raise RuntimeError('call forms of model and check differ: %r' % sorted(missing))


def _nmax(tier):
    return 5 if tier == 'thorough' else 4


def bounds(tier, seed):
    return {'max_rows': _nmax(tier), 'max_rows_rowmapmany': 5 if tier == 'thorough' else 4,
            'forms': len(BUILD), 'policies': 3, 'user_exception_types': list(ref.KIND_ORDER),
            'data_exception_classes': list(ref.DATA_CLASS_ORDER), 'data_exception_space_max_rows': 3 if tier == 'thorough' else 2,
            'pipelines': ['%s -> %s' % (u, d) for u in UPSTREAMS for d in DOWNSTREAMS],
            'positional_policy_forms': sorted(POSBUILD), 'positional_modes': list(POS_MODES),
            'hash_equal_alphabets': [[repr(x) for x in col] for col in ref.eq_alphabets(_R)],
            'user_function_states': list(ref.STATES), 'call_log': 'informational counter only',
            'exception_type_space_max_rows': 3 if tier == 'thorough' else 2,
            'short_row_forms_max_rows': 4 if tier == 'thorough' else 3, 'modes': list(MODES), 'errorvalues': ['<omitted>', None, 'ERR']}


# ------------------------------------------------------------------------------------------------
# call forms on the real code: name -> build(table, kw, selected_values) -> view
# ------------------------------------------------------------------------------------------------

def _suffix_convert(t, kw, sel):
    v = etl.convert(t, **kw)
    v['b'] = ref.conv
    return v


def _suffix_fieldmap(t, kw, sel):
    v = etl.fieldmap(t, **kw)
    v['p'] = ('a', ref.conv)
    v['q'] = 'b'
    return v


def _od(*pairs):
    return OrderedDict(pairs)


BUILD = {
    'convert(name, f)': lambda t, kw, sel: etl.convert(t, 'a', ref.conv, **kw),
    'convert(index, f)': lambda t, kw, sel: etl.convert(t, 1, ref.conv, **kw),
    'convert((a, b), f)': lambda t, kw, sel: etl.convert(t, ('a', 'b'), ref.conv, **kw),
    'convert({a: f, b: g})': lambda t, kw, sel: etl.convert(t, {'a': ref.conv, 'b': ref.conv2}, **kw),
    'convert([f, g])': lambda t, kw, sel: etl.convert(t, [ref.conv, ref.conv2], **kw),
    'convert()[b] = f': _suffix_convert,
    'convert((a, b), f, pass_row)': lambda t, kw, sel: etl.convert(t, ('a', 'b'), ref.conv_row, pass_row=True, **kw),
    'convert(a, f, where)': lambda t, kw, sel: etl.convert(t, 'a', ref.conv, where=lambda r: r[0] in sel, **kw),
    'convert((a, b), f, where, pass_row)': lambda t, kw, sel: etl.convert(
        t, ('a', 'b'), ref.conv_row, where=lambda r: r['a'] in sel, pass_row=True, **kw),
    'convertall(f)': lambda t, kw, sel: etl.convertall(t, ref.conv, **kw),
    'convert(a, int)': lambda t, kw, sel: etl.convert(t, 'a', int, **kw),
    'convertnumbers(strict)': lambda t, kw, sel: etl.convertnumbers(t, strict=True, **kw),
    'convert(a, "upper")': lambda t, kw, sel: etl.convert(t, 'a', 'upper', **kw),
    'convert(b, "replace", x, y)': lambda t, kw, sel: etl.convert(t, 'b', 'replace', '0', 'zero', **kw),
    'format(a, fmt)': lambda t, kw, sel: etl.format(t, 'a', '{:03d}', **kw),
    'formatall(fmt)': lambda t, kw, sel: etl.formatall(t, '{:03d}', **kw),
    'interpolate(b, fmt)': lambda t, kw, sel: etl.interpolate(t, 'b', '%05d', **kw),
    'interpolateall(fmt)': lambda t, kw, sel: etl.interpolateall(t, '%05d', **kw),
    'fieldmap{p: (a, f), q: (b, g), r: a}': lambda t, kw, sel: etl.fieldmap(
        t, _od(('p', ('a', ref.conv)), ('q', ('b', ref.conv2)), ('r', 'a')), **kw),
    'fieldmap{p: rowfun, q: rowfun}': lambda t, kw, sel: etl.fieldmap(
        t, _od(('p', ref.rowfun_p), ('q', ref.rowfun_q)), **kw),
    'fieldmap{p: "int({a})", q: "{b}"}': lambda t, kw, sel: etl.fieldmap(
        t, _od(('p', 'int({a})'), ('q', '{b}')), **kw),
    'fieldmap()[p] = (a, f); [q] = b': _suffix_fieldmap,
    'fieldmap{a: (a, f), b: b}': lambda t, kw, sel: etl.fieldmap(
        t, _od(('a', ('a', ref.conv)), ('b', 'b')), **kw),
    'fieldmap{p: (zz, f), q: b, r: (a, f)} absent source field': lambda t, kw, sel: etl.fieldmap(
        t, _od(('p', ('zz', ref.conv)), ('q', 'b'), ('r', ('a', ref.conv))), **kw),
    'fieldmap{p: (zz, dict), q: (a, f)} absent source field': lambda t, kw, sel: etl.fieldmap(
        t, _od(('p', ('zz', {1: 'one'})), ('q', ('a', ref.conv))), **kw),
    'rowmap(f)': lambda t, kw, sel: etl.rowmap(t, ref.rowmapper, header=('x', 'y', 'z'), **kw),
    'rowmap(natural)': lambda t, kw, sel: etl.rowmap(t, ref.rowmapper_natural, header=('x', 'y'), **kw),
    'fieldmap{p: (a, f), q: (b, f), r: b} on short rows': lambda t, kw, sel: etl.fieldmap(
        t, _od(('p', ('a', ref.convs)), ('q', ('b', ref.convs)), ('r', 'b')), **kw),
    'fieldmap{p: recfun(b), q: recfun(a)} on short rows': lambda t, kw, sel: etl.fieldmap(
        t, _od(('p', ref.recfun_sb), ('q', ref.recfun_sa)), **kw),
    'fieldmap{p: "int({b})", q: "{a}"} on short rows': lambda t, kw, sel: etl.fieldmap(
        t, _od(('p', 'int({b})'), ('q', '{a}')), **kw),
    'convert((a, b), f) on short rows': lambda t, kw, sel: etl.convert(t, ('a', 'b'), ref.convs, **kw),
    'convert(b, f) on short rows': lambda t, kw, sel: etl.convert(t, 'b', ref.convs, **kw),
    'convert((a, b), f reading row[b], pass_row) on short rows': lambda t, kw, sel: etl.convert(
        t, ('a', 'b'), ref.convs_row, pass_row=True, **kw),
    'rowmap(f reading both fields) on short rows': lambda t, kw, sel: etl.rowmap(
        t, ref.rowmapper_s, header=('x', 'y'), **kw),
    'rowmap(f -> generator expression)': lambda t, kw, sel: etl.rowmap(
        t, ref.lazy_genexpr_mapper, header=('x', 'y'), **kw),
    'rowmap(f -> map object)': lambda t, kw, sel: etl.rowmap(t, ref.lazy_map_mapper, header=('x', 'y'), **kw),
    'rowmap(f -> iterator object)': lambda t, kw, sel: etl.rowmap(
        t, ref.lazy_iter_mapper, header=('x', 'y'), **kw),
    'rowmap(f -> map(int, row))': lambda t, kw, sel: etl.rowmap(
        t, ref.lazy_natural_mapper, header=('x', 'y'), **kw),
    'rowmapmany(generator of lazy rows)': lambda t, kw, sel: etl.rowmapmany(
        t, ref.lazy_rowgenerator, header=('x', 'j', 'y'), **kw),
    'rowmapmany(list of lazy rows)': lambda t, kw, sel: etl.rowmapmany(
        t, ref.lazy_rowlister, header=('x', 'j', 'y'), **kw),
    'rowmapmany(generator)': lambda t, kw, sel: etl.rowmapmany(t, ref.rowgenerator, header=('x', 'j', 'y'), **kw),
    'rowmapmany(list function)': lambda t, kw, sel: etl.rowmapmany(t, ref.rowlister, header=('x', 'j', 'y'), **kw),
}


# ---- the policy passed POSITIONALLY, where the documented signature has it at a fixed position:
# ----   fieldmap(table, mappings=None, failonerror=None, errorvalue=None)
# ----   rowmap(table, rowmapper, header, failonerror=None)     rowmapmany(table, rowgenerator, header, failonerror=None)
# ---- in function syntax and in Table-method syntax.  name -> build(table, policy, errorvalue|OMIT, method)
def _pos_rows(opname, fn, header):
    def build(t, policy, ev, method):
        if method:
            return getattr(etl.wrap(t), opname)(fn, header, policy)
        return getattr(etl, opname)(t, fn, header, policy)
    return build


def _pos_fieldmap(mk, after=None):
    def build(t, policy, ev, method):
        args = (mk(), policy) + (() if (ev is ref.OMIT or ev == ref.OMIT) else (ev,))
        v = etl.wrap(t).fieldmap(*args) if method else etl.fieldmap(t, *args)
        if after is not None:
            after(v)
        return v
    return build


def _suffix_after(v):
    v['p'] = ('a', ref.conv)
    v['q'] = 'b'


POSBUILD = {
    'fieldmap{p: (a, f), q: (b, g), r: a}': _pos_fieldmap(
        lambda: _od(('p', ('a', ref.conv)), ('q', ('b', ref.conv2)), ('r', 'a'))),
    'fieldmap{p: rowfun, q: rowfun}': _pos_fieldmap(lambda: _od(('p', ref.rowfun_p), ('q', ref.rowfun_q))),
    'fieldmap{p: "int({a})", q: "{b}"}': _pos_fieldmap(lambda: _od(('p', 'int({a})'), ('q', '{b}'))),
    'fieldmap()[p] = (a, f); [q] = b': _pos_fieldmap(lambda: None, _suffix_after),
    'fieldmap{a: (a, f), b: b}': _pos_fieldmap(lambda: _od(('a', ('a', ref.conv)), ('b', 'b'))),
    'fieldmap{p: (a, f), q: (b, f), r: b} on short rows': _pos_fieldmap(
        lambda: _od(('p', ('a', ref.convs)), ('q', ('b', ref.convs)), ('r', 'b'))),
    'fieldmap{p: recfun(b), q: recfun(a)} on short rows': _pos_fieldmap(
        lambda: _od(('p', ref.recfun_sb), ('q', ref.recfun_sa))),
    'fieldmap{p: "int({b})", q: "{a}"} on short rows': _pos_fieldmap(lambda: _od(('p', 'int({b})'), ('q', '{a}'))),
    'rowmap(f)': _pos_rows('rowmap', ref.rowmapper, ('x', 'y', 'z')),
    'rowmap(natural)': _pos_rows('rowmap', ref.rowmapper_natural, ('x', 'y')),
    'rowmap(f reading both fields) on short rows': _pos_rows('rowmap', ref.rowmapper_s, ('x', 'y')),
    'rowmap(f -> generator expression)': _pos_rows('rowmap', ref.lazy_genexpr_mapper, ('x', 'y')),
    'rowmap(f -> map object)': _pos_rows('rowmap', ref.lazy_map_mapper, ('x', 'y')),
    'rowmap(f -> iterator object)': _pos_rows('rowmap', ref.lazy_iter_mapper, ('x', 'y')),
    'rowmap(f -> map(int, row))': _pos_rows('rowmap', ref.lazy_natural_mapper, ('x', 'y')),
    'rowmapmany(generator)': _pos_rows('rowmapmany', ref.rowgenerator, ('x', 'j', 'y')),
    'rowmapmany(list function)': _pos_rows('rowmapmany', ref.rowlister, ('x', 'j', 'y')),
    'rowmapmany(generator of lazy rows)': _pos_rows('rowmapmany', ref.lazy_rowgenerator, ('x', 'j', 'y')),
    'rowmapmany(list of lazy rows)': _pos_rows('rowmapmany', ref.lazy_rowlister, ('x', 'j', 'y')),
}
POS_MODES = ('positional', 'positional-method')


def _function(form):
    for f in ('rowmapmany', 'rowmap', 'fieldmap'):
        if form.startswith(f):
            return f
    return 'convert'          # convert and the wrappers that forward to it


FUNCTION = dict((f, _function(f)) for f in BUILD)


# ------------------------------------------------------------------------------------------------
# observation
# ------------------------------------------------------------------------------------------------

def _payload(e):
    """Payload of the user exception if e is it (or wraps it), else '*'."""
    return ref.payload_of(e)


def _normcell(c):
    return ref.norm_cell(c)


def _normlog(log):
    return [tuple(ref.norm_cell(x) for x in e) for e in log]


def _normrow(r):
    try:
        return tuple(_normcell(c) for c in r)
    except TypeError:
        return ('<not a row>', repr(r)[:80])


def observe(form, tbl, policy, mode, errorvalue, selected, state='pure', upstream=None):
    """One pass over the real view in a fresh user-function context.
    Returns (delivered rows, payload of terminating exception or None, stage, call log)."""
    ctx = ref.Ctx(state)
    old = ref.swap_ctx(ctx)
    try:
        delivered, raised, stage = _observe(form, tbl, policy, mode, errorvalue, selected, upstream)
    finally:
        ref.swap_ctx(old)
    return delivered, raised, stage, ctx.log


def _observe(form, tbl, policy, mode, errorvalue, selected, upstream=None):
    kw = {}
    if errorvalue is not ref.OMIT and errorvalue != ref.OMIT:
        kw['errorvalue'] = errorvalue
    saved = config.failonerror
    sel = frozenset(tbl[1 + i][0] for i in (selected or ()))
    delivered, raised, stage = [], None, None
    try:
        if mode == 'arg':
            kw['failonerror'] = policy
        elif mode == 'arg-vs-config':
            kw['failonerror'] = policy
            config.failonerror = _OTHER[policy]
        elif mode == 'config':
            config.failonerror = policy
        elif mode == 'none-arg+config':
            kw['failonerror'] = None
            config.failonerror = policy
        elif mode == 'config-at-construction':
            config.failonerror = policy
        elif mode in POS_MODES:
            # policy (and errorvalue) by position; the config default is a different policy
            config.failonerror = _OTHER[policy]
        else:
            raise ValueError(mode)
        try:
            src = tbl
            if upstream is not None:
                # upstream stage of a pipeline: always failonerror='inline' (explicit argument)
                src = BUILD[upstream](tbl, {'failonerror': 'inline'}, sel)
            if mode in POS_MODES:
                view = POSBUILD[form](src, policy, errorvalue, mode == 'positional-method')
            else:
                view = BUILD[form](src, kw, sel)
        except Exception as e:
            return delivered, _payload(e), 'construction'
        if mode == 'config-at-construction':
            config.failonerror = _OTHER[policy]
        try:
            it = iter(view)
        except Exception as e:
            return delivered, _payload(e), 'iter()'
        while True:
            try:
                row = next(it)
            except StopIteration:
                break
            except Exception as e:
                raised, stage = _payload(e), 'next() #%d' % (len(delivered) + 1)
                break
            delivered.append(_normrow(row))
    finally:
        config.failonerror = saved
    return delivered, raised, stage


def check_case(case):
    """Returns None or (signature, expected, observed, msg)."""
    form, policy, mode = case['form'], case['policy'], case['mode']
    tbl = ref.materialise(case['table'])      # ('DATAEXC', class, tag) markers -> exception objects (data)
    ev = case.get('errorvalue', ref.OMIT)
    selected = case.get('selected')
    upstream = case.get('upstream')
    ref.set_kind(case.get('exc', 'Boom'))
    state = case.get('state', 'pure')
    try:
        if upstream is not None:
            exp = ref.expected_pipeline(upstream, form, tbl, policy, ev)
        else:
            exp = ref.expected(form, tbl, policy, ev, set(selected) if selected is not None else None, state)
        delivered, raised, stage, log = observe(form, tbl, policy, mode, ev, selected, state, upstream)
    finally:
        ref.set_kind('Boom')
    if upstream is not None:
        form = '%s -> %s' % (upstream, form)
    if ref.matches(exp, delivered, raised):
        # the call log is information only: the statement does not fix number or order of calls
        exp['log_differs'] = (upstream is None and log != exp['log']
                              and _normlog(log) != _normlog(exp['log']))
        return None, exp, delivered, raised
    # failure signature (never contains input values)
    if exp['raises'] is None and raised is not None:
        sig = 'raised at %s although policy %r never raises' % (
            'construction/iter()' if stage in ('construction', 'iter()') else 'a data row', policy) \
            if policy is not True else 'raised although no cell fails'
    elif exp['raises'] is not None and raised is None:
        sig = 'failing row did not raise under True'
    elif exp['raises'] is not None:
        if not ref.payload_matches(exp['raises'], raised):
            sig = 'a different exception surfaced under True'
        else:
            sig = 'wrong rows delivered before the exception under True'
    elif len(delivered) != len(exp['rows']):
        sig = 'wrong number of rows under %r' % (policy,)
    else:
        sig = 'wrong cell or row content under %r' % (policy,)
    log, exp['log'] = _normlog(log), _normlog(exp['log'])
    observed = {'delivered': delivered, 'raised': raised, 'at': stage, 'calls': _showlog(log)}
    expected = {'delivered': exp['rows'], 'raised': exp['raises'], 'optional_tail': exp['optional'],
                'calls': _showlog(exp['log'])}
    msg = '%s%s%s, policy %r (%s), errorvalue %s: %s' % (
        form, '' if case.get('exc', 'Boom') == 'Boom' else ' [user function raises %s]' % case['exc'],
        '' if state == 'pure' else ' [%s user functions]' % state, policy, mode,
                                                    '<omitted>' if ev == ref.OMIT else repr(ev), sig)
    return (sig, expected, observed, msg), exp, delivered, raised


def _showlog(log):
    log = [tuple(e) for e in log]
    return log if len(log) <= 24 else log[:24] + [('... %d more' % (len(log) - 24),)]


def replay(case):
    r = check_case(case)[0]
    if r is None:
        return None
    sig, expected, observed, msg = r
    return (expected, observed, msg)


# ------------------------------------------------------------------------------------------------
# enumeration
# ------------------------------------------------------------------------------------------------

def _subsets(universe):
    universe = list(universe)
    for k in range(len(universe) + 1):
        for s in itertools.combinations(universe, k):
            yield s


def tables_of(form, n):
    """Every input of size n for the form: (table, selected or None, n_fail, n_ok)."""
    spec = ref.FORMS[form]
    style = spec['style']
    if style in ('many', 'many-call', 'many-lazy'):
        if style == 'many':
            alphabet = [('ok', 0), ('ok', 1), ('ok', 2), ('fail', 0), ('fail', 1), ('fail', 2)]
        elif style == 'many-lazy':
            alphabet = [('ok', 0), ('ok', 1), ('ok', 2)] + \
                       [('fail', (k, p)) for k in (0, 1, 2) for p in (0, 1, 2)]
        else:
            alphabet = [('ok', 0), ('ok', 1), ('ok', 2), ('fail', 0)]
        vecs = sorted(itertools.product(alphabet, repeat=n),
                      key=lambda v: sum(1 for b in v if b[0] == 'fail'))
        for vec in vecs:
            nf = sum(1 for b in vec if b[0] == 'fail')
            yield ref.many_table(_R, vec), None, nf, n - nf
        return
    if style == 'ragged':
        vecs = sorted(itertools.product(ref.RAGGED_STATES, repeat=n),
                      key=lambda v: sum(1 for st in v if st == 'empty' or 'absent' in st or 'bad' in st))
        for vec in vecs:
            yield ref.ragged_table(_R, vec), None, 0, 0
        return
    cells = [(i, f) for i in range(n) for f in (0, 1)]
    for bad in _subsets(cells):
        tbl = ref.table(style, _R, n, set(bad))
        if spec.get('where'):
            for selected in _subsets(range(n)):
                yield tbl, list(selected), len(bad), len(cells) - len(bad)
        else:
            yield tbl, None, len(bad), len(cells) - len(bad)


def items(tier, seed):
    out = []
    for form in spaces.rotate(sorted(BUILD), seed):
        spec = ref.FORMS[form]
        if spec['style'] in ('many', 'many-call', 'many-lazy'):
            nmax = 5 if tier == 'thorough' else 4
            if spec['style'] == 'many-call':
                nmax += 1
            if spec['style'] == 'many-lazy':
                nmax -= 1           # 12 behaviours per row
        elif spec.get('where'):
            nmax = _nmax(tier) - 1
        elif spec['style'] == 'ragged':
            nmax = 4 if tier == 'thorough' else 3      # 7 row states
        else:
            nmax = _nmax(tier)
        for n in range(0, nmax + 1):
            if n == nmax and n >= 3:
                # split the big ones; quick runs the largest size with two ways of supplying the policy only
                for mode in (MODES if tier == 'thorough' else ('arg', 'config')):
                    out.append((form, n, (mode,)))
            else:
                out.append((form, n, MODES))
    for form in spaces.rotate(sorted(POSBUILD), seed):
        st = ref.FORMS[form]['style']
        pmax = {'many': 3, 'many-call': 3, 'many-lazy': 2, 'ragged': 2}.get(st, 3)
        if tier == 'thorough':
            pmax += 1
        for n in range(0, pmax + 1):
            out.append((form, n, POS_MODES))
    out.sort(key=lambda it: it[1])      # simplest first (stable: keeps the seed's rotation of the forms)
    # exception-type space: every other exception type x every form whose user function raises it
    kinds = []
    kmax = 3 if tier == 'thorough' else 2
    for n in range(0, kmax + 1):
        for form in spaces.rotate(sorted(BUILD), seed):
            if form not in KIND_FORMS:
                continue
            if ref.FORMS[form]['style'] == 'many-lazy' and n > 2:
                continue
            for kind in ref.KIND_ORDER[1:]:
                if kind == 'StopIteration' and form in ref.STOPITERATION_IS_EXHAUSTION:
                    continue
                kinds.append((form, n, KIND_MODES, kind))
    # stateful user functions: fail-once and call-counting, every form that has user functions
    stateful = []
    for n in range(0, kmax + 1):
        for form in spaces.rotate(sorted(BUILD), seed):
            if form not in KIND_FORMS:
                continue
            if ref.FORMS[form]['style'] == 'many-lazy' and n > 2:
                continue
            for state in ref.STATES[1:]:
                stateful.append((form, n, KIND_MODES, 'Boom', state))
    # exception OBJECTS as ordinary data: in the source table of every form, and left by an upstream 'inline' stage
    data, pipes = [], []
    dmax = 3 if tier == 'thorough' else 2
    for n in range(1, dmax + 1):
        for form in spaces.rotate(sorted(BUILD), seed):
            st = ref.FORMS[form]['style']
            if st == 'many-lazy' and n > (2 if tier == 'thorough' else 1):
                continue
            if st in ('many', 'ragged') and n > 2:
                continue
            if ref.FORMS[form].get('where') and n > 2:
                continue
            for dclass in ref.DATA_CLASS_ORDER:
                data.append(('@data', form, n, dclass))
        for up in UPSTREAMS:
            for down in DOWNSTREAMS:
                for kind in PIPE_KINDS:
                    if n <= 2:
                        pipes.append(('@pipe', up, down, n, kind))
    # columns with hash-equal cells of different types / repeated values, type-sensitive and fail-once functions
    eqs = []
    for n in range(1, (3 if tier == 'thorough' else 2) + 1):
        for form in spaces.rotate(sorted(BUILD), seed):
            if ref.FORMS[form]['style'] == 'num' and not ref.FORMS[form].get('where'):
                for state in ('pure', 'fail-once'):
                    eqs.append(('@eq', form, n, state))
    return out + kinds + stateful + data + pipes + eqs


KIND_MODES = ('arg', 'config')
KIND_ERRORVALUES = (ref.OMIT, 'ERR')
RAGGED_ERRORVALUES = (ref.OMIT, None, 'ERR', '77')       # '77': a value builtin converters accept as well


def _kind_forms():
    """Forms whose user function raises the selectable exception type (measured on the model: an all-failing
    input yields a payload other than '*')."""
    out = set()
    reps = spaces.reps(0)
    for form, spec in ref.FORMS.items():
        st = spec['style']
        if st == 'ragged':
            tbl = ref.ragged_table(reps, [('bad', 'bad')])
        elif st in ('many', 'many-call'):
            tbl = ref.many_table(reps, [('fail', 0)])
        elif st == 'many-lazy':
            tbl = ref.many_table(reps, [('fail', (0, 0))])
        else:
            tbl = ref.table(st, reps, 1, {(0, 0), (0, 1)})
        e = ref.expected(form, tbl, True, ref.OMIT, {0})
        if e['raises'] is not None and any(p != ref.ANY for p in e['raises']):
            out.add(form)
    return out


KIND_FORMS = _kind_forms()


UPSTREAMS = ('convert(name, f)', 'convert((a, b), f)', 'fieldmap{a: (a, f), b: b}')
DOWNSTREAMS = ('fieldmap{p: (a, f), q: (b, g), r: a}', 'fieldmap()[p] = (a, f); [q] = b',
               'fieldmap{p: rowfun, q: rowfun}', 'fieldmap{a: (a, f), b: b}', 'convert(index, f)',
               'convert((a, b), f)', 'convert((a, b), f, pass_row)', 'convert(a, int)', 'rowmap(f)',
               'rowmap(f -> generator expression)')
PIPE_KINDS = ('Boom', 'ValueError', 'KeyError')


def tables3_of(form, n, dclass):
    """Inputs of size n in which at least one cell holds an exception OBJECT as data (class dclass):
    every assignment of {ok, bad, exception object} to the cells (ragged forms: plus absent / empty;
    rowmapmany forms: every behaviour vector x every subset of rows whose a cell is an exception object)."""
    spec = ref.FORMS[form]
    style = spec['style']
    if style in ('many', 'many-call', 'many-lazy'):
        for tbl, _, _, _ in tables_of(form, n):
            for excrows in _subsets(range(n)):
                if not excrows:
                    continue
                behaviours = [_behaviour(r[1]) for r in tbl[1:]]
                yield ref.many_table(_R, behaviours, set(excrows), dclass), None
        return
    if style == 'ragged':
        for vec in itertools.product(ref.RAGGED_STATES_EXC, repeat=n):
            if any(st != 'empty' and 'exc' in st for st in vec):
                yield ref.ragged_table(_R, vec, dclass), None
        return
    cells = [(i, f) for i in range(n) for f in (0, 1)]
    for states in itertools.product(('ok', 'bad', 'exc'), repeat=len(cells)):
        if 'exc' not in states:
            continue
        bad = set(c for c, st in zip(cells, states) if st == 'bad')
        exc = set(c for c, st in zip(cells, states) if st == 'exc')
        tbl = ref.table(style, _R, n, bad, exc, dclass)
        if spec.get('where'):
            for selected in _subsets(range(n)):
                yield tbl, list(selected)
        else:
            yield tbl, None


def _behaviour(bcell):
    """Inverse of ref.many_cell."""
    if bcell.startswith('k'):
        return ('ok', int(bcell[1:]))
    if len(bcell) == 3:
        return ('fail', (int(bcell[1]), int(bcell[2])))
    return ('fail', int(bcell[1:]))


def pipe_tables(n):
    """Every assignment of {ok, bad, exception object} to the cells of an n-row table (the bad cells become
    exception cells of the upstream 'inline' stage)."""
    cells = [(i, f) for i in range(n) for f in (0, 1)]
    for states in itertools.product(('ok', 'bad', 'exc'), repeat=len(cells)):
        bad = set(c for c, st in zip(cells, states) if st == 'bad')
        exc = set(c for c, st in zip(cells, states) if st == 'exc')
        if not bad and not exc:
            continue
        yield ref.table('num', _R, n, bad, exc, 'ValueError'), None


def eq_tables(n):
    ea, eb = ref.eq_alphabets(_R)
    rowkinds = [(a, b) for a in ea for b in eb]
    for rows in itertools.product(rowkinds, repeat=n):
        yield ref.eq_table(_R, rows), None


def run_item(item, acc):
    if item[0] == '@eq':
        _, form, n, state = item
        evs = KIND_ERRORVALUES if ref.has_errorvalue(form) else (ref.OMIT,)
        _run_tables(acc, form, eq_tables(n), KIND_MODES, evs, 'Boom', state, None,
                    'hash-equal and repeated cells')
        return
    if item[0] == '@data':
        _, form, n, dclass = item
        evs = KIND_ERRORVALUES if ref.has_errorvalue(form) else (ref.OMIT,)
        _run_tables(acc, form, tables3_of(form, n, dclass), KIND_MODES, evs, 'Boom', 'pure', None,
                    'exception objects as data')
        return
    if item[0] == '@pipe':
        _, upstream, form, n, kind = item
        evs = KIND_ERRORVALUES if ref.has_errorvalue(form) else (ref.OMIT,)
        _run_tables(acc, form, pipe_tables(n), KIND_MODES, evs, kind, 'pure', upstream,
                    'two-stage pipelines')
        return
    form, n, modes = item[:3]
    kind = item[3] if len(item) > 3 else 'Boom'
    state = item[4] if len(item) > 4 else 'pure'
    if not ref.has_errorvalue(form):
        evs = (ref.OMIT,)
    elif kind != 'Boom' or state != 'pure':
        evs = KIND_ERRORVALUES
    elif ref.FORMS[form]['style'] == 'ragged':
        evs = RAGGED_ERRORVALUES
    else:
        evs = ERRORVALUES
    _run_tables(acc, form, ((t, sel) for t, sel, _, _ in tables_of(form, n)), modes, evs, kind, state, None, None)


def _is_exc(c):
    return isinstance(c, tuple) and c[:1] == (ref.EXC,)


def _is_data(c):
    return isinstance(c, tuple) and len(c) == 3 and c[0] == 'DATAEXC'


def _run_tables(acc, form, tables, modes, evs, kind, state, upstream, family):
    sampled = False
    for tbl, selected in tables:
        acc.states += 1
        # non-trivial by RULE, measured on the model: something fails and something does not
        # (data-exception families: an exception object that nobody raised in this stage reaches the stage)
        ref.set_kind(kind)
        try:
            mt = ref.materialise(tbl)
            if upstream is not None:
                e2 = ref.expected_pipeline(upstream, form, mt, 'inline', ref.OMIT)
                t1 = ref.expected(upstream, mt, 'inline', ref.OMIT)['rows']
                carried = any(_is_exc(c) or _is_data(c) for r in t1[1:] for c in r)
            else:
                e2 = ref.expected(form, mt, 'inline', ref.OMIT, set(selected) if selected is not None else None)
                carried = any(_is_data(c) for r in tbl[1:] for c in r)
        finally:
            ref.set_kind('Boom')
        flat = [c for r in e2['rows'][1:] for c in r]
        nx = sum(1 for c in flat if _is_exc(c))
        if family == 'hash-equal and repeated cells':
            rows = tbl[1:]
            carried = any(rows[i][f] == rows[j][f] and ref.is_bang(rows[i][f])
                          for f in (0, 1) for i in range(len(rows)) for j in range(i + 1, len(rows)))
        nontrivial = (0 < nx < len(flat)) if family is None else carried
        first = True
        for mode in modes:
            for policy in POLICIES:
                for ev in evs:
                    case = {'form': form, 'table': tbl, 'policy': policy, 'mode': mode}
                    if upstream is not None:
                        case['upstream'] = upstream
                    if kind != 'Boom':
                        case['exc'] = kind
                    if state != 'pure':
                        case['state'] = state
                    if ev is not ref.OMIT:
                        case['errorvalue'] = ev
                    if selected is not None:
                        case['selected'] = selected
                    bad, exp, delivered, raised = check_case(case)
                    acc.evals += 1
                    acc.transitions += 1 if upstream is None else 2
                    if first:
                        first = False
                        if nontrivial:
                            acc.nontrivial += 1
                            if family is None:
                                acc.counters['nontrivial:' + form] += 1
                            else:
                                acc.counters['nontrivial %s:%s' % (family, FUNCTION[form])] += 1
                            if kind != 'Boom' and family is None:
                                acc.counters['nontrivial with user exception type:' + kind] += 1
                            if state != 'pure':
                                acc.counters['nontrivial with %s user functions' % state] += 1
                    if exp.get('log_differs'):
                        acc.counters['info:call log differs from the once-per-cell model'] += 1
                    acc.counters['evals:' + form] += 1
                    acc.outcome((policy, len(delivered), raised is not None,
                                 sum(1 for r in delivered for c in r if _is_exc(c))))
                    if nontrivial and not sampled and policy == 'inline':
                        sampled = True
                        acc.sample({'case': case, 'delivered': delivered, 'raised': raised}, 1)
                    if bad is not None:
                        sig, expected, observed, msg = bad
                        if mode != 'arg' and check_case(dict(case, mode='arg'))[0] is None:
                            sig += (' [only when the policy is passed positionally]' if mode in POS_MODES
                                    else ' [only when the policy is supplied via %s]' % mode)
                        acc.violation('%s | %s' % (FUNCTION[case['form']], sig), case, expected, observed, msg)


def vacuity(cov, tier):
    c = cov['per_case_counters']
    return ['no non-trivial case for %s' % f for f in sorted(BUILD) if not c.get('nontrivial:' + f)] + \
           ['no non-trivial case with user functions raising %s' % k for k in ref.KIND_ORDER[1:]
            if not c.get('nontrivial with user exception type:' + k)] + \
           ['no non-trivial case with %s user functions' % st for st in ref.STATES[1:]
            if not c.get('nontrivial with %s user functions' % st)] + \
           ['no non-trivial case in family %r for %s' % (fam, fn)
            for fam in ('exception objects as data', 'two-stage pipelines', 'hash-equal and repeated cells')
            for fn in (('convert', 'fieldmap', 'rowmap', 'rowmapmany') if fam.startswith('exception')
                       else ('convert', 'fieldmap', 'rowmap'))
            if not c.get('nontrivial %s:%s' % (fam, fn))]
