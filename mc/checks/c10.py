"""C10 — duplicates/unique/distinct/conflicts/isunique partition rows by key multiplicity.

Exhaustive small-scope enumeration (E2): every rectangular table of the families below (header-only and
one-row tables included) x every key form x every call variant is pushed through the real operators and the
returned rows are compared, as type-faithful multisets, with key multiplicities counted by a boring
reference (mc.refs.dedupref).  conflicts() is checked for SOUNDNESS ONLY (the statement says "returns only").
"""
import enum
import itertools

import petl as etl
import petl.config as petl_config

from .. import spaces
from ..refs import dedupref as dr
from ..refs import sortref as sr

ID = 'C10'
LEVEL = 'model_checking'
ENGINE = 'E2 small-scope enumeration against a key-multiplicity reference'
RULE = ('every rectangular table with n rows (0..max, header-only and single-row included) of each family '
        '(key column x value column {1,2}, with and without an id column; two key columns x value column) x key '
        'forms {None, field, index, compound, list} x header-field namings (text; and, for key=None / index keys, '
        'int names that look like indices, bool, None, float, duplicate names, names equal after str()) x sequence-valued '
        'key cells (list vs tuple with equal items = different keys; single, compound, whole-row) x call variants {default, presorted=True on reference-sorted '
        'input; buffersize 1/2 and cache=False on the small family} x operations {duplicates, unique, '
        'duplicates+unique partition, distinct, distinct(count=), conflicts (include/exclude forms; missing markers '
        'identical to the cells (1), equal but of another type (1.0, True vs int 1) and equal but a different object '
        '(run-time built str, parsed float, tuple, large int: cells and argument are built by separate calls)), '
        'isunique}; plus row container types (list rows mixed with tuple rows, default and presorted=True); plus '
        'subclass-instance key cells (int/float/str subclasses and IntEnum members equal to a plain '
        'value in the column); plus failed-first-pass histories: each operator over a source that fails once at every '
        'item position, buffersize 1..n by argument and via petl.config.sort_buffersize, cache=True, passes 2 and 3 '
        'of the same view against the reference; states = distinct (table, key, variant) points; transitions = operator evaluations; a state '
        'is non-trivial when the table holds both a key occurring once and a key occurring more than once')
ASSUMPTIONS = [
    'tables have <= 4 (thorough 5) rows; cells range over K4/K6 key representatives chosen by the seed, None included',
    'rows are compared as multisets (the statement fixes membership, not output order); 1 and 1.0 are equal keys '
    'but different rows',
    'distinct keeps the first row of each key group in stable sorted order = the first in input order',
    'conflicts: soundness only — every returned row is an input row (with multiplicity) of a key group with >= 2 '
    'rows in which some considered field holds two different non-missing values; completeness is not demanded',
    'include and exclude are never passed together (the documentation does not say which wins)',
    'conflicts and isunique need a key; isunique takes no strategy arguments',
    'presorted=True is only given reference-sorted input',
]

_P = {}
COUNT = 'n'


# Key cells that are instances of SUBCLASSES of the built-in cell types: equal (==, same hash) to the plain value,
# so they are the same key; a different row (another class).  In replay files they travel as tagged dicts.
class Code(int):
    pass


class Ratio(float):
    pass


class Txt(str):
    pass


Level = enum.IntEnum('Level', dict(('L%d' % i, i) for i in (1, 2, 3, 5, 6, 7, 10)))
Level.__module__ = __name__
_SUBCLASSES = {'Code': Code, 'Ratio': Ratio, 'Txt': Txt, 'Level': Level}
_PLAIN = {'Code': int, 'Ratio': float, 'Txt': str, 'Level': int}


def freeze_rows(rows):
    """Rows for a replay case: subclass instances become {'__sub__': class name, 'v': plain value}."""
    def cell(c):
        name = type(c).__name__
        if _SUBCLASSES.get(name) is type(c):
            return {'__sub__': name, 'v': _PLAIN[name](c)}
        return c
    return [tuple(cell(c) for c in r) for r in rows]


def thaw_rows(rows):
    def cell(c):
        if isinstance(c, dict) and '__sub__' in c:
            return _SUBCLASSES[c['__sub__']](c['v'])
        return c
    return [tuple(cell(c) for c in r) for r in rows]


HEADER_NAMINGS_2 = [('name', 0), (1, 0), (0, 0), (None, 'v'), (1.5, 'v'), ('v', 'v'), ('1', 1), (7, 'v'), (True, 'y')]
HEADER_NAMINGS_3 = [('a', 'b', 0), ('x', True, 'y'), (2, 0, 1), (2019, 2020, 'v')]


def _families(tier, seed):
    K4, K6, K3 = spaces.K4(seed), spaces.K6(seed), spaces.K3(seed)
    thorough = tier == 'thorough'
    V = (1, 2)
    fams = {}
    base = ('default', 'presorted')
    fams['kv'] = dict(hdr=('k', 'v'), syms=[(k, v) for k in (K6 if thorough else K4) for v in V], maxn=4,
                      keys=[None, 'k', 0, ('k', 'v'), ('k',)], variants=base,
                      cargs=('plain', 'missing1', 'missing1f', 'missingTrue', 'inc_v'))
    fams['kvid'] = dict(hdr=('k', 'v', 'id'), syms=[(k, v, '#') for k in K4 for v in V], maxn=5 if thorough else 4,
                        keys=['k', None, ('k', 'v'), ['k']], variants=base,
                        cargs=('plain', 'exc_id', 'inc_v', 'exc_id_v', 'missing1_exc_id', 'missing1f_exc_id'))
    fams['k2'] = dict(hdr=('k', 'k2', 'v'), syms=[(k, k2, v) for k in K4 for k2 in (None, K4[1]) for v in V],
                      maxn=4 if thorough else 3, keys=[('k', 'k2'), ['k', 'k2'], (0, 1), 'k', None, ('k2', 'k')],
                      variants=base, cargs=('plain', 'inc_v'))
    if thorough:
        fams['kv5'] = dict(hdr=('k', 'v'), syms=[(k, v) for k in K4 for v in V], maxn=5, minn=5,
                           keys=[None, 'k', ('k', 'v')], variants=base, cargs=('plain',))
    # keys that are distinct but hash-equal in CPython (hash(-1) == hash(-2), hash(2**61-1) == hash(0)):
    # an implementation that keeps hashes / identities instead of values is only visible with them
    HK = [-1, -2, 0, 2 ** 61 - 1]
    fams['hk'] = dict(hdr=('k', 'v'), syms=[(k, v) for k in HK for v in (1,)] + [(-1, 2)], maxn=3,
                      keys=['k', None, ('k', 'v')], variants=('default',), cargs=('plain',))
    # missing-marker families: the value column holds a marker cell (fresh object per row) or one of two other
    # values of the same type; conflicts(missing=<another fresh, equal object>) must not count the marker
    for kind in ('str', 'float', 'tuple', 'bigint'):
        a, b = _OTHERS[kind]
        fams['mk_' + kind] = dict(hdr=('k', 'v'), syms=[(k, v) for k in K3[1:] for v in (_Mark(kind), a, b)],
                                  maxn=4 if thorough else 3, keys=['k', ('k',)], variants=base,
                                  cargs=('plain', 'miss_%s' % kind, 'miss_%s_inc_v' % kind), ops=('conflicts',))
    # header-field naming: field names that are not text (ints that look like indices, bool, None, float, years),
    # duplicate names and names equal after str().  Whole-row mode (key=None) and keys given by index must not
    # look at the names; the header must come back unchanged.  (Keys by NAME for non-text names are undocumented.)
    for i, h in enumerate(HEADER_NAMINGS_2):
        fams['hn2_%d' % i] = dict(hdr=h, syms=[(k, v) for k in K3 for v in V], maxn=4 if thorough else 3,
                                  keys=[None, 0, 1, (0, 1), (1, 0)], variants=base, cargs=('plain',))
    for i, h in enumerate(HEADER_NAMINGS_3):
        fams['hn3_%d' % i] = dict(hdr=h, syms=[(k, k2, v) for k in K3[:2] for k2 in K3[:2] for v in V],
                                  maxn=3, keys=[None, (0, 1), 2, 0], variants=base, cargs=('plain',))
    # sequence-valued key cells: a list and a tuple with equal items are NOT equal in Python, so they are different
    # keys (petl's sort order ties them, the run detection must not).  Single key, compound key and whole rows.
    # isunique is left out: it needs hashable values (lists raise TypeError), which its documentation does not cover.
    i1, i2 = K4[1], K4[2]
    SQ = [(i1, i2), [i1, i2], (i1,), [i1]]
    fams['seq'] = dict(hdr=('k', 'v'), syms=[(k, v) for k in SQ for v in V], maxn=4 if thorough else 3,
                       keys=['k', ('k', 'v'), None, 0], variants=base, cargs=('plain',),
                       ops=('duplicates', 'unique', 'partition', 'distinct', 'distinct-count', 'conflicts'))
    fams['seq2'] = dict(hdr=('k', 'k2', 'v'), syms=[(k, k2, 1) for k in SQ[:2] + [i1] for k2 in SQ[:2] + [None]],
                        maxn=3, keys=[('k', 'k2'), ('k2', 'k'), 'k', None], variants=base, cargs=('plain',),
                        ops=('duplicates', 'unique', 'partition', 'distinct', 'distinct-count', 'conflicts'))
    # subclass-instance key cells next to the equal plain value and another plain number that sorts between /
    # after them: Code(i1) == Level(i1) == Ratio(i1) == i1 are ONE key, Txt(s1) == s1 likewise
    SUB = [i1, Code(i1), Level(i1), Ratio(float(i1)), i2, K4[3], Txt(K4[3])]
    fams['sub'] = dict(hdr=('k', 'v'), syms=[(k, v) for k in SUB for v in V], maxn=4 if thorough else 3,
                       keys=['k', ('k', 'v'), None, 0], variants=base, cargs=('plain',))
    # row container type per row: list rows mixed with tuple rows of equal content are the same rows (whole-row
    # key=None in particular), in the default call and with presorted=True where no sort view re-wraps them
    fams['rowtypes'] = dict(hdr=('k', 'v'), syms=[(k, v) for k in K3 for v in V], maxn=4 if thorough else 3,
                            keys=[None, 'k', ('k', 'v')], variants=('mixed', 'presorted-mixed'), cargs=('plain',))
    # strategy variants on a smaller family (the sort below the operators is C05's subject)
    fams['kvb'] = dict(hdr=('k', 'v'), syms=[(k, v) for k in K3 for v in V], maxn=4 if thorough else 3,
                       keys=[None, 'k'], variants=('bs1', 'bs2', 'bs1-nocache'), cargs=('plain',))
    return fams


# "missing" markers that are EQUAL to cells of the table but never the same object: every call builds a new
# object (run-time str, parsed float, tuple, int beyond CPython's small-int cache).  Cells are built by one
# call per row, the conflicts(missing=...) argument by another, so an implementation that recognises the
# marker by identity (or by type) instead of == is visible.
_FRESH = {'str': lambda: ''.join(['N', 'A']), 'float': lambda: float('-999'), 'tuple': lambda: tuple([0]),
          'bigint': lambda: int('100000')}
_OTHERS = {'str': ('x', 'y'), 'float': (2.5, 3.5), 'tuple': ((1,), (2,)), 'bigint': (7, 8)}


class _Mark(object):
    """Placeholder in a row symbol: replaced by a freshly built marker object in every row."""
    def __init__(self, kind):
        self.kind = kind


def _cell(c, i):
    if isinstance(c, _Mark):
        return _FRESH[c.kind]()
    return i if (isinstance(c, str) and c == '#') else c


def _table(fam, n, index):
    syms = fam['syms']
    b = len(syms)
    digits = []
    for _ in range(n):
        digits.append(index % b)
        index //= b
    digits.reverse()
    return [tuple(_cell(c, i) for c in syms[d]) for i, d in enumerate(digits)]


def setup(tier, seed):
    _P.clear()
    _P['tier'] = tier
    _P['fams'] = _families(tier, seed)
    K3 = spaces.K3(seed)
    thorough = tier == 'thorough'
    tf = {'fp': dict(hdr=('k', 'v'), syms=[(k, v) for k in K3[:2] for v in (1, 2)], minn=1,
                     maxn=4 if thorough else 3, keys=['k', None])}
    if thorough:
        tf['fp6'] = dict(hdr=('k', 'v'), syms=[(k, v) for k in K3 for v in (1, 2)], minn=1, maxn=3, keys=['k', None])
    _P['tfams'] = tf


def _cargs(name):
    """conflicts() argument forms by name (marker objects are built anew on every call)."""
    if name.startswith('miss_'):
        parts = name.split('_')
        d = {'missing': _FRESH[parts[1]]()}
        if parts[2:] == ['inc', 'v']:
            d['include'] = 'v'
        return d
    return {'plain': {}, 'missing1': {'missing': 1}, 'inc_v': {'include': 'v'}, 'exc_id': {'exclude': 'id'},
            'exc_id_v': {'exclude': ('id', 'v')}, 'missing1_exc_id': {'missing': 1, 'exclude': 'id'},
            # equal to the int cells 1 but of another type / not the same object
            'missing1f': {'missing': float('1')}, 'missingTrue': {'missing': True},
            'missing1f_exc_id': {'missing': float('1'), 'exclude': 'id'}}[name]


def _kw(variant):
    return {'default': {}, 'presorted': {'presorted': True}, 'mixed': {}, 'presorted-mixed': {'presorted': True}, 'bs1': {'buffersize': 1}, 'bs2': {'buffersize': 2},
            'bs1-nocache': {'buffersize': 1, 'cache': False}}[variant]


def _keyform(key):
    """Coarse key class for group names (the exact spelling is in the case)."""
    if key is None:
        return 'None'
    if isinstance(key, (list, tuple)) and len(key) > 1:
        return 'compound'
    return 'single field'


def _run(fn):
    try:
        out = list(fn())
    except Exception as e:
        return None, '%s: %s' % (type(e).__name__, str(e)[:120])
    return out, None


def _rowdiff(want, got):
    w, g = dr.bag(want), dr.bag(got)
    if w == g:
        return None
    missing = list(w)
    extra = []
    for x in g:
        if x in missing:
            missing.remove(x)
        else:
            extra.append(x)
    if missing and extra:
        return 'wrong rows'
    return 'rows missing' if missing else 'extra rows'


def eval_op(op, hdr, rows, key, variant, cname=None, stats=None):
    """Evaluate ONE operation on the real code against the reference.  `rows` are the rows actually passed
    (already reference-sorted for the presorted variant).  Returns None or (signature, expected, observed)."""
    hdr = tuple(hdr)
    rows = [tuple(r) for r in rows]
    tbl = [hdr] + rows
    if variant.endswith('mixed'):
        # rows alternate between list and tuple containers (equal content)
        tbl = [hdr] + [list(r) if i % 2 == 0 else tuple(r) for i, r in enumerate(rows)]
    kw = _kw(variant)
    kf = dr.keyfn(hdr, key)

    def rowsop(fn, want, want_hdr=hdr):
        out, err = _run(fn)
        if err:
            return ('raises', want, err)
        if not out or tuple(out[0]) != tuple(want_hdr):
            return ('header changed', tuple(want_hdr), tuple(out[0]) if out else None)
        got = [tuple(r) for r in out[1:]]
        d = _rowdiff(want, got)
        if d:
            return (d, want, got)
        return None

    if op == 'duplicates':
        return rowsop(lambda: etl.duplicates(tbl, key, **kw), dr.duplicates(rows, kf))
    if op == 'unique':
        return rowsop(lambda: etl.unique(tbl, key, **kw), dr.unique(rows, kf))
    if op == 'partition':
        d, e1 = _run(lambda: etl.duplicates(tbl, key, **kw))
        u, e2 = _run(lambda: etl.unique(tbl, key, **kw))
        if e1 or e2:
            return ('raises', rows, e1 or e2)
        got = [tuple(r) for r in d[1:]] + [tuple(r) for r in u[1:]]
        if dr.bag(got) != dr.bag(rows):
            return ('duplicates + unique is not the input', rows, got)
        return None
    if op == 'distinct':
        return rowsop(lambda: etl.distinct(tbl, key, **kw), dr.distinct(rows, kf))
    if op == 'distinct-count':
        want = dr.distinct_counted(rows, kf)
        bad = rowsop(lambda: etl.distinct(tbl, key, count=COUNT, **kw), want, hdr + (COUNT,))
        if bad:
            return bad
        out = list(etl.distinct(tbl, key, count=COUNT, **kw))
        if sum(r[-1] for r in out[1:]) != len(rows):
            return ('counts do not add up to nrows', len(rows), [r[-1] for r in out[1:]])
        return None
    if op == 'conflicts':
        ca = _cargs(cname)
        out, err = _run(lambda: etl.conflicts(tbl, key, **dict(ca, **kw)))
        if err:
            return ('raises', None, err)
        if not out or tuple(out[0]) != hdr:
            return ('header changed', hdr, tuple(out[0]) if out else None)
        got = [tuple(r) for r in out[1:]]
        if stats is not None:
            stats['conflicts-rows-returned'] += len(got)
        why = dr.conflicts_unsound(hdr, rows, key, got, ca.get('missing'), ca.get('include'), ca.get('exclude'))
        if why:
            return (why, 'only rows of disagreeing duplicate groups', got)
        return None
    if op == 'isunique':
        want = all(len(g) == 1 for _, g in dr.groups(rows, kf))
        try:
            got = etl.isunique(tbl, key)
        except Exception as e:
            return ('raises', want, '%s: %s' % (type(e).__name__, str(e)[:120]))
        if bool(got) != want:
            return ('wrong answer', want, got)
        d, err = _run(lambda: etl.duplicates(tbl, key))
        if err is None and bool(got) != (len(d) <= 1):
            return ('disagrees with duplicates()', len(d) <= 1, got)
        return None
    raise ValueError(op)


def _ops(fam, key):
    ops = [('duplicates', None), ('unique', None), ('partition', None), ('distinct', None),
           ('distinct-count', None)]
    if key is not None:
        ops += [('conflicts', c) for c in fam['cargs']]
    if fam.get('ops'):
        ops = [o for o in ops if o[0] in fam['ops']]
    return ops


def check_table(acc, famname, fam, rows):
    hdr = fam['hdr']
    n = len(rows)
    for key in fam['keys']:
        kform = _keyform(key)
        kf = dr.keyfn(hdr, key)
        sizes = [len(g) for _, g in dr.groups(rows, kf)]
        nontriv = (1 in sizes) and any(s > 1 for s in sizes)
        for variant in fam['variants']:
            use = sr.presort(hdr, rows, key, False) if variant in ('presorted', 'presorted-mixed') else rows
            acc.states += 1
            if nontriv:
                acc.nontrivial += 1
            ops = _ops(fam, key)
            if key is not None and variant in ('default', 'bs1') and not fam.get('ops'):
                ops = ops + [('isunique', None)]
            for op, cname in ops:
                acc.evals += 1
                acc.transitions += 2 if op in ('partition', 'isunique', 'distinct-count') else 1
                bad = eval_op(op, hdr, use, key, variant, cname, acc.counters)
                acc.counters['op:' + op] += 1
                if bad is None:
                    continue
                sig, expd, obs = bad
                label = op if op != 'distinct-count' else 'distinct(count=)'
                if op == 'conflicts' and cname != 'plain':
                    label += '(%s)' % ', '.join(sorted(_cargs(cname)))
                where = 'header-only table' if n == 0 else \
                    'key=%s%s' % (kform, '' if variant in ('default', 'presorted') else
                                  (', mixed list/tuple rows' if variant.endswith('mixed') else ', buffersize given'))
                group = '%s | %s | %s' % (label, sig, where)
                if op in _TIE_OPS and sort_tie_splits_equal_keys(hdr, use, key):
                    group += TIE_SUFFIX
                case = {'kind': 'dedup', 'op': op, 'header': hdr, 'rows': freeze_rows(use), 'key': key, 'variant': variant,
                        'cargs': cname}
                acc.violation(group, case, expd, obs,
                              '%s on a %d-row table, key=%r, %s%s: %s'
                              % (label, n, key, variant, '' if not cname else ', conflicts args ' + repr(_cargs(cname)),
                                 sig))
            if variant == fam['variants'][0]:
                acc.outcome((sorted(sizes), key is None))
        if key is not None:
            plain = dr.conflicts_possible(hdr, rows, key)
            acc.counters['conflicts-possible' if plain else 'conflicts-impossible'] += 1
            for cname in fam['cargs']:
                ca = _cargs(cname)
                if 'missing' in ca and dr.conflicts_possible(hdr, rows, key, ca['missing'], ca.get('include'),
                                                             ca.get('exclude')) < \
                        dr.conflicts_possible(hdr, rows, key, None, ca.get('include'), ca.get('exclude')):
                    # a group disagrees only through cells equal to the missing marker
                    acc.counters['missing-marker-decides:' + cname] += 1
    acc.counters['tables:' + famname] += 1


# ------------------------------------------------------------------------------------------------
# histories with a failed first pass (the operators sit on a sort view with a cache)
# ------------------------------------------------------------------------------------------------

FP_OPS = ('duplicates', 'unique', 'distinct', 'distinct-count', 'conflicts')


def _judge_rows(op, hdr, rows, key, out):
    """Judge one delivered table (list of rows, header first) of `op` against the reference."""
    kf = dr.keyfn(hdr, key)
    want_hdr = hdr + (COUNT,) if op == 'distinct-count' else hdr
    if not out or tuple(out[0]) != tuple(want_hdr):
        return ('header changed', tuple(want_hdr), tuple(out[0]) if out else None)
    got = [tuple(r) for r in out[1:]]
    if op == 'conflicts':
        why = dr.conflicts_unsound(hdr, rows, key, got)
        return (why, 'only rows of disagreeing duplicate groups', got) if why else None
    want = {'duplicates': dr.duplicates, 'unique': dr.unique, 'distinct': dr.distinct,
            'distinct-count': dr.distinct_counted}[op](rows, kf)
    d = _rowdiff(want, got)
    return (d, want, got) if d else None


def failed_pass_case(case):
    """op(source, key, buffersize <= nrows, cache=True) over a source that fails ONCE, at item `fail_at`
    (0 = header, 1..n = data row, n+1 = at exhaustion): pass 1 may die; passes 2 and 3 over the SAME view must
    deliver what the reference says for the full table.  Chunk size by argument or via
    petl.config.sort_buffersize (kept set while the view is built and iterated, restored afterwards)."""
    from ..sources import FlakyTable
    hdr, rows, key, op = tuple(case['header']), thaw_rows(case['rows']), case['key'], case['op']
    src = FlakyTable(hdr, rows, fail_at=case['fail_at'], times=1)
    kw = {'cache': True}
    viaconfig = case['bsmode'] == 'config'
    if not viaconfig:
        kw['buffersize'] = case['buffersize']
    old = petl_config.sort_buffersize
    try:
        if viaconfig:
            petl_config.sort_buffersize = case['buffersize']
        if op == 'duplicates':
            view = etl.duplicates(src, key, **kw)
        elif op == 'unique':
            view = etl.unique(src, key, **kw)
        elif op == 'distinct':
            view = etl.distinct(src, key, **kw)
        elif op == 'distinct-count':
            view = etl.distinct(src, key, count=COUNT, **kw)
        else:
            view = etl.conflicts(src, key, **kw)
        try:
            list(view)
        except Exception:
            pass
        for p in (2, 3):
            try:
                out = list(view)
            except Exception as e:
                return ('pass %d raises' % p, None, '%s: %s' % (type(e).__name__, str(e)[:100]))
            bad = _judge_rows(op, hdr, rows, key, out)
            if bad:
                return ('pass %d: %s' % (p, bad[0]), bad[1], bad[2])
    finally:
        petl_config.sort_buffersize = old
    return None


def check_failed_pass(acc, fam, rows):
    hdr, n = fam['hdr'], len(rows)
    for key in fam['keys']:
        for op in FP_OPS:
            if op == 'conflicts' and key is None:
                continue
            for bs in range(1, n + 1):
                for bsmode in ('arg', 'config'):
                    for fail_at in range(0, n + 2):
                        case = {'kind': 'dedup-after-failed-pass', 'op': op, 'header': hdr, 'rows': freeze_rows(rows),
                                'key': key, 'buffersize': bs, 'bsmode': bsmode, 'fail_at': fail_at}
                        acc.states += 1
                        acc.evals += 2
                        acc.transitions += 3
                        if fail_at >= 2 and bs < fail_at:     # at least one chunk was dumped before the failure
                            acc.nontrivial += 1
                        acc.counters['failed-pass:' + op] += 1
                        bad = failed_pass_case(case)
                        if bad:
                            label = op if op != 'distinct-count' else 'distinct(count=)'
                            acc.violation('%s | wrong result after a failed first pass of the same view' % label,
                                          case, bad[1], bad[2],
                                          '%s(key=%r, buffersize=%r via %s) on a %d-row source failing once at item %d: %s'
                                          % (label, key, bs, bsmode, n, fail_at, bad[0]))
                        else:
                            acc.outcome(('fp', op, n, fail_at, bs))


# ------------------------------------------------------------------------------------------------
# runner interface
# ------------------------------------------------------------------------------------------------

ITEM_MS = 1500.0


def _table_ms(fam, n):
    per = 0.0
    for key in fam['keys']:
        for v in fam['variants']:
            nops = 7 + (len(fam['cargs']) if key is not None else 0) + 1
            per += nops * (0.05 + (0.0 if not v.startswith('bs') else 0.6 * max(1, n)))
    return per + 0.1


def _ranges(total, per):
    per = max(1, int(per))
    return [(lo, min(total, lo + per)) for lo in range(0, total, per)]


def items(tier, seed):
    """Simplest first (fewest rows first); no cost() so that the first case of a violation group is the smallest."""
    out = []
    for name, fam in _P['fams'].items():
        b = len(fam['syms'])
        for n in range(fam.get('minn', 0), fam['maxn'] + 1):
            for lo, hi in _ranges(b ** n, ITEM_MS / _table_ms(fam, n)):
                out.append((name, n, lo, hi))
    for name, fam in _P['tfams'].items():
        b = len(fam['syms'])
        for n in range(fam['minn'], fam['maxn'] + 1):
            per_table = 9 * n * 2 * (n + 2) * (0.6 + 0.5 * n)      # histories x ~ms each
            for lo, hi in _ranges(b ** n, ITEM_MS / per_table):
                out.append(('failed-pass:' + name, n, lo, hi))
    out.sort(key=lambda it: it[1])
    res = []
    for n, grp in itertools.groupby(out, key=lambda it: it[1]):
        res.extend(spaces.rotate(list(grp), seed))
    return res


def bounds(tier, seed):
    b = {}
    for name, fam in _P['tfams'].items():
        b['failed-pass:' + name] = {'header': list(fam['hdr']), 'row_symbols': len(fam['syms']),
                                    'rows': [fam['minn'], fam['maxn']], 'keys': [repr(k) for k in fam['keys']],
                                    'operators': list(FP_OPS), 'fail_at': '0..n+1 (once)', 'buffersize': '1..n',
                                    'bsmode': ['arg', 'config'], 'cache': True, 'passes_checked': [2, 3]}
    for name, fam in _P['fams'].items():
        b[name] = {'header': list(fam['hdr']), 'row_symbols': len(fam['syms']),
                   'rows': [fam.get('minn', 0), fam['maxn']],
                   'tables': sum(len(fam['syms']) ** n for n in range(fam.get('minn', 0), fam['maxn'] + 1)),
                   'keys': [repr(k) for k in fam['keys']], 'variants': list(fam['variants']),
                   'conflicts_args': [repr(_cargs(c)) for c in fam['cargs']]}
    return b


def run_item(item, acc):
    name, n, lo, hi = item
    if name.startswith('failed-pass:'):
        fam = _P['tfams'][name.split(':', 1)[1]]
        for index in range(lo, hi):
            check_failed_pass(acc, fam, _table(fam, n, index))
        return
    fam = _P['fams'][name]
    for index in range(lo, hi):
        check_table(acc, name, fam, _table(fam, n, index))
    if lo == 0:
        acc.sample({'family': name, 'header': fam['hdr'], 'rows': _table(fam, n, hi - 1),
                    'keys': fam['keys']}, 1)


def replay(case):
    if case['kind'] == 'dedup-after-failed-pass':
        return failed_pass_case(case)
    return eval_op(case['op'], tuple(case['header']), thaw_rows(case['rows']), case['key'],
                   case['variant'], case.get('cargs'))


def vacuity(cov, tier):
    c = cov['per_case_counters']
    problems = []
    for op in ('duplicates', 'unique', 'partition', 'distinct', 'distinct-count', 'conflicts', 'isunique'):
        if not c.get('op:' + op):
            problems.append('operation %s never evaluated' % op)
    if not c.get('conflicts-rows-returned'):
        problems.append('conflicts() never returned a row')
    for fam in _P['fams'].values():
        for cname in fam['cargs']:
            if 'missing' in _cargs(cname) and not c.get('missing-marker-decides:' + cname):
                problems.append('missing marker form %s never decides a case' % cname)
    for op in FP_OPS:
        if not c.get('failed-pass:' + op):
            problems.append('no failed-pass history for %s' % op)
    if not c.get('conflicts-possible'):
        problems.append('no table on which conflicts() may return rows')
    return problems


# classifiers for known_findings.json entries -----------------------------------------------------

def _cls_distinct_count_header_only(group, case, params):
    """distinct(count=...) on a table without data rows."""
    return case.get('kind') == 'dedup' and case.get('op') == 'distinct-count' and len(case.get('rows')) == 0


TIE_SUFFIX = ' | equal keys separated by a sort-tied unequal key (list vs tuple)'
_TIE_OPS = ('duplicates', 'unique', 'partition', 'distinct', 'distinct-count')


def sort_tie_splits_equal_keys(hdr, rows, key):
    """Exact trigger of the recorded defect C10-sort-tie-splits-equal-keys: in stable key order (petl's
    ordering) two rows with equal (==) keys are separated by a row whose key is tied with theirs in that
    ordering without being equal (a list between two equal tuples, ...), so the adjacent-row run detection of
    duplicates/unique/distinct never sees the pair.  Adjacent list/tuple keys alone do NOT satisfy it."""
    from .. import refmodel as ref
    hdr, rows = tuple(hdr), [tuple(r) for r in rows]
    kf = dr.keyfn(hdr, key)
    ks = [kf(r) for r in sr.presort(hdr, rows, key, False)]
    for i in range(len(ks)):
        for j in range(i + 1, len(ks)):
            if ks[j] == ks[i] or ref.cmp(ks[i], ks[j]) != 0:
                continue
            for m in range(j + 1, len(ks)):
                if ks[i] == ks[m]:
                    return True
    return False


def _cls_sort_tie_splits_equal_keys(group, case, params):
    """True only for cases whose input satisfies sort_tie_splits_equal_keys (and whose group carries the suffix)."""
    if case.get('kind') != 'dedup' or case.get('op') not in _TIE_OPS or not group.endswith(TIE_SUFFIX):
        return False
    return sort_tie_splits_equal_keys(case['header'], thaw_rows(case['rows']), case['key'])


CLASSIFIERS = {'distinct_count_header_only': _cls_distinct_count_header_only,
               'sort_tie_splits_equal_keys': _cls_sort_tie_splits_equal_keys}
