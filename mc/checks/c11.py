"""C11 — execution-strategy arguments never change results.

(A) E2: every sort-backed operator x every small input x the full cross-product of strategy arguments
    (buffersize None/1..n+1, petl.config.sort_buffersize default/1/2/None, tempdir set/unset, cache on/off,
    presorted on inputs sorted by the operator's key with an independent reference sorter) x pass 1/2:
    header and row SEQUENCE must equal the default call on the same inputs.
(B) E1: all histories up to length 3 (4 thorough) over {edit source 1, edit source 2, full pass, partial
    pass, arm a transient source failure} on operators over editable, pull-counting sources x cache on/off x buffersize None/1:
    cache=False: every complete pass equals a freshly built operator on the sources' current contents;
    cache=True: after a completed pass every later complete pass yields the same rows and pulls nothing.
"""
import itertools
import operator
import os
import shutil
from collections import OrderedDict

import petl as etl
import petl.config

from .. import env
from .. import explore
from .. import refmodel as ref
from .. import spaces
from ..sources import EditableTable, freeze

ID = 'C11'
LEVEL = 'model_checking'
ENGINE = 'E2 configuration cross-product (differential vs default call) + E1 edit/iterate histories'
RULE = ('(A) states = (operator, input, strategy tuple, pass); non-trivial = the input has >= 2 data rows on some side '
        'and the strategy differs from the default call; (B) nodes = histories over {edit1, edit2, edit3 (column inserted in front, unary operators), pass, partial, arm}; '
        'non-trivial = a complete pass that follows an edit')
ASSUMPTIONS = ['inputs <= 3 rows (unary) / <= 2+2 rows (binary); keys over {None, int, int, str}; ragged inputs over the '
               'row shapes {empty row, key only, short, full, over-long} (skipped where the default call itself raises)',
               'presorted=True only on inputs sorted by the operator-specific key with the reference sorter',
               'histories <= 4 events; edits append a row with a new smallest key / change the key of row 0']

DEFAULT_BUFFERSIZE = 100000


def _agg():
    return OrderedDict([('n', len), ('vs', ('v', list))])


def _reducer(key, rows):
    return [key, [r[2] for r in rows]]


def _gmap(key, rows):
    for r in rows:
        yield (key, r[1], r[2])


class SOp(object):
    def __init__(self, name, kind, fn, presort=None, cache=True):
        self.name, self.kind, self.fn, self.presort, self.has_cache = name, kind, fn, presort, cache


K = [0]          # key column
LEX = 'lex'
OPS = OrderedDict()


def _op(name, kind, fn, presort=None, cache=True):
    OPS[name] = SOp(name, kind, fn, presort, cache)


# unary keyed operators over ('k', 'v', 'id')
_op('sort', 'u', lambda t, kw: etl.sort(t[0], 'k', **kw))
_op('sort(reverse)', 'u', lambda t, kw: etl.sort(t[0], 'k', reverse=True, **kw))
_op('sort(lex)', 'u', lambda t, kw: etl.sort(t[0], **kw))
_op('duplicates', 'u', lambda t, kw: etl.duplicates(t[0], 'k', **kw), [K])
_op('unique', 'u', lambda t, kw: etl.unique(t[0], 'k', **kw), [K])
_op('conflicts', 'u', lambda t, kw: etl.conflicts(t[0], 'k', **kw), [K])
_op('distinct(k)', 'u', lambda t, kw: etl.distinct(t[0], 'k', **kw), [K])
_op('distinct(k,count)', 'u', lambda t, kw: etl.distinct(t[0], 'k', count='n', **kw), [K])
_op('distinct(None)', 'u', lambda t, kw: etl.distinct(t[0], **kw), [LEX])
_op('rowreduce', 'u', lambda t, kw: etl.rowreduce(t[0], 'k', _reducer, header=['k', 'ids'], **kw), [K])
_op('aggregate(len)', 'u', lambda t, kw: etl.aggregate(t[0], 'k', len, **kw), [K])
_op('aggregate(list,id)', 'u', lambda t, kw: etl.aggregate(t[0], 'k', list, 'id', **kw), [K])
_op('aggregate(multi)', 'u', lambda t, kw: etl.aggregate(t[0], 'k', _agg(), **kw), [K])
_op('mergeduplicates', 'u', lambda t, kw: etl.mergeduplicates(t[0], 'k', **kw), [K])
_op('fold', 'u', lambda t, kw: etl.fold(t[0], 'k', operator.add, 'id', **kw), [K])
_op('groupselectfirst', 'u', lambda t, kw: etl.groupselectfirst(t[0], 'k', **kw), [K])
_op('groupselectlast', 'u', lambda t, kw: etl.groupselectlast(t[0], 'k', **kw), [K])
_op('groupselectmin', 'u', lambda t, kw: etl.groupselectmin(t[0], 'k', 'v', **kw), [K])
_op('groupselectmax', 'u', lambda t, kw: etl.groupselectmax(t[0], 'k', 'v', **kw), [K])
_op('rowgroupmap', 'u', lambda t, kw: etl.rowgroupmap(t[0], 'k', _gmap, header=['k', 'v', 'id'], **kw), [K])
_op('pivot', 'u', lambda t, kw: etl.pivot(t[0], 'k', 'v', 'id', sum, **kw), [[0, 1]])
_op('unjoin[0]', 'u', lambda t, kw: etl.unjoin(t[0], 'k', **kw)[0], [K])
_op('unjoin[1]', 'u', lambda t, kw: etl.unjoin(t[0], 'k', **kw)[1], [K])
_op('unjoin(key)[0]', 'u', lambda t, kw: etl.unjoin(t[0], 'v', key='k', **kw)[0], [K])
_op('unjoin(key)[1]', 'u', lambda t, kw: etl.unjoin(t[0], 'v', key='k', **kw)[1], [K])
# binary: same header ('k', 'v', 'id') on both sides
_op('mergesort', 'm', lambda t, kw: etl.mergesort(t[0], t[1], key='k', **kw), [K, K])
# key=None takes a different branch of MergeSortView (sort over cat): strategy arguments must arrive there too (wave 9)
_op('mergesort(lex)', 'm', lambda t, kw: etl.mergesort(t[0], t[1], **kw))
_op('merge', 'm', lambda t, kw: etl.merge(t[0], t[1], key='k', **kw), [K, K])
# binary joins: left ('k','v','id'), right ('k','w','rid')
for _nm, _f in [('join', etl.join), ('leftjoin', etl.leftjoin), ('rightjoin', etl.rightjoin),
                ('outerjoin', etl.outerjoin), ('antijoin', etl.antijoin), ('lookupjoin', etl.lookupjoin)]:
    _op(_nm, 'j', (lambda f: lambda t, kw: f(t[0], t[1], key='k', **kw))(_f), [K, K])
# binary set operations: ('k', 'v') on both sides, rows may coincide
_op('complement', 's', lambda t, kw: etl.complement(t[0], t[1], **kw), [LEX, LEX])
_op('complement(strict)', 's', lambda t, kw: etl.complement(t[0], t[1], strict=True, **kw), [LEX, LEX])
_op('intersection', 's', lambda t, kw: etl.intersection(t[0], t[1], **kw), [LEX, LEX])
_op('diff[0]', 's', lambda t, kw: etl.diff(t[0], t[1], **kw)[0], [LEX, LEX])
_op('diff[1]', 's', lambda t, kw: etl.diff(t[0], t[1], **kw)[1], [LEX, LEX])
_op('recordcomplement', 's', lambda t, kw: etl.recordcomplement(t[0], t[1], **kw))
_op('recorddiff[0]', 's', lambda t, kw: etl.recorddiff(t[0], t[1], **kw)[0])
_op('recorddiff[1]', 's', lambda t, kw: etl.recorddiff(t[0], t[1], **kw)[1])

_SEED = 0


def setup(tier, seed):
    global _SEED
    _SEED = seed


# ---- inputs ---------------------------------------------------------------------------------------

def unary_tables(tier, seed):
    K4 = spaces.K4(seed)
    K3 = spaces.K3(seed)
    out = []
    cells = list(itertools.product(K4, (1, 2)))
    nmax = 2 if tier == 'quick' else 3
    for n in range(0, nmax + 1):
        for rows in itertools.product(cells, repeat=n):
            out.append((('k', 'v', 'id'),) + tuple((k, v, i) for i, (k, v) in enumerate(rows)))
    if tier == 'quick':
        for ks in itertools.product(K3, repeat=3):
            out.append((('k', 'v', 'id'),) + tuple((k, 2 - (i % 2), i) for i, k in enumerate(ks)))
    out.extend(ragged_unary_tables(tier, seed))
    return out


def _shapes(k, i):
    # an entirely empty row, rows shorter than the header, a full row, an over-long row
    return [(), (k,), (k, 1 + (i % 2)), (k, 1 + (i % 2), i), (k, 1 + (i % 2), i, 9)]


def ragged_unary_tables(tier, seed):
    """Every table of 1..3 rows over the five row shapes (keys collide: first and last row share a key)."""
    r = spaces.reps(seed)
    keys = [r['i2'], r['i1'], r['i2']]
    out = []
    for n in range(1, 4):
        for shp in itertools.product(range(5), repeat=n):
            if all(s_ >= 3 for s_ in shp):
                continue        # no row short of the header: the rectangular space has those
            out.append((('k', 'v', 'id'),) + tuple(_shapes(keys[i], i)[s_] for i, s_ in enumerate(shp)))
    return out


def _side(keys, hdr, base):
    return (hdr,) + tuple((k, 1 + (i % 2), base + i) for i, k in enumerate(keys))


def binary_tables(kind, tier, seed):
    Kx = spaces.K3(seed) if tier == 'quick' else spaces.K4(seed)
    keysets = [ks for n in range(0, 3) for ks in itertools.product(Kx, repeat=n)]
    out = []
    for a in keysets:
        for b in keysets:
            if kind == 'j':
                out.append((_side(a, ('k', 'v', 'id'), 0), _side(b, ('k', 'w', 'rid'), 10)))
            elif kind == 'm':
                out.append((_side(a, ('k', 'v', 'id'), 0), _side(b, ('k', 'v', 'id'), 10)))
            else:
                ta = (('k', 'v'),) + tuple((k, 1) for k in a)
                tb = (('k', 'v'),) + tuple((k, 1 + (i % 2)) for i, k in enumerate(b))
                out.append((ta, tb))
    # ragged sides: every side of 1..2 rows over {empty row, key-only row, full row} against rectangular partners
    r = spaces.reps(seed)
    keys = [r['i2'], r['i1']]
    partners = [ks for n in range(0, 2 if tier == 'quick' else 3) for ks in itertools.product(Kx, repeat=n)]
    for n in (1, 2):
        for shp in itertools.product(range(3), repeat=n):
            if all(s_ == 2 for s_ in shp):
                continue
            for p in partners:
                for ragged_left in (True, False):
                    if kind == 's':
                        rag = (('k', 'v'),) + tuple([(), (keys[i],), (keys[i], 1)][s_] for i, s_ in enumerate(shp))
                        oth = (('k', 'v'),) + tuple((k, 1) for k in p)
                    else:
                        hl, hr = ('k', 'v', 'id'), (('k', 'w', 'rid') if kind == 'j' else ('k', 'v', 'id'))
                        base = 0 if ragged_left else 10
                        rag = ((hl if ragged_left else hr),) + tuple(
                            [(), (keys[i],), (keys[i], 1 + (i % 2), base + i)][s_] for i, s_ in enumerate(shp))
                        oth = _side(p, hr if ragged_left else hl, 10 if ragged_left else 0)
                    out.append((rag, oth) if ragged_left else (oth, rag))
    return out


def inputs_for(op, tier, seed):
    if op.kind == 'u':
        return [(t,) for t in unary_tables(tier, seed)]
    return binary_tables(op.kind, tier, seed)


def presorted_inputs(op, tables):
    out = []
    for t, key in zip(tables, op.presort):
        hdr, rows = t[0], list(t[1:])
        out.append((hdr,) + tuple(ref.stable_sort(rows, None if key == LEX else key)))
    return tuple(out)


def strategies(op, nmax, tempdir):
    """Full cross-product of strategy arguments (the default call itself excluded)."""
    out = []
    bs_opts = [('arg', b) for b in range(1, nmax + 2)] + [('cfg', c) for c in (DEFAULT_BUFFERSIZE, 1, 2, None)]
    for (how, b) in bs_opts:
        for cache in (True, False):
            for td in (None, tempdir):
                for pre in ((False, True) if op.presort else (False,)):
                    kw = {}
                    if how == 'arg':
                        kw['buffersize'] = b
                    if not cache:
                        kw['cache'] = False
                    if td:
                        kw['tempdir'] = td
                    if pre:
                        kw['presorted'] = True
                    cfg = b if how == 'cfg' else DEFAULT_BUFFERSIZE
                    if not kw and cfg == DEFAULT_BUFFERSIZE:
                        continue
                    out.append((kw, cfg))
    return out


def run_variant(op, tables, kw, cfg, passes=2):
    # the configured default stays in force while the view is built AND while it is iterated (a user sets it once)
    petl.config.sort_buffersize = cfg
    try:
        view = op.fn(tables, dict(kw))
        res = []
        for _ in range(passes):
            try:
                res.append([freeze(r) for r in view])
            except Exception as e:
                res.append(('exc', type(e).__name__, env.excmsg(e)))
    finally:
        petl.config.sort_buffersize = DEFAULT_BUFFERSIZE
    return res


def baseline(op, tables):
    try:
        return [freeze(r) for r in op.fn(tables, {})]
    except Exception:
        return None


def check_A(opname, tables, kw, cfg):
    """Returns None or (expected, observed, signature)."""
    op = OPS[opname]
    tabs = presorted_inputs(op, tables) if kw.get('presorted') else tables
    exp = baseline(op, tabs)
    if exp is None:
        return None
    res = run_variant(op, tabs, kw, cfg)
    for p, got in enumerate(res):
        if got != exp:
            what = 'raises' if isinstance(got, tuple) else 'differs from default call'
            return (exp, got, 'pass %d %s' % (p + 1, what))
    return None


def _sig(kw, cfg):
    parts = sorted(k for k in kw if k != 'tempdir')
    if cfg != DEFAULT_BUFFERSIZE:
        parts.append('config.sort_buffersize')
    return '+'.join(parts) or 'tempdir'


# ---- (B) histories --------------------------------------------------------------------------------

class HistHarness(object):
    EVENTS = ('pass', 'edit1', 'partial', 'edit2', 'arm', 'edit3')

    def __init__(self, cfg):
        self.cfg = dict(cfg)
        self.op = OPS[cfg['op']]
        self.depth = cfg['depth']
        r = spaces.reps(cfg.get('seed', 0))
        self.small = r['i1'] - 100   # a key smaller than every other number; None stays the smallest
        self.i1, self.i2, self.s1 = r['i1'], r['i2'], r['s1']

    def _sources(self):
        srcs = self._full_sources()
        if self.cfg.get('start') == 'empty':
            # every source starts header-only: the first completed pass is a pass over an empty table
            for s_ in srcs:
                del s_.rows[:]
        return srcs

    def _full_sources(self):
        i1, i2, s1 = self.i1, self.i2, self.s1
        kind = self.op.kind
        if kind == 'u':
            return [EditableTable(('k', 'v', 'id'), [(i2, 1, 0), (i1, 2, 1), (i2, 2, 2)])]
        if kind == 'm':
            return [EditableTable(('k', 'v', 'id'), [(i2, 1, 0), (i1, 2, 1)]),
                    EditableTable(('k', 'v', 'id'), [(i1, 1, 10), (s1, 2, 11)])]
        if kind == 'j':
            return [EditableTable(('k', 'v', 'id'), [(i2, 1, 0), (i1, 2, 1), (s1, 1, 2)]),
                    EditableTable(('k', 'w', 'rid'), [(i1, 1, 10), (i2, 2, 11), (i2, 1, 12)])]
        return [EditableTable(('k', 'v'), [(i2, 1), (i1, 1), (s1, 1)]),
                EditableTable(('k', 'v'), [(i1, 1), (i2, 2), (s1, 1)])]

    def _kw(self):
        kw = {}
        if self.cfg['b'] is not None:
            kw['buffersize'] = self.cfg['b']
        if not self.cfg['cache']:
            kw['cache'] = False
        return kw

    def fresh(self, snaps):
        return [freeze(r) for r in self.op.fn(list(snaps), self._kw())]

    def reset(self):
        srcs = self._sources()
        w = {'srcs': srcs, 'view': self.op.fn(srcs, self._kw()), 'R': None, 'n': 0, 'edits': 0,
             'versions': [tuple(s.snapshot() for s in srcs)], 'last': None, 'after_edit': False}
        return w

    def close(self, w):
        w['view'] = None

    def enabled(self, w):
        if w['n'] >= self.depth:
            return []
        return [(e, 0) for e in self.EVENTS]

    def apply(self, w, ev):
        w['n'] += 1
        srcs = w['srcs']
        if ev == 'edit3':
            # a column is inserted in front of source 1: every field the operator names moves one place to the right
            w['edits'] += 1
            s0 = srcs[0]
            s0.header = ('z%d' % w['edits'],) + tuple(s0.header)
            s0.edit(lambda rows: rows.__setitem__(slice(None), [(0,) + tuple(r) for r in rows]))
            w['versions'].append(tuple(s.snapshot() for s in srcs))
            w['last'] = None
            w['after_edit'] = True
            return ('edited',)
        if ev in ('edit1', 'edit2'):
            w['edits'] += 1
            n = w['edits']
            if ev == 'edit1':
                hdr0 = srcs[0].header
                shift = len([f for f in hdr0 if str(f).startswith('z') and str(f)[1:].isdigit()])   # columns edit3 put in front
                width = len(hdr0) - shift
                new = (0,) * shift + (self.small - n,) + tuple([7, 100 + n][:width - 1])
                srcs[0].edit(lambda rows: rows.append(new))
            else:
                tgt = srcs[-1]
                # (columns edit3 put in front are left alone: the key column is the first ORIGINAL column)
                sh = len([f for f in tgt.header if str(f).startswith('z') and str(f)[1:].isdigit()])
                if tgt.rows:
                    tgt.edit(lambda rows: rows.__setitem__(
                        0, tuple(rows[0][:sh]) + (self.s1 + 'z' * n,) + tuple(rows[0][sh + 1:])))
                else:
                    width = len(tgt.header) - sh
                    tgt.edit(lambda rows: rows.append((0,) * sh + (self.s1 + 'z' * n,) + tuple([5, 200 + n][:width - 1])))
            w['versions'].append(tuple(s.snapshot() for s in srcs))
            w['last'] = None
            w['after_edit'] = True
            return ('edited',)
        if ev == 'arm':
            srcs[0].arm()       # the next iterator over source 1 raises at its last data row, once
            return ('armed',)
        before = [s.pulls for s in srcs]
        # a source none of whose iterators was ever driven past its header has no completed read to replay
        hdr_only = [s.pulls <= s.iters for s in srcs]
        armed_before = srcs[0].armed is not None
        try:
            if ev == 'pass':
                rows = [freeze(r) for r in w['view']]
                obs = ('rows', tuple(rows))
            else:
                it = iter(w['view'])
                got = []
                for _ in range(2):
                    try:
                        got.append(freeze(next(it)))
                    except StopIteration:
                        break
                del it
                obs = ('prefix', tuple(got))
        except Exception as e:
            obs = ('exc', type(e).__name__, env.excmsg(e))
        pulled = sum(s.pulls for s in srcs) - sum(before)
        w['excess'] = sum(max(0, (s.pulls - b) - (1 if h else 0)) for s, b, h in zip(srcs, before, hdr_only))
        w['injected'] = armed_before and srcs[0].armed is None    # this pass consumed the armed failure
        w['last'] = (ev, pulled)
        return obs + (('pulled', pulled),)

    def step_check(self, w, ev, obs):
        if ev in ('edit1', 'edit2', 'edit3', 'arm'):
            return None
        pulled = obs[-1][1]
        if obs[0] == 'exc':
            if obs[1] == 'Boom' and w.get('injected'):
                return None     # the injected transient failure surfaced: this pass did not complete
            return (None, obs, 'pass raises')
        if ev == 'partial':
            return None
        rows = list(obs[1])
        cur = tuple(s.snapshot() for s in w['srcs'])
        if not self.cfg['cache']:
            exp = self.fresh(cur)
            if rows != exp:
                return (exp, rows, 'cache=False pass does not reflect the current source contents')
            if pulled == 0:
                return ('>0 rows pulled', 0, 'cache=False pass did not read the sources')
            return None
        if w['R'] is not None:
            if rows != w['R']:
                return (w['R'], rows, 'cache=True pass after a completed pass differs from it')
            if w['excess'] != 0:
                # (reading the header of a source whose rows no pass ever needed - the other side was empty - is
                # not reading it AGAIN: its sort never completed, there is nothing to replay)
                return (0, pulled, 'cache=True pass after a completed pass read the sources again')
            return None
        allowed = [self.fresh(v) for v in w['versions']]
        if rows not in allowed:
            return (allowed[-1], rows, 'cache=True first completed pass matches no source version')
        w['R'] = rows
        return None

    def node_check(self, w, hist):
        return None

    def abstract(self, w):
        return (w['n'], w['edits'], w['R'] is not None, w['last'])

    def nontrivial(self, w, hist):
        return bool(hist) and hist[-1] == 'pass' and any(e.startswith('edit') for e in hist[:-1])


# the replayed prefix must also drive R (it is set inside step_check): make replay call it on every event
class _ReplayAll(HistHarness):
    pass


def _explore_hist(cfg, acc):
    h = HistHarness(cfg)
    # step_check mutates w['R']; explore() only calls it on the last event of a node, so run histories
    # directly: every history is executed from a fresh world with the oracle on every event.
    depth = cfg['depth']
    nodes = 0
    for L in range(1, depth + 1):
        # (edit3 moves the named fields of source 1; only the unary operators keep both a well-formed call and the
        # same field names afterwards)
        events = HistHarness.EVENTS if h.op.kind == 'u' else HistHarness.EVENTS[:-1]
        for hist in itertools.product(events, repeat=L):
            if hist[-1] not in ('pass',):
                continue            # the oracle only speaks about complete passes: histories end with one
            nodes += 1
            acc.states += 1
            acc.evals += 1
            r = run_history(h, hist)
            acc.transitions += len(hist)
            if any(e.startswith('edit') for e in hist[:-1]):
                acc.nontrivial += 1
            if r is not None:
                where, exp, got, msg = r
                acc.violation('%s | history: %s' % (cfg['op'], msg), {'part': 'B', 'config': cfg, 'history': list(hist)},
                              exp, got, '%s (cache=%s, buffersize=%s) after history %r'
                              % (msg, cfg['cache'], cfg['b'], list(hist)))
            else:
                acc.outcome((cfg['op'], hist))
    return nodes


def run_history(h, hist):
    w = h.reset()
    try:
        for i, ev in enumerate(hist):
            obs = h.apply(w, ev)
            r = h.step_check(w, ev, obs)
            if r is not None:
                return ('step %d %s' % (i, ev),) + tuple(r)
    finally:
        h.close(w)
    return None


# ---- work items -------------------------------------------------------------------------------------

def items(tier, seed):
    out = []
    for name, op in OPS.items():
        ins = inputs_for(op, tier, seed)
        nchunks = 8 if tier == 'thorough' else 2
        for c in range(nchunks):
            out.append({'part': 'A', 'op': name, 'chunk': c, 'of': nchunks})
    depth = 3 if tier == 'quick' else 4
    for name, op in OPS.items():
        for cache in (True, False):
            for b in (None, 1):
                out.append({'part': 'B', 'op': name, 'cache': cache, 'b': b, 'depth': depth, 'seed': seed})
                out.append({'part': 'B', 'op': name, 'cache': cache, 'b': b, 'depth': depth, 'seed': seed,
                            'start': 'empty'})
    k = seed % len(out)
    return out[k:] + out[:k]


def cost(item):
    return 10 if item['part'] == 'A' else 1


def bounds(tier, seed):
    return {'operators': list(OPS), 'unary_tables': len(unary_tables(tier, seed)),
            'binary_pairs': len(binary_tables('j', tier, seed)),
            'strategy_tuples_per_input(n=2)': len(strategies(OPS['join'], 2, '/x')),
            'ragged_unary_tables': len(ragged_unary_tables(tier, seed)),
            'history_starts': ['sources with rows', 'header-only sources'],
            'history_depth': 3 if tier == 'quick' else 4, 'history_alphabet': list(HistHarness.EVENTS) + ['(arm = next pass over source 1 fails once at its last row; edit3 = a column is inserted in front of source 1)']}


def run_item(item, acc):
    if item['part'] == 'B':
        nodes = _explore_hist(item, acc)
        acc.counters['B:histories'] += nodes
        acc.sample({'part': 'B', 'config': item, 'histories': nodes}, 1)
        return
    op = OPS[item['op']]
    tier = 'thorough' if item['of'] == 8 else 'quick'
    ins = inputs_for(op, tier, _SEED)
    mine = [t for i, t in enumerate(ins) if i % item['of'] == item['chunk']]
    td = os.path.join(env.worker_dir(), 'c11tmp')
    os.makedirs(td, exist_ok=True)
    first = True
    for tables in mine:
        nmax = max(len(t) - 1 for t in tables)
        for kw, cfg in strategies(op, nmax, td):
            acc.states += 1
            acc.evals += 2
            acc.transitions += 3
            if nmax >= 2:
                acc.nontrivial += 1
            r = check_A(item['op'], tables, kw, cfg)
            if r is not None:
                exp, got, what = r
                kw2 = dict(kw)
                if 'tempdir' in kw2:
                    kw2['tempdir'] = '<private dir>'
                acc.violation('%s | %s: %s' % (item['op'], _sig(kw, cfg), what.split(' ', 2)[2]),
                              {'part': 'A', 'op': item['op'], 'tables': tables, 'kw': kw2, 'config': cfg},
                              exp, got, '%s with %r (config.sort_buffersize=%r): %s' % (item['op'], kw2, cfg, what))
            else:
                acc.outcome((item['op'], len(tables[0])))
        acc.counters['A:inputs:%s' % item['op']] += 1
        if first:
            acc.sample({'part': 'A', 'op': item['op'], 'tables': tables,
                        'strategies': len(strategies(op, nmax, td))}, 1)
            first = False
    if os.listdir(td):
        acc.notes.append('tempdir not empty after %s' % item['op'])
    shutil.rmtree(td, ignore_errors=True)


def replay(case):
    if case['part'] == 'B':
        h = HistHarness(case['config'])
        return run_history(h, [str(e) for e in case['history']])
    kw = dict(case['kw'])
    td = None
    if 'tempdir' in kw:
        td = os.path.join(env.worker_dir(), 'c11tmp-r')
        os.makedirs(td, exist_ok=True)
        kw['tempdir'] = td
    tables = tuple(tuple(tuple(r) for r in t) for t in case['tables'])
    try:
        return check_A(case['op'], tables, kw, case['config'])
    finally:
        if td:
            shutil.rmtree(td, ignore_errors=True)
