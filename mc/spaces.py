"""Small-scope enumerators: alphabets, tables, shapes.  VERIF_SEED never subsamples: it only picks
which concrete representatives stand for the abstract alphabet symbols and rotates enumeration order."""
import datetime
import itertools

from .codec import SubInt, SubFloat
from decimal import Decimal

_INT_POOLS = [(1, 2), (3, 7), (2, 10), (5, 6)]
_STR_POOLS = [('a', 'b'), ('p', 'q'), ('A', 'a'), ('x', 'y')]
_DATE_POOLS = [(datetime.date(2020, 1, 2), datetime.date(2021, 3, 4)),
               (datetime.date(1999, 12, 31), datetime.date(2000, 1, 1))]


def reps(seed):
    """Concrete representatives for the abstract symbols (i1 < i2 ints, s1 < s2 strings)."""
    i1, i2 = _INT_POOLS[seed % len(_INT_POOLS)]
    s1, s2 = _STR_POOLS[(seed // 2) % len(_STR_POOLS)]
    d1, d2 = _DATE_POOLS[(seed // 3) % len(_DATE_POOLS)]
    return {'i1': i1, 'i2': i2, 's1': s1, 's2': s2, 'd1': d1, 'd2': d2}


def K4(seed=0):
    r = reps(seed)
    return [None, r['i1'], r['i2'], r['s1']]


def K6(seed=0):
    r = reps(seed)
    return [None, r['i1'], r['i2'], r['s1'], float(r['i1']), r['s2']]


def K3(seed=0):
    r = reps(seed)
    return [None, r['i1'], r['s1']]


def V36(seed=0):
    r = reps(seed)
    i1, i2, s1, s2, d1, d2 = r['i1'], r['i2'], r['s1'], r['s2'], r['d1'], r['d2']
    b1, b2 = s1.encode(), s2.encode()
    dt1 = datetime.datetime(d1.year, d1.month, d1.day, 10, 30)
    dt2 = datetime.datetime(d2.year, d2.month, d2.day, 0, 0)
    t1, t2 = datetime.time(1, 2, 3), datetime.time(23, 59)
    return [None,
            False, True, 0, 1, -1, i2 if i2 != 1 else 2, 0.5, 1.0, Decimal('0.5'), Decimal('1'),
            Decimal(i2 if i2 != 1 else 2),
            b'', b1, b2,
            '', s1, s2,
            d1, d2, dt1, dt2, t1, t2,
            (), (1,), (2,), (1, s1), (None,), (1, None),
            [1], [1, s1], ((1,),), (1, (2,)), (s1, 1), (b1,),
            # instances of SUBCLASSES of the numeric types are numbers too (and == / hash-equal to the plain value)
            SubInt(1), SubFloat(0.5)]


def rotate(seq, seed):
    seq = list(seq)
    if not seq:
        return seq
    k = seed % len(seq)
    return seq[k:] + seq[:k]


def tuples_upto(alphabet, maxlen, minlen=0):
    """All tuples over alphabet with minlen <= length <= maxlen, shortest first."""
    for n in range(minlen, maxlen + 1):
        for t in itertools.product(alphabet, repeat=n):
            yield t


def chunks(seq, n):
    seq = list(seq)
    size = max(1, (len(seq) + n - 1) // n)
    return [seq[i:i + size] for i in range(0, len(seq), size)]
