"""Runner: work distribution over a fork pool, aggregation, violation confirmation (replayed twice),
replay files, known-finding matching, evidence writing, exit codes.

Exit codes: 0 property held on everything explored (known findings are printed, not counted);
            1 at least one violation that known_findings.json does not list (VIOLATION line printed);
            2/3 harness failure (never used for a verdict).
"""
import collections
import hashlib
import importlib
import json
import multiprocessing
import os
import re
import subprocess
import sys
import time
import traceback

from . import env
from .codec import enc, dec, show

VERIF = os.path.dirname(os.path.dirname(os.path.abspath(__file__)))
MAX_GROUPS_PER_ITEM = 64
MAX_REPORTED = 12
# checks whose deepest built space is cheap enough (< ~30 s) to be run on every change
QUICK_USES_THOROUGH_SPACE = {'C03', 'C04', 'C06', 'C12'}


class Acc(object):
    """Per-work-item accumulator (created in the worker, returned to the parent as a plain dict)."""

    def __init__(self):
        self.evals = 0            # evaluations of the real code compared with an oracle
        self.nontrivial = 0       # distinct cases that are non-trivial by the check's RULE
        self.states = 0           # distinct states / nodes / (input, config) points visited
        self.transitions = 0      # transitions executed on the real implementation
        self.outcomes = set()     # hashes of distinct observed outcomes (vacuity detector)
        self.abstract = set()     # hashes of distinct abstract states (counting only)
        self.counters = collections.Counter()
        self.samples = []
        self.viol = collections.OrderedDict()
        self.notes = []

    def outcome(self, x):
        self.outcomes.add(hash(repr(x)) & 0xffffffffffff)

    def abstract_state(self, x):
        self.abstract.add(hash(repr(x)) & 0xffffffffffff)

    def sample(self, case, limit=2):
        if len(self.samples) < limit:
            self.samples.append(enc(case))

    def violation(self, group, case, expected=None, observed=None, msg=''):
        """Record a violation; only the first case of each group is kept (enumeration is simplest-first)."""
        g = self.viol.get(group)
        if g is not None:
            g['count'] += 1
            return
        if len(self.viol) >= MAX_GROUPS_PER_ITEM:
            group = '(more groups)'
            g = self.viol.get(group)
            if g is not None:
                g['count'] += 1
                return
        self.viol[group] = {'group': group, 'case': enc(case), 'expected': enc(expected),
                            'observed': enc(observed), 'msg': msg, 'count': 1}

    def export(self):
        return {'evals': self.evals, 'nontrivial': self.nontrivial, 'states': self.states,
                'transitions': self.transitions, 'outcomes': self.outcomes, 'abstract': self.abstract,
                'counters': dict(self.counters), 'samples': self.samples,
                'viol': list(self.viol.values()), 'notes': self.notes}


_MOD = None


def _worker_init(modname):
    global _MOD
    _MOD = importlib.import_module(modname)
    env.worker_dir()


def _worker_run(arg):
    idx, item = arg
    acc = Acc()
    t0 = time.time()
    try:
        _MOD.run_item(item, acc)
    except Exception as e:  # the harness is silent on the unchanged tree; a crash here comes from the tree
        tb = traceback.format_exc()
        acc.violation('uncaught %s inside work item (harness does not expect petl to raise here)'
                      % type(e).__name__,
                      {'kind': 'item', 'item': item}, None, tb[-1500:], 'uncaught exception in work item')
    out = acc.export()
    out['idx'] = idx
    out['wall'] = time.time() - t0
    return out


def load_known():
    p = os.path.join(VERIF, 'known_findings.json')
    try:
        with open(p) as f:
            return json.load(f)
    except FileNotFoundError:
        return {'findings': [], 'fixed': []}


def match_known(mod, prop, viol, known):
    for f in known.get('findings', []):
        if f.get('property') != prop:
            continue
        gre = f.get('group')
        if gre is not None and not re.fullmatch(gre, viol['group']):
            continue
        cname = f.get('classifier')
        if cname:
            fn = getattr(mod, 'CLASSIFIERS', {}).get(cname)
            if fn is None or not fn(viol['group'], dec(viol['case']), f.get('params') or {}):
                continue
        return f
    return None


def confirm(mod, viol):
    """Replay the minimal case twice in fresh worlds; both must fail identically."""
    case = dec(viol['case'])
    if isinstance(case, dict) and case.get('kind') == 'item':
        obs = []
        for _ in range(2):
            acc = Acc()
            try:
                mod.run_item(case['item'], acc)
                obs.append(None)
            except Exception as e:
                obs.append(type(e).__name__)
        return obs[0] is not None and obs[0] == obs[1], obs
    obs = []
    for _ in range(2):
        r = mod.replay(case)
        obs.append(None if r is None else enc(r))
    return obs[0] is not None and obs[0] == obs[1], obs


def write_replay(prop, modname, viol, tier, seed):
    body = {'property': prop, 'check': modname, 'group': viol['group'], 'case': viol['case'],
            'expected': viol['expected'], 'observed': viol['observed'], 'msg': viol['msg'],
            'group_size': viol['count'], 'seed': seed, 'tier': tier}
    digest = hashlib.sha1(json.dumps([viol['group'], viol['case']], sort_keys=True).encode()).hexdigest()[:12]
    d = os.environ.get('MC_REPLAY_DIR') or os.path.join(VERIF, 'replays')
    os.makedirs(d, exist_ok=True)
    path = os.path.join(d, '%s-%s.json' % (prop, digest))
    with open(path, 'w') as f:
        json.dump(body, f, indent=1, sort_keys=True)
    return path


def validate_evidence(path):
    """Validate with jsonschema under python3-vt when it is there; returns error text or None."""
    schema = '/root/.vp/EVIDENCE.schema.json'
    vt = '/opt/veriftools/pyvenv/bin/python'
    if not (os.path.exists(schema) and os.path.exists(vt)):
        return None
    code = ('import json,sys,jsonschema;'
            'jsonschema.validate(json.load(open(sys.argv[1])), json.load(open(sys.argv[2])))')
    try:
        r = subprocess.run([vt, '-c', code, path, schema], capture_output=True, text=True, timeout=60)
    except Exception:
        return None
    if r.returncode != 0:
        return r.stderr[-800:]
    return None


def run_check(prop, tier, seed, jobs=None):
    t0 = time.time()
    modname = 'mc.checks.%s' % prop.lower()
    import petl  # noqa: F401  (import before fork so that workers share it)
    mod = importlib.import_module(modname)
    env.scratch_root()
    report_tier = tier
    if prop in QUICK_USES_THOROUGH_SPACE:
        tier = 'thorough'       # the space enumerated; the evidence still says which tier was asked for
    if hasattr(mod, 'setup'):
        mod.setup(tier, seed)
    items = list(mod.items(tier, seed))
    only = os.environ.get('MC_ONLY')
    if only:
        # development aid: run the work items whose JSON matches; such a run is not a check (evidence dir must be
        # redirected and the evidence says so)
        if not os.environ.get('MC_EVIDENCE_DIR'):
            raise SystemExit('MC_ONLY needs MC_EVIDENCE_DIR (a filtered run never writes /verif/evidence)')
        import re as _re
        items = [it for it in items if _re.search(only, json.dumps(it, sort_keys=True, default=str))]
    if hasattr(mod, 'cost'):
        items.sort(key=lambda it: -mod.cost(it))   # long items first: better packing of the pool
    jobs = jobs or int(os.environ.get('MC_JOBS') or min(16, os.cpu_count() or 1))
    env.freeze()
    results = []
    if jobs <= 1 or len(items) <= 1:
        _worker_init(modname)
        for a in enumerate(items):
            results.append(_worker_run(a))
    else:
        ctx = multiprocessing.get_context('fork')
        with ctx.Pool(min(jobs, len(items)), initializer=_worker_init, initargs=(modname,)) as pool:
            for r in pool.imap(_worker_run, list(enumerate(items)), chunksize=1):
                results.append(r)
            pool.close()    # let the workers exit normally (atexit handlers, e.g. coverage measurement)
            pool.join()
    results.sort(key=lambda r: r['idx'])

    tot = collections.Counter()
    outcomes, abstract = set(), set()
    counters = collections.Counter()
    samples, notes = [], []
    groups = collections.OrderedDict()
    for r in results:
        for k in ('evals', 'nontrivial', 'states', 'transitions'):
            tot[k] += r[k]
        outcomes |= r['outcomes']
        abstract |= r['abstract']
        counters.update(r['counters'])
        for s in r['samples']:
            if len(samples) < 6:
                samples.append(s)
        notes.extend(r['notes'])
        for v in r['viol']:
            g = groups.get(v['group'])
            if g is None:
                groups[v['group']] = dict(v)
            else:
                g['count'] += v['count']

    slow = sorted(results, key=lambda r: -r['wall'])[:5]
    slowest = [{'item': enc(items[r['idx']]), 'wall_s': round(r['wall'], 2)} for r in slow]
    known = load_known()
    reported, known_hits, unconfirmed = [], collections.OrderedDict(), []
    for gname, v in groups.items():
        ok, obs = confirm(mod, v)
        if not ok:
            unconfirmed.append((gname, obs))
            continue
        f = match_known(mod, prop, v, known)
        if f is not None:
            known_hits.setdefault(f.get('id') or f.get('what_fails'), (f, []))[1].append(v)
        else:
            reported.append(v)

    for fid, (f, vs) in known_hits.items():
        print('KNOWN-FINDING: property=%s %s [%d case(s) in %d group(s)]'
              % (prop, f.get('what_fails'), sum(v['count'] for v in vs), len(vs)))
    replay_paths = []
    for v in reported[:MAX_REPORTED]:
        path = write_replay(prop, modname, v, tier, seed)
        replay_paths.append(path)
        print('VIOLATION property=%s replay=%s' % (prop, path))
        print('  group: %s (%d case(s))' % (v['group'], v['count']))
        if v['msg']:
            print('  ' + v['msg'][:600])
        print('  case: ' + json.dumps(v['case'])[:700])
        print('  expected: ' + json.dumps(v['expected'])[:500])
        print('  observed: ' + json.dumps(v['observed'])[:500])
    if len(reported) > MAX_REPORTED:
        print('  ... and %d more violation groups' % (len(reported) - MAX_REPORTED))

    wall = time.time() - t0
    level = getattr(mod, 'LEVEL', 'model_checking')
    cov = {
        'evaluations': int(tot['evals']),
        'distinct_nontrivial': int(tot['nontrivial']),
        'rule': getattr(mod, 'RULE', ''),
        'samples': samples or [{'note': 'no sample recorded'}],
        'states': int(tot['states']),
        'transitions': int(tot['transitions']),
        'traces_validated_against_impl': int(tot['transitions']),
        'exhaustive': not os.environ.get('MC_ONLY'),
        'distinct_observed_outcomes': len(outcomes),
        'distinct_abstract_states': len(abstract),
        'work_items': len(items),
        'per_case_counters': {k: counters[k] for k in sorted(counters)},
        'bounds': mod.bounds(tier, seed) if hasattr(mod, 'bounds') else {},
        'violation_groups': len(groups),
        'known_finding_groups': sum(len(vs) for _, vs in known_hits.values()),
        'unconfirmed_groups': len(unconfirmed),
        'engine': getattr(mod, 'ENGINE', ''),
        'notes': notes[:20],
        'slowest_items': slowest,
        'cpu_s_total': round(sum(r['wall'] for r in results), 1),
    }
    if hasattr(mod, 'vacuity'):
        problems = mod.vacuity(cov, tier)
        cov['vacuity_problems'] = problems
    else:
        problems = []
    if len(outcomes) <= 1 and tot['evals'] > 1:
        problems = list(problems) + ['only one distinct outcome observed']
        cov['vacuity_problems'] = problems
    cov['space_enumerated'] = tier + ' space'
    ev = {'property_id': prop, 'tier': report_tier, 'seed': seed, 'level': level, 'coverage': cov,
          'assumptions': list(getattr(mod, 'ASSUMPTIONS', [])), 'wall_s': round(wall, 2),
          'violations': len(reported)}
    evdir = os.environ.get('MC_EVIDENCE_DIR') or os.path.join(VERIF, 'evidence')
    os.makedirs(evdir, exist_ok=True)
    evpath = os.path.join(evdir, '%s.json' % prop)
    with open(evpath, 'w') as f:
        json.dump(ev, f, indent=1, sort_keys=True)
    err = validate_evidence(evpath)

    print('%s tier=%s%s seed=%d items=%d evaluations=%d nontrivial=%d states=%d transitions=%d '
          'outcomes=%d abstract=%d violations=%d known=%d wall=%.1fs'
          % (prop, report_tier, '' if report_tier == tier else ' (thorough space)', seed, len(items), tot['evals'], tot['nontrivial'], tot['states'],
             tot['transitions'], len(outcomes), len(abstract), len(reported),
             cov['known_finding_groups'], wall))
    if err:
        print('HARNESS ERROR: evidence does not validate: %s' % err, file=sys.stderr)
        return 3
    if unconfirmed:
        for gname, obs in unconfirmed:
            print('HARNESS ERROR: violation did not replay deterministically: %s -> %s'
                  % (gname, json.dumps(obs)[:400]), file=sys.stderr)
        return 2 if not reported else 1
    if problems:
        print('HARNESS ERROR: vacuous exploration: %s' % problems, file=sys.stderr)
        return 2 if not reported else 1
    return 1 if reported else 0


def run_replay(path):
    with open(path) as f:
        body = json.load(f)
    import petl  # noqa: F401
    mod = importlib.import_module(body['check'])
    env.scratch_root()
    if hasattr(mod, 'setup'):
        mod.setup(body.get('tier', 'quick'), body.get('seed', 0))
    env.worker_dir()
    case = dec(body['case'])
    print('replaying %s  group: %s' % (body['property'], body['group']))
    print('case: ' + show(case, 1500))
    if isinstance(case, dict) and case.get('kind') == 'item':
        acc = Acc()
        try:
            mod.run_item(case['item'], acc)
            r = None
        except Exception:
            r = traceback.format_exc()
    else:
        r = mod.replay(case)
    if r is None:
        print('PASS: the case no longer fails')
        return 0
    print('FAIL: ' + show(r, 3000))
    print('VIOLATION property=%s replay=%s' % (body['property'], path))
    return 1
