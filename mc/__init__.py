"""Bounded exhaustive exploration (model checking) of petl's semantic properties.

Run as:  cd /verif && PYTHONPATH=/repo:/verif /venv/bin/python -B -m mc <ID> --tier quick|thorough
"""
