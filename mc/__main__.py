import argparse
import os
import sys

from . import env


def main():
    ap = argparse.ArgumentParser(prog='mc')
    ap.add_argument('prop', nargs='?')
    ap.add_argument('--tier', choices=['quick', 'thorough'])
    ap.add_argument('--seed', type=int)
    ap.add_argument('--jobs', type=int)
    ap.add_argument('--replay')
    ap.add_argument('--selftest', action='store_true')
    args = ap.parse_args()
    env.ensure_hashseed()
    sys.dont_write_bytecode = True
    from . import runner
    if args.selftest:
        from . import selftest
        sys.exit(selftest.main())
    if args.replay:
        sys.exit(runner.run_replay(args.replay))
    if not args.prop:
        ap.error('property id required')
    tier = args.tier or os.environ.get('VERIF_TIER') or 'quick'
    if tier not in ('quick', 'thorough'):
        tier = 'quick'
    seed = args.seed if args.seed is not None else int(os.environ.get('VERIF_SEED') or 0)
    sys.exit(runner.run_check(args.prop.upper(), tier, seed, args.jobs))


try:
    main()
except SystemExit:
    raise
except BaseException:       # a crash of the harness is never a verdict: exit code 2, not 1
    import traceback
    traceback.print_exc()
    print('HARNESS ERROR: the check crashed', file=sys.stderr)
    sys.exit(2)
