"""C19 reference model: what convert / fieldmap / rowmap / rowmapmany deliver under each failonerror policy.

Written from the documentation (petl.config.failonerror: "If False, exceptions are suppressed.  If present, the
value provided in the errorvalue argument is returned.  If True, the first unhandled exception is raised.  If
'inline', unhandled exceptions are returned."; the docstrings of convert, fieldmap, rowmap, rowmapmany; the test
comment "exceptions in rowmappers do not generate an output row") and from the property statement.
Imports nothing from petl.

The user functions handed to petl (converters, mappers, generators) are defined HERE as plain Python, so that the
model knows by construction which cells fail and what the non-failing ones become.

Model of one call form = for every input row either
  cell level: a list of output cells, each ('ok', value) or ('fail', payload)
  row level : (list of output rows produced before failing, payload or NOFAIL)
and `deliver` turns that into the expected observation for a policy.

Exception payloads: the user exception (class Boom, or any type of KINDS) carries the offending value; '*' stands for "some exception raised
by a builtin converter" (int, format, method call), whose type and text are not compared.
"""

ANY = '*'
NOFAIL = ('nofail',)
OMIT = ('omit',)           # errorvalue argument not passed (documented default: None)
EXC = 'EXC'                # marker for "an exception object sits here"


class Boom(Exception):
    """The user function's own exception class."""


# The TYPE of the exception the user functions raise is an enumerated axis: the policy semantics must not depend
# on it.  Whatever the type, the exception carries the marker ('BOOM', offending value) as args[0].
KINDS = {
    'Boom': Boom, 'IndexError': IndexError, 'KeyError': KeyError, 'LookupError': LookupError,
    'TypeError': TypeError, 'ValueError': ValueError, 'AttributeError': AttributeError,
    'StopIteration': StopIteration, 'RuntimeError': RuntimeError, 'ZeroDivisionError': ZeroDivisionError,
}
KIND_ORDER = ('Boom', 'IndexError', 'KeyError', 'LookupError', 'TypeError', 'ValueError', 'AttributeError',
              'StopIteration', 'RuntimeError', 'ZeroDivisionError')
_KIND = 'Boom'


def set_kind(kind):
    """Select the exception type raised by the user functions below (module state; one case at a time)."""
    global _KIND
    if kind not in KINDS:
        raise ValueError(kind)
    _KIND = kind


def make_exc(v):
    return KINDS[_KIND](('BOOM', v))


def user_payload(e):
    """(True, value) if e is an exception made by make_exc, else (False, None)."""
    a = getattr(e, 'args', None)
    if a and isinstance(a[0], tuple) and len(a[0]) == 2 and a[0][0] == 'BOOM':
        # None (what an absent field reads as) is reported as '<None>': a payload of None means "nothing raised"
        v = a[0][1]
        if isinstance(v, BaseException):
            v = norm_cell(v)
        return True, ('<None>' if v is None else v)
    return False, None


def payload_of(e):
    """Payload of the user exception if e is it or wraps it (__cause__ / __context__ chain), else ANY ('*')."""
    seen = 0
    x = e
    while x is not None and seen < 5:
        mine, v = user_payload(x)
        if mine:
            return v
        x = x.__cause__ or x.__context__
        seen += 1
    return '*'


# ---- statefulness of the user functions is an enumerated axis too -------------------------------------------
# 'pure'      : the functions are pure
# 'fail-once' : a function raises only the FIRST time it meets a given offending value and succeeds afterwards
#               (a transient failure); a retry of the same call therefore does not fail again.  The state is
#               keyed by the offending value; values are unique per cell, and None (what an absent field reads
#               as) always fails, so the outcome does not depend on the order in which cells are evaluated.
# 'counter'   : a result carries how many times THIS function has been called with THESE arguments
#               (a call-counting function): '...#1' on the first call, '...#2' when the call is repeated.
#               (function, arguments) is unique per cell, so this too is independent of the evaluation order.
# What the statement fixes is observable behaviour: the policy applies to the failure that happened.  A second
# evaluation of a failing row shows up in the delivered rows / the raised exception under these functions.
# The calls are also LOGGED; the log of the model (each function called once per (row, cell), rows in order,
# cells left to right) is compared for INFORMATION only - the statement does not say how often or in which order
# user functions are called.
STATES = ('pure', 'fail-once', 'counter')


class Ctx(object):
    def __init__(self, state='pure'):
        if state not in STATES:
            raise ValueError(state)
        self.state = state
        self.failed = set()
        self.log = []
        self.depth = 0
        self.counts = {}
        self.cur = 0


_CTX = Ctx()


def swap_ctx(ctx):
    """Install ctx as the context the user functions act on; returns the previous one."""
    global _CTX
    old = _CTX
    _CTX = ctx
    return old


def _key(a):
    if isinstance(a, tuple):
        return tuple(a)          # a petl Record / the model's Rec -> plain tuple
    return a


def user(fn):
    """Decorator of the functions handed to petl: log the call (top level only, not calls between them)."""
    name = fn.__name__

    def wrapper(*args):
        ctx = _CTX
        if ctx.depth == 0:
            entry = (name,) + tuple(_key(a) for a in args)
            ctx.log.append(entry)
            ck = (name,) + tuple((type(a).__name__, _key(a)) for a in args)      # 2 and 2.0 are different inputs
            ctx.cur = ctx.counts[ck] = ctx.counts.get(ck, 0) + 1
        ctx.depth += 1
        try:
            return fn(*args)
        finally:
            ctx.depth -= 1
    wrapper.__name__ = name
    return wrapper


def _fail(v):
    """The point where a user function chokes on v."""
    ctx = _CTX
    if ctx.state == 'fail-once' and v is not None:
        k = (type(v).__name__, v)
        if k in ctx.failed:
            return               # met before: this time the function goes on and succeeds
        ctx.failed.add(k)
    ctx.log.append(('!raise', v))
    raise make_exc(v)


def _ret(s):
    if _CTX.state == 'counter':
        return '%s#%d' % (s, _CTX.cur)
    return s


class Rec(tuple):
    """The model's own record: fields by name, attribute or index; an absent field reads as None."""

    def __getitem__(self, f):
        idx = f if isinstance(f, int) else HEADER.index(f)
        return tuple.__getitem__(self, idx) if idx < len(self) else None

    def __getattr__(self, f):
        if f in HEADER:
            return self[f]
        raise AttributeError(f)


# ---- exception OBJECTS as ordinary data -----------------------------------------------------------------------
# A cell may hold an exception instance that nobody raised in this stage (present in the source data, or left by
# an upstream stage run with failonerror='inline').  It is data: the policy reacts only to exceptions RAISED by
# the user function of THIS stage.  In case dicts such a cell is written as the marker ('DATAEXC', class, tag)
# (replayable); materialise() turns markers into instances class(('DATA', tag)).
DATA_CLASSES = {'Boom': Boom, 'ValueError': ValueError, 'KeyError': KeyError}
DATA_CLASS_ORDER = ('Boom', 'ValueError', 'KeyError')


def is_marker(c):
    return isinstance(c, tuple) and len(c) == 3 and c[0] == 'DATAEXC'


def materialise(tbl):
    return [tuple(tbl[0])] + [tuple(DATA_CLASSES[c[1]](('DATA', c[2])) if is_marker(c) else c for c in r)
                              for r in tbl[1:]]


def norm_cell(c):
    """Comparable rendering of a delivered / expected cell: an exception object becomes
    ('DATAEXC', class, tag) if it is a data exception, (EXC, payload) if a user function of the test raised it,
    (EXC, '*') otherwise."""
    if isinstance(c, BaseException):
        a = getattr(c, 'args', None)
        if a and isinstance(a[0], tuple) and len(a[0]) == 2 and a[0][0] == 'DATA':
            return ('DATAEXC', type(c).__name__, a[0][1])
        return (EXC, payload_of(c))
    return c


def norm_row(r):
    return tuple(norm_cell(c) for c in r)


def is_exc_value(v):
    return isinstance(v, BaseException)


# StopIteration raised while an ITERATOR's __next__ runs is, by the iterator protocol, the end of that iterator
# and not a failure (tuple(map(f, row)) just stops); only generators turn it into RuntimeError (PEP 479).
STOPITERATION_IS_EXHAUSTION = ('rowmap(f -> map object)', 'rowmap(f -> iterator object)')


# ------------------------------------------------------------------------------------------------
# tables
# ------------------------------------------------------------------------------------------------

HEADER = ('a', 'b')
STYLES = ('num', 'int', 'str')


def cell(style, reps, i, f, bad, exc=None):
    """Cell of row i, field f (0/1).  `bad` cells make the form's user function raise; exc = class name:
    the cell holds an exception object as data (written as a marker)."""
    tag = reps['s1'] if f == 0 else reps['s2']
    if exc is not None:
        return ('DATAEXC', exc, '%s%d' % (tag, i))
    if style == 'num':       # numeric text / text starting with '!'
        return ('!%s%d' % (tag, i)) if bad else str(reps['i1'] * 10 + 2 * i + f)
    if style == 'int':       # int / text starting with '!'
        return ('!%s%d' % (tag, i)) if bad else reps['i1'] * 10 + 2 * i + f
    if style == 'str':       # text / int  (for method-name converters)
        return (900 + 2 * i + f) if bad else '%s%d' % (tag, i)
    raise ValueError(style)


def table(style, reps, n, badcells, exccells=(), dclass='Boom'):
    """Header + n rows; badcells / exccells are sets of (row, field)."""
    return [HEADER] + [tuple(cell(style, reps, i, f, (i, f) in badcells, dclass if (i, f) in exccells else None)
                             for f in (0, 1)) for i in range(n)]


RAGGED_STATES = [(a, b) for a in ('ok', 'bad') for b in ('ok', 'bad', 'absent')] + ['empty']
RAGGED_STATES_EXC = [(a, b) for a in ('ok', 'bad', 'exc') for b in ('ok', 'bad', 'exc', 'absent')] + ['empty']


def ragged_table(reps, states, dclass='Boom'):
    """Header + rows that may be short: per row (a state, b state) with b possibly 'absent', or 'empty' = ();
    state 'exc': the cell holds an exception object as data."""
    rows = []
    for i, st in enumerate(states):
        if st == 'empty':
            rows.append(())
            continue
        a, b = st
        row = [cell('num', reps, i, 0, a == 'bad', dclass if a == 'exc' else None)]
        if b != 'absent':
            row.append(cell('num', reps, i, 1, b == 'bad', dclass if b == 'exc' else None))
        rows.append(tuple(row))
    return [HEADER] + rows


def g(row, i):
    """A field that is absent from a short row reads as None (petl's Record: missing=None)."""
    return row[i] if i < len(row) else None


def many_cell(beh):
    """rowmapmany: the behaviour of the generator for a row is written in its b cell.
    ('ok', m) -> 'k<m>';  ('fail', k) -> '!<k>';  ('fail', (k, p)) -> '!<k><p>' (lazy-row forms: after k good
    rows the generator yields a last, lazy row whose materialisation raises at cell position p)."""
    kind, k = beh
    if kind == 'fail' and isinstance(k, tuple):
        return '!%d%d' % k
    return ('!%d' % k) if kind == 'fail' else 'k%d' % k


def many_table(reps, behaviours, excrows=(), dclass='Boom'):
    """behaviours: per row ('ok', m) = yields m rows, ('fail', k) = yields k rows then raises;
    rows in excrows carry an exception object (as data) in their a cell."""
    return [HEADER] + [(('DATAEXC', dclass, '%s%d' % (reps['s1'], i)) if i in excrows
                        else '%s%d' % (reps['s1'], i), many_cell(b)) for i, b in enumerate(behaviours)]


# ------------------------------------------------------------------------------------------------
# user functions (handed to petl by the check, evaluated directly by the model)
# ------------------------------------------------------------------------------------------------

def is_bang(v):
    """The values the user functions choke on: text starting with '!' and - type-sensitively - floats
    (2.0 fails where the hash-equal 2 does not; 1.0 fails where True does not)."""
    return (isinstance(v, str) and v.startswith('!')) or type(v) is float


# ---- 'eq' tables: columns with hash-equal cells of different types and with repeated values ----------------------
def eq_alphabets(reps):
    """(cells of column a, cells of column b): within a column there are hash-equal values of different types
    (2 / 2.0, True / 1.0, 3 / 3.0) of which only the float fails, and values can repeat from row to row
    (a repeated failing text as well); no value occurs in both columns."""
    return (['!%s' % reps['s1'].upper(), 2, 2.0, True, 1.0], ['!%s' % reps['s2'].upper(), 3, 3.0])


def eq_table(reps, rows):
    return [HEADER] + [tuple(r) for r in rows]


@user
def conv(v):
    if is_exc_value(v):
        return v          # hands an exception OBJECT on as a value; nothing is raised
    if is_bang(v):
        _fail(v)
    return _ret('c:%s' % (v,))


@user
def conv2(v):
    if is_exc_value(v):
        return v          # hands an exception OBJECT on as a value; nothing is raised
    if is_bang(v):
        _fail(v)
    return _ret('d:%s' % (v,))


@user
def conv_row(v, row):
    if is_exc_value(v):
        return v
    if is_bang(v):
        _fail(v)
    return _ret('%s<%s>' % (v, '/'.join(str(x) for x in row)))


@user
def convs(v):
    """Strict converter: also chokes on the None an absent field reads as."""
    if is_exc_value(v):
        return v
    if v is None or is_bang(v):
        _fail(v)
    return _ret('s:%s' % (v,))


@user
def convs_row(v, row):
    """pass_row converter that reads field b of the row (None when the row is short)."""
    b = row['b']
    if is_bang(v) or b is None:
        _fail(v)
    return _ret('%s<%s>' % (v, b))


@user
def recfun_sb(rec):
    return convs(rec['b'])


@user
def recfun_sa(rec):
    return convs(rec.a)


@user
def rowmapper_s(rec):
    return [convs(rec['a']), convs(rec.b)]


@user
def rowfun_p(rec):
    return conv(rec['a'])


@user
def rowfun_q(rec):
    return '%s+%s' % (conv2(rec['b']), rec['a'])


@user
def rowmapper(row):
    if is_bang(row[0]):
        _fail(row[0])
    return [conv(row[0]), row[1], 'x']


@user
def rowmapper_natural(row):
    return [int(row[0]), row[1]]


def many_rows(row, m):
    return [(row[0], j, row[1]) for j in range(m)]


def _rowgenerator(row):
    b = row[1]
    k = int(b[1:])
    for r in many_rows(row, k):
        yield r
    if b.startswith('!'):
        _fail(row[0])


@user
def rowgenerator(row):
    return _rowgenerator(row)


@user
def rowlister(row):
    """Not a generator: raises when CALLED, else returns a list."""
    b = row[1]
    if b.startswith('!'):
        _fail(row[0])
    return many_rows(row, int(b[1:]))


# ---- lazy rows: the mapper RETURNS (or the generator YIELDS) an iterator; its cells are computed, and may
# ---- raise, only when petl materialises the row.  The statement makes no difference between a mapper that
# ---- raises when called and one whose returned row raises while it is read: the row fails either way.

@user
def lazy_genexpr_mapper(row):
    return (conv(v) for v in row)


@user
def lazy_map_mapper(row):
    return map(conv, row)


@user
def lazy_iter_mapper(row):
    """iter() over a lazily evaluating sequence-less object (neither generator nor map)."""
    return _LazyRow([(conv, v) for v in row])


@user
def lazy_natural_mapper(row):
    return map(int, row)


class _LazyRow(object):
    def __init__(self, thunks):
        self.thunks = list(thunks)
        self.i = 0

    def __iter__(self):
        return self

    def __next__(self):
        if self.i >= len(self.thunks):
            raise StopIteration
        fn, v = self.thunks[self.i]
        self.i += 1
        return fn(v)


def _lazy_cells(cells, failpos, payload):
    """Generator over cells that chokes (payload) instead of delivering the cell at failpos."""
    for p, c in enumerate(cells):
        if p == failpos:
            _fail(payload)
        yield c


def _lazy_rowgenerator(row):
    b = row[1]
    k = int(b[1])
    for r in many_rows(row, k):
        yield _lazy_cells(r, None, None)
    if b.startswith('!'):
        yield _lazy_cells((row[0], k, row[1]), int(b[2]), row[0])


@user
def lazy_rowgenerator(row):
    """rowmapmany generator that yields LAZY rows; b is 'k<m>' or '!<k><p>'."""
    return _lazy_rowgenerator(row)


@user
def lazy_rowlister(row):
    """Not a generator: returns a list of lazy rows (map objects), the last one failing for '!' rows."""
    b = row[1]
    k = int(b[1])
    out = [map(_ident, r) for r in many_rows(row, k)]
    if b.startswith('!'):
        out.append(_lazy_cells((row[0], k, row[1]), int(b[2]), row[0]))
    return out


def _ident(v):
    return v


def _rows_of(fn, row, many=False):
    """Row-level model: what ONE call fn(record) contributes - (rows produced before failing, payload | NOFAIL).
    A returned / yielded row is materialised with tuple(), which is where a lazy row fails."""
    rows = []
    try:
        out = fn(Rec(row))
        if many:
            for x in out:
                rows.append(tuple(x))
        else:
            rows.append(tuple(out))
    except Exception as e:
        return rows, payload_of(e)
    return rows, NOFAIL


def _try(fn, *args):
    try:
        return ('ok', fn(*args))
    except Exception as e:
        return ('fail', payload_of(e), e)


def _ok(v):
    return ('ok', v)


def _absent(*a):
    # a composed mapping whose SOURCE field is not in the header fails for every row, inside the mapping (wave 9)
    raise KeyError('zz')


# ------------------------------------------------------------------------------------------------
# call forms: name -> dict(style, level, header(out), model(row [, extra]))
# ------------------------------------------------------------------------------------------------

def _fmt03(v):
    return '{:03d}'.format(v)


def _pct05(v):
    return '%05d' % v


def _upper(v):
    return v.upper()


def _repl(v):
    return v.replace('0', 'zero')


FORMS = {
    # ---- convert and its convenience wrappers (cell level; header unchanged)
    'convert(name, f)':            dict(style='num', level='cell', header=HEADER,
                                        model=lambda r: [_try(conv, r[0]), _ok(r[1])]),
    'convert(index, f)':           dict(style='num', level='cell', header=HEADER,
                                        model=lambda r: [_ok(r[0]), _try(conv, r[1])]),
    'convert((a, b), f)':          dict(style='num', level='cell', header=HEADER,
                                        model=lambda r: [_try(conv, r[0]), _try(conv, r[1])]),
    'convert({a: f, b: g})':       dict(style='num', level='cell', header=HEADER,
                                        model=lambda r: [_try(conv, r[0]), _try(conv2, r[1])]),
    'convert([f, g])':             dict(style='num', level='cell', header=HEADER,
                                        model=lambda r: [_try(conv, r[0]), _try(conv2, r[1])]),
    'convert()[b] = f':            dict(style='num', level='cell', header=HEADER,
                                        model=lambda r: [_ok(r[0]), _try(conv, r[1])]),
    'convert((a, b), f, pass_row)': dict(style='num', level='cell', header=HEADER,
                                         model=lambda r: [_try(conv_row, r[0], r), _try(conv_row, r[1], r)]),
    'convert(a, f, where)':        dict(style='num', level='cell', header=HEADER, where=True,
                                        model=lambda r, sel: ([_try(conv, r[0]), _ok(r[1])] if sel
                                                              else [_ok(r[0]), _ok(r[1])])),
    'convert((a, b), f, where, pass_row)': dict(style='num', level='cell', header=HEADER, where=True,
                                                model=lambda r, sel: ([_try(conv_row, r[0], r),
                                                                       _try(conv_row, r[1], r)] if sel
                                                                      else [_ok(r[0]), _ok(r[1])])),
    'convertall(f)':               dict(style='num', level='cell', header=HEADER,
                                        model=lambda r: [_try(conv, r[0]), _try(conv, r[1])]),
    'convert(a, int)':             dict(style='num', level='cell', header=HEADER,
                                        model=lambda r: [_try(int, r[0]), _ok(r[1])]),
    'convertnumbers(strict)':      dict(style='num', level='cell', header=HEADER,
                                        model=lambda r: [_try(int, r[0]), _try(int, r[1])]),
    'convert(a, "upper")':         dict(style='str', level='cell', header=HEADER,
                                        model=lambda r: [_try(_upper, r[0]), _ok(r[1])]),
    'convert(b, "replace", x, y)': dict(style='str', level='cell', header=HEADER,
                                        model=lambda r: [_ok(r[0]), _try(_repl, r[1])]),
    'format(a, fmt)':              dict(style='int', level='cell', header=HEADER,
                                        model=lambda r: [_try(_fmt03, r[0]), _ok(r[1])]),
    'formatall(fmt)':              dict(style='int', level='cell', header=HEADER,
                                        model=lambda r: [_try(_fmt03, r[0]), _try(_fmt03, r[1])]),
    'interpolate(b, fmt)':         dict(style='int', level='cell', header=HEADER,
                                        model=lambda r: [_ok(r[0]), _try(_pct05, r[1])]),
    'interpolateall(fmt)':         dict(style='int', level='cell', header=HEADER,
                                        model=lambda r: [_try(_pct05, r[0]), _try(_pct05, r[1])]),
    # ---- fieldmap (cell level; header = mapping keys)
    'fieldmap{p: (a, f), q: (b, g), r: a}': dict(style='num', level='cell', header=('p', 'q', 'r'),
                                                 model=lambda r: [_try(conv, r[0]), _try(conv2, r[1]), _ok(r[0])]),
    'fieldmap{p: rowfun, q: rowfun}': dict(style='num', level='cell', header=('p', 'q'),
                                           model=lambda r: [_try(rowfun_p, Rec(r)), _try(rowfun_q, Rec(r))]),
    'fieldmap{p: "int({a})", q: "{b}"}': dict(style='num', level='cell', header=('p', 'q'),
                                              model=lambda r: [_try(int, r[0]), _ok(r[1])]),
    'fieldmap()[p] = (a, f); [q] = b': dict(style='num', level='cell', header=('p', 'q'),
                                            model=lambda r: [_try(conv, r[0]), _ok(r[1])]),
    'fieldmap{a: (a, f), b: b}':   dict(style='num', level='cell', header=HEADER,
                                        model=lambda r: [_try(conv, r[0]), _ok(r[1])]),
    'fieldmap{p: (zz, f), q: b, r: (a, f)} absent source field': dict(
        style='num', level='cell', header=('p', 'q', 'r'),
        model=lambda r: [_try(_absent), _ok(r[1]), _try(conv, r[0])]),
    'fieldmap{p: (zz, dict), q: (a, f)} absent source field': dict(
        style='num', level='cell', header=('p', 'q'),
        model=lambda r: [_try(_absent), _try(conv, r[0])]),
    # ---- rowmap (row level)
    'rowmap(f)':                   dict(style='num', level='row', header=('x', 'y', 'z'),
                                        model=lambda r: _rows_of(rowmapper, r)),
    'rowmap(natural)':             dict(style='num', level='row', header=('x', 'y'),
                                        model=lambda r: _rows_of(rowmapper_natural, r)),
    # ---- ragged tables: short rows; a mapping / converter that READS an absent field gets None and chokes on it.
    # ---- Which cells fail must not depend on errorvalue.
    'fieldmap{p: (a, f), q: (b, f), r: b} on short rows': dict(
        style='ragged', level='cell', header=('p', 'q', 'r'),
        model=lambda r: [_try(convs, g(r, 0)), _try(convs, g(r, 1)), _ok(g(r, 1))]),
    'fieldmap{p: recfun(b), q: recfun(a)} on short rows': dict(
        style='ragged', level='cell', header=('p', 'q'),
        model=lambda r: [_try(recfun_sb, Rec(r)), _try(recfun_sa, Rec(r))]),
    'fieldmap{p: "int({b})", q: "{a}"} on short rows': dict(
        style='ragged', level='cell', header=('p', 'q'),
        model=lambda r: [_try(int, g(r, 1)), _ok(g(r, 0))]),
    'convert((a, b), f) on short rows': dict(          # absent cells are not converted, the row stays short
        style='ragged', level='cell', header=HEADER,
        model=lambda r: [_try(convs, v) for v in r]),
    'convert(b, f) on short rows': dict(
        style='ragged', level='cell', header=HEADER,
        model=lambda r: [_ok(v) if i == 0 else _try(convs, v) for i, v in enumerate(r)]),
    'convert((a, b), f reading row[b], pass_row) on short rows': dict(
        style='ragged', level='cell', header=HEADER,
        model=lambda r: [_try(convs_row, v, Rec(r)) for v in r]),
    'rowmap(f reading both fields) on short rows': dict(
        style='ragged', level='row', header=('x', 'y'),
        model=lambda r: _rows_of(rowmapper_s, r)),
    # ---- rowmap whose mapper returns a lazy row (fails while petl materialises it)
    'rowmap(f -> generator expression)': dict(style='num', level='row', header=('x', 'y'),
                                              model=lambda r: _rows_of(lazy_genexpr_mapper, r)),
    'rowmap(f -> map object)':     dict(style='num', level='row', header=('x', 'y'),
                                        model=lambda r: _rows_of(lazy_map_mapper, r)),
    'rowmap(f -> iterator object)': dict(style='num', level='row', header=('x', 'y'),
                                         model=lambda r: _rows_of(lazy_iter_mapper, r)),
    'rowmap(f -> map(int, row))':  dict(style='num', level='row', header=('x', 'y'),
                                        model=lambda r: _rows_of(lazy_natural_mapper, r)),
    # ---- rowmapmany yielding lazy rows; the failing lazy row is the last one produced for its input row
    'rowmapmany(generator of lazy rows)': dict(style='many-lazy', level='row', header=('x', 'j', 'y'),
                                               model=lambda r: _rows_of(lazy_rowgenerator, r, True)),
    'rowmapmany(list of lazy rows)': dict(style='many-lazy', level='row', header=('x', 'j', 'y'),
                                          model=lambda r: _rows_of(lazy_rowlister, r, True)),
    # ---- rowmapmany (row level; behaviour vector tables)
    'rowmapmany(generator)':       dict(style='many', level='row', header=('x', 'j', 'y'),
                                        model=lambda r: _rows_of(rowgenerator, r, True)),
    'rowmapmany(list function)':   dict(style='many-call', level='row', header=('x', 'j', 'y'),
                                        model=lambda r: _rows_of(rowlister, r, True)),
}


def has_errorvalue(form):
    return FORMS[form]['level'] == 'cell'


# ------------------------------------------------------------------------------------------------
# expected observation
# ------------------------------------------------------------------------------------------------

def expected_pipeline(upstream, form, tbl, policy, errorvalue=OMIT):
    """Two stages: `upstream` run with failonerror='inline' feeds `form` run with the policy under test."""
    t1 = expected(upstream, tbl, 'inline', OMIT, None, 'pure', raw=True)['rows']
    return expected(form, t1, policy, errorvalue)


def expected(form, tbl, policy, errorvalue=OMIT, selected=None, state='pure', raw=False):
    """Expected observation of one full pass.

    Returns dict(rows=[header, row, ...], raises=None|[payload, ...], optional=k, log=[...]):
    `rows` are delivered in order; if `raises` is not None the exception surfaces at the next request after
    them and is that of ANY failing cell of the row (the statement does not say which of several failing cells
    of one row is met first).  `optional` is 0: the rows a generator produced for the failing source row before
    it raised are part of `rows` and must be delivered before the exception.  `log` is the expected sequence of user-function
    calls (and of the points where they raise) of the pass."""
    ctx = Ctx(state)
    old = swap_ctx(ctx)
    try:
        res = _expected(form, tbl, policy, errorvalue, selected)
    finally:
        swap_ctx(old)
    log = ctx.log
    if res['raises'] is not None:
        # the pass ends where the exception surfaces: nothing is called after the call that raised
        for i, entry in enumerate(log):
            if entry[0] == '!raise':
                log = log[:i + 1]
                break
    res['log'] = log
    if not raw:
        res['rows'] = [norm_row(r) for r in res['rows']]
    return res


def _expected(form, tbl, policy, errorvalue, selected):
    spec = FORMS[form]
    ev = None if errorvalue is OMIT or errorvalue == OMIT else errorvalue
    out = [tuple(spec['header'])]
    for i, row in enumerate(tbl[1:]):
        if spec['level'] == 'cell':
            if spec.get('where'):
                cells = spec['model'](row, i in selected)
            else:
                cells = spec['model'](row)
            fails = [c for c in cells if c[0] == 'fail']
            if not fails:
                out.append(tuple(c[1] for c in cells))
            elif policy is True:
                return {'rows': out, 'raises': [c[1] for c in fails], 'optional': 0}
            elif policy == 'inline':
                out.append(tuple(c[2] if c[0] == 'fail' else c[1] for c in cells))    # the exception object
            else:
                out.append(tuple(ev if c[0] == 'fail' else c[1] for c in cells))
        else:
            rows, fail = spec['model'](row)
            rows = [tuple(r) for r in rows]
            if fail is NOFAIL:
                out.extend(rows)
            elif policy is True:
                # the rows the generator produced for this source row before it failed were produced before the
                # failure: they are delivered, then the exception surfaces ("after every earlier row has been
                # delivered")
                return {'rows': out + rows, 'raises': [fail], 'optional': 0}
            elif policy == 'inline':
                out.extend(rows)
                out.append(((EXC, fail),))
            else:
                out.extend(rows)      # the failing row is dropped, rows produced before the failure are kept
    return {'rows': out, 'raises': None, 'optional': 0}


def payload_matches(expected_payload, observed_payload):
    """expected_payload: one payload, or a list of acceptable ones."""
    if isinstance(expected_payload, list):
        return any(payload_matches(p, observed_payload) for p in expected_payload)
    if expected_payload == ANY:
        return True
    return expected_payload == observed_payload


def cell_matches(exp, obs):
    """exp: plain value or (EXC, payload); obs: plain value or (EXC, payload) as normalised by the check."""
    e_exc = isinstance(exp, tuple) and len(exp) == 2 and exp[0] == EXC
    o_exc = isinstance(obs, tuple) and len(obs) == 2 and obs[0] == EXC
    if e_exc or o_exc:
        return e_exc and o_exc and payload_matches(exp[1], obs[1])
    return type(exp) is type(obs) and exp == obs


def row_matches(exp, obs):
    return len(exp) == len(obs) and all(cell_matches(e, o) for e, o in zip(exp, obs))


def matches(exp, delivered, raised):
    """Compare an observation (delivered rows, payload of the exception that ended the pass or None)."""
    rows = exp['rows']
    if exp['raises'] is None:
        return raised is None and len(rows) == len(delivered) and \
            all(row_matches(e, o) for e, o in zip(rows, delivered))
    if raised is None or not payload_matches(exp['raises'], raised):
        return False
    lo = len(rows) - exp['optional']
    if not (lo <= len(delivered) <= len(rows)):
        return False
    return all(row_matches(e, o) for e, o in zip(rows, delivered))
