"""C17 reference model: what a DB-API database must hold after todb / appenddb.

Written from the docstrings of petl.io.db.todb / appenddb ("the database table will be truncated, i.e., all
existing rows will be deleted prior to inserting the new data" / "the new data will be inserted into the table,
and any existing rows will remain"; "commit : bool  If True commit the changes") and from the DB-API transaction
model (statements executed on one connection are pending until commit(); closing discards pending work).
Imports nothing from petl.

Tables are multisets of rows (SELECT without ORDER BY fixes no order); rows are compared type-faithfully.

Fault positions of a source with n data rows: None = never fails, 0 = fails instead of the header,
i in 1..n = fails instead of data row i, n + 1 = fails instead of signalling exhaustion.
"""
import collections


def cellkey(v):
    """Type-faithful, hashable rendering of a cell (1 != 1.0 != '1')."""
    return (type(v).__name__, repr(v))


def rowkey(row):
    return tuple(cellkey(v) for v in row)


def bag(rows):
    """Multiset of rows."""
    return collections.Counter(rowkey(r) for r in rows)


def show(rows):
    """Canonical plain rendering of a multiset of rows (for messages / replay files)."""
    return sorted((tuple(r) for r in rows), key=rowkey)


def canonical(header, rows, columns):
    """Rows of a table with `header` re-expressed in the database's column order `columns`
    (INSERT names the columns, so the header may list them in any order)."""
    pos = [list(header).index(c) for c in columns]
    return [tuple(r[p] for p in pos) for r in rows]


def delivered(n, fault):
    """Number of data rows the source hands over before it fails (all n when it does not fail or fails
    only at exhaustion)."""
    if fault is None or fault == n + 1:
        return n
    if fault == 0:
        return 0
    return fault - 1


def load(op, view, rows):
    """The table as the loading connection sees it after a complete load of `rows`."""
    if op == 'todb':
        return list(rows)
    if op == 'appenddb':
        return list(view) + list(rows)
    raise ValueError(op)


def expect(op, owns_connection, commit, fault, committed_before, view_before, rows):
    """Expected observations after ONE call op(source, handle, ..., commit=commit).

    committed_before : rows a fresh connection saw before the call
    view_before      : rows the handle's own connection saw before the call (== committed_before when
                       petl opens the connection itself, i.e. owns_connection)
    rows             : data rows of the source in database column order
    Returns (committed_after, view_after); view_after is None when the statement does not fix it
    (after a failure the caller's connection may hold the partial work pending, or may have been rolled back).
    """
    if fault is not None:
        # all-or-nothing: nothing is committed, wherever the source failed
        return list(committed_before), (list(committed_before) if owns_connection else None)
    after = load(op, view_before, rows)
    if commit:
        return after, after
    # commit=False: the changes stay pending on the caller's connection; a connection petl opened itself
    # is closed again, which discards them
    if owns_connection:
        return list(committed_before), list(committed_before)
    return list(committed_before), after


# ------------------------------------------------------------------------------------------------
# sqlite type affinity (https://www.sqlite.org/datatype3.html, sections 3.1 - 3.4), for the declared-type space
# ------------------------------------------------------------------------------------------------
import re

_INT_LITERAL = re.compile(r'^[+-]?\d+$')
_REAL_LITERAL = re.compile(r'^[+-]?\d+\.\d+$')      # the enumerated alphabet has no exponents / bare dots / spaces


def affinity(declared):
    """Column affinity from the declared type (rules applied in the documented order)."""
    d = (declared or '').upper()
    if 'INT' in d:
        return 'INTEGER'
    if 'CHAR' in d or 'CLOB' in d or 'TEXT' in d:
        return 'TEXT'
    if 'BLOB' in d or d == '':
        return 'BLOB'
    if 'REAL' in d or 'FLOA' in d or 'DOUB' in d:
        return 'REAL'
    return 'NUMERIC'         # DATE, TIMESTAMP, NUMERIC, DECIMAL, BOOLEAN ...


def stored(value, declared):
    """The value sqlite keeps (and hands back through a plain DB-API connection) when `value` is inserted into
    a column with the given declared type.  Domain: None, int, float, bytes and text without exponent notation,
    surrounding blanks or hexadecimal digits."""
    aff = affinity(declared)
    if value is None or isinstance(value, bytes) or aff == 'BLOB':
        return value
    if aff == 'TEXT':
        if isinstance(value, int):
            return str(value)
        if isinstance(value, float):
            return repr(value)           # '1.5' (values of the alphabet print identically under %!.15g)
        return value
    # NUMERIC, INTEGER, REAL: text that looks like a number becomes one; other text stays text
    v = value
    if isinstance(v, str):
        if _INT_LITERAL.match(v):
            v = int(v)
        elif _REAL_LITERAL.match(v):
            v = float(v)
        else:
            return v
    if aff == 'REAL':
        return float(v)
    if isinstance(v, float) and v == int(v) and abs(v) < 2 ** 51:
        return int(v)                    # a REAL that is exactly an integer is stored as INTEGER
    return v
