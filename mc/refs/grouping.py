"""Reference semantics of petl's grouping / aggregation operators (C09), written from the documentation.

Imports nothing from petl.  Rows are plain tuples, fields are addressed by index.  A "group" is the list of
the rows having one key value, in input order; groups come in ascending key order under the documented
ordering (mc.refmodel.cmp: None < numbers < everything else); key values are the same when they compare equal.
"""
import functools

from .. import refmodel as ref


def keyof(row, kidx):
    return ref.keyof(row, kidx)


def groups(rows, kidx=None, keyfn=None):
    """[(key, [rows in input order])] in ascending key order.  Deliberately not a sort-then-split:
    a dictionary-like pass over the rows in input order, then the keys are ordered."""
    table = []                       # list of [key, rows]; linear search with the reference equality
    for r in rows:
        k = keyfn(r) if keyfn is not None else keyof(r, kidx)
        for entry in table:
            if ref.cmp(entry[0], k) == 0:
                entry[1].append(r)
                break
        else:
            table.append([k, [r]])
    table.sort(key=lambda e: ref.sortkey(e[0]))
    return [(k, g) for k, g in table]


def keycells(k, kidx):
    """The key as leading output cells: one cell for a single key field, one per field for a compound key."""
    if kidx is not None and len(kidx) > 1:
        return tuple(k)
    return (k,)


def project(rows, vidx):
    """What an aggregation function is handed: whole rows (vidx None), cells (int) or tuples of cells (list)."""
    if vidx is None:
        return list(rows)
    if isinstance(vidx, int):
        return [r[vidx] for r in rows]
    return [tuple(r[i] for i in vidx) for r in rows]


def aggregate_simple(rows, kidx, fn, vidx):
    """Data rows of aggregate(table, key, fn, value); kidx None means key=None (one output row)."""
    if kidx is None:
        return [(fn(project(rows, vidx)),)]
    return [keycells(k, kidx) + (fn(project(g, vidx)),) for k, g in groups(rows, kidx)]


def aggregate_keyfn(rows, keyfn, fn, vidx):
    return [(k, fn(project(g, vidx))) for k, g in groups(rows, keyfn=keyfn)]


def aggregate_multi(rows, kidx, specs):
    """specs: [(source index | list of indices | None, function)], one output cell per spec."""
    if kidx is None:
        grouped = [((), rows)] if rows else []
    else:
        grouped = [(keycells(k, kidx), g) for k, g in groups(rows, kidx)]
    return [tuple(kc) + tuple(fn(project(g, vidx)) for vidx, fn in specs) for kc, g in grouped]


def per_group(rows, kidx, fn):
    """[fn(key, rows-of-the-group)] - rowreduce."""
    return [fn(k, list(g)) for k, g in groups(rows, kidx)]


def per_group_many(rows, kidx, fn):
    """Concatenation of fn(key, rows-of-the-group) - rowgroupmap."""
    out = []
    for k, g in groups(rows, kidx):
        out.extend(fn(k, list(g)))
    return out


def fold(rows, kidx, f, vidx):
    return [(k, functools.reduce(f, project(g, vidx))) for k, g in groups(rows, kidx)]


def select_first(rows, kidx):
    return [g[0] for k, g in groups(rows, kidx)]


def select_last(rows, kidx):
    return [g[-1] for k, g in groups(rows, kidx)]


def extreme_values(rows, kidx, vidx, largest):
    """Per group (ascending key order): (key, the group's rows, the rows whose value is minimal / maximal)."""
    out = []
    for k, g in groups(rows, kidx):
        best = ref.cell(g[0], vidx)
        for r in g[1:]:
            c = ref.cmp(ref.cell(r, vidx), best)
            if (c > 0) if largest else (c < 0):
                best = ref.cell(r, vidx)
        out.append((k, g, [r for r in g if ref.cmp(ref.cell(r, vidx), best) == 0]))
    return out


def distinct(vals):
    out = []
    for v in vals:
        if not any(v == o for o in out):
            out.append(v)
    return out


class ConflictOf(object):
    """Expected Conflict cell: exactly these distinct values."""

    def __init__(self, vals):
        self.vals = list(vals)

    def matches(self, cell):
        return (isinstance(cell, frozenset) and len(cell) == len(self.vals)
                and all(any(v == c for c in cell) for v in self.vals))

    def __repr__(self):
        return 'Conflict(%r)' % (self.vals,)


def mergeduplicates(hdr, rows, kidx, missing=None):
    """(header, rows): key fields, then the other fields; per field the single distinct non-missing value,
    `missing` when there is none, or a ConflictOf the distinct values."""
    vidx = [i for i in range(len(hdr)) if i not in kidx]
    outhdr = tuple(hdr[i] for i in kidx) + tuple(hdr[i] for i in vidx)
    out = []
    for k, g in groups(rows, kidx):
        cells = []
        for i in vidx:
            vals = distinct([r[i] for r in g if i < len(r) and r[i] != missing])
            if len(vals) == 0:
                cells.append(missing)
            elif len(vals) == 1:
                cells.append(vals[0])
            else:
                cells.append(ConflictOf(vals))
        out.append(keycells(k, kidx) + tuple(cells))
    return outhdr, out


def cat(tables, missing=None):
    """Concatenate (header, rows) tables: fields in order of first appearance, absent fields = missing."""
    outhdr = []
    for hdr, _ in tables:
        for f in hdr:
            if f not in outhdr:
                outhdr.append(f)
    out = []
    for hdr, rows in tables:
        hdr = list(hdr)
        for r in rows:
            out.append(tuple(r[hdr.index(f)] if f in hdr else missing for f in outhdr))
    return tuple(outhdr), out


def merge(tables, keynames):
    hdr, rows = cat(tables)
    kidx = [list(hdr).index(k) for k in keynames]
    return mergeduplicates(hdr, rows, kidx)


def countdistinct(rows, kidx, vidx):
    return [keycells(k, kidx) + (len(distinct([r[vidx] for r in g])),) for k, g in groups(rows, kidx)]


def valuecounts(rows, kidx):
    """[(key, count)] (no order implied)."""
    return [(k, len(g)) for k, g in groups(rows, kidx)]
