"""Reference text renderings of a table (look / see), written from the examples in petl's documentation
of look() and see().  Imports nothing from petl.  Used by C20 on tables without data rows: "what the
definition gives for zero rows" is the general layout evaluated on a table that has only its header.

Layouts (docstring of look):
    grid      +-----+-----+      simple   ===  ===      minimal   foo  bar
              | foo | bar |               foo  bar                'a'    1
              +=====+=====+               ===  ===
              | 'a' |   1 |               'a'    1
              +-----+-----+               ===  ===
Numbers are right-aligned, everything else left-aligned; a column is as wide as its widest
representation; index_header shows fields as '<index>|<name>'; truncate cuts every representation to that
many characters; width cuts every output line to that many characters.
see:  one line '<field>: v1, v2' per field.
"""
import decimal

_NUM = (int, float, decimal.Decimal)


def _fields(hdr, index_header):
    flds = [str(f) for f in hdr]
    if index_header:
        flds = ['%s|%s' % (i, f) for i, f in enumerate(flds)]
    return flds


def look_text(rows, style='grid', vrepr=repr, index_header=False, truncate=None, width=None):
    rows = [tuple(r) for r in rows]
    hdr, data = rows[0], rows[1:]
    flds = _fields(hdr, index_header)
    cells = [[vrepr(v) for v in r] for r in data]
    n = max([len(hdr)] + [len(r) for r in data])
    flds = flds + [''] * (n - len(flds))
    cells = [c + [''] * (n - len(c)) for c in cells]
    if truncate:
        flds = [f[:truncate] for f in flds]
        cells = [[c[:truncate] for c in r] for r in cells]
    widths = [max([len(flds[i])] + [len(r[i]) for r in cells]) for i in range(n)]

    def cut(line):
        return (line[:width] if width else line) + '\n'

    def isnum(r, i):
        return i < len(r) and isinstance(r[i], _NUM) and not isinstance(r[i], bool)

    def just(r, c, i):
        return c[i].rjust(widths[i]) if isnum(r, i) else c[i].ljust(widths[i])

    if style == 'grid':
        sep = cut('+' + ''.join('-' * (w + 2) + '+' for w in widths))
        hedsep = cut('+' + ''.join('=' * (w + 2) + '+' for w in widths))
        out = sep + cut('|' + ''.join(' ' + f.ljust(w) + ' |' for f, w in zip(flds, widths))) + hedsep
        for r, c in zip(data, cells):
            out += cut('|' + ''.join(' ' + just(r, c, i) + ' |' for i in range(n))) + sep
        return out
    fldsline = cut('  '.join(f.ljust(w) for f, w in zip(flds, widths)))
    rowlines = ''.join(cut('  '.join(just(r, c, i) for i in range(n))) for r, c in zip(data, cells))
    if style == 'simple':
        hedsep = cut('  '.join('=' * w for w in widths))
        return hedsep + fldsline + hedsep + rowlines + hedsep
    if style == 'minimal':
        return fldsline + rowlines
    raise ValueError(style)


def see_text(rows, vrepr=repr, index_header=False):
    rows = [tuple(r) for r in rows]
    hdr, data = rows[0], rows[1:]
    out = ''
    for i, f in enumerate(hdr):
        name = '%s|%s' % (i, f) if index_header else '%s' % (f,)
        out += '%s: %s\n' % (name, ', '.join(vrepr(r[i]) if i < len(r) else '' for r in data))
    return out


def header_lines_of(text, style):
    """The part of a look() rendering of a table WITH data rows that does not belong to any data row."""
    lines = text.splitlines(True)
    if style == 'grid':
        return ''.join(lines[:3])
    if style == 'simple':
        return ''.join(lines[:3] + lines[-1:])
    if style == 'minimal':
        return ''.join(lines[:1])
    raise ValueError(style)
