"""Reference semantics of petl's set operations (C08), written from the documentation.

Imports nothing from petl.  Rows are tuples; a table is (header, rows).  Row identity is Python `==`
on tuples (what "occurs in" means for a row), so collections.Counter is the multiset.
"""
from collections import Counter


def complement(a_rows, b_rows, strict=False):
    """Multiset a - b; strict: every row of a that does not occur in b at all (with a's multiplicity)."""
    ca, cb = Counter(a_rows), Counter(b_rows)
    if strict:
        return Counter({r: n for r, n in ca.items() if cb[r] == 0})
    return ca - cb


def intersection(a_rows, b_rows):
    return Counter(a_rows) & Counter(b_rows)


def align(target_hdr, hdr, rows):
    """Re-order the columns of (hdr, rows) so that they follow target_hdr (same set of field names)."""
    idx = [list(hdr).index(f) for f in target_hdr]
    return [tuple(r[i] for i in idx) for r in rows]


def is_subsequence(out, src):
    """True when `out` can be obtained from `src` by deleting rows (rows compared with ==)."""
    it = iter(src)
    for r in out:
        for s in it:
            if s == r:
                break
        else:
            return False
    return True


def show(counter):
    """Deterministic plain rendering of a multiset for messages / replay files."""
    return sorted(((tuple(r), n) for r, n in counter.items()), key=repr)
