"""Nested-loop relational reference for the join family and dictionary reference for the lookups
(C06, C07), plus the shared table-pair space.  Written from petl's documentation; imports NOTHING
from petl.

Semantics taken from the docstrings / property statements:
* rows are squared up to the header length first (padded with `missing`, trimmed) for
  join/leftjoin/rightjoin/outerjoin/lookupjoin/crossjoin and their hash counterparts, NOT for the
  anti-joins (those are only asked about rectangular tables);
* one output row per pair of a left and a right row with equal key (None == None, Python == otherwise);
* outer variants: unmatched rows padded with `missing`; right-only rows carry their key in the left key
  positions; lookupjoin: every left row once, with the first partner in right-table order;
  antijoin: the left rows without partner;
* header: (optionally prefixed) left fields + (optionally prefixed) right non-key fields.
"""
import itertools

from .. import refmodel as ref

MERGE_OPS = ('join', 'leftjoin', 'rightjoin', 'outerjoin', 'lookupjoin', 'antijoin')
HASH_OPS = ('hashjoin', 'hashleftjoin', 'hashrightjoin', 'hashantijoin', 'hashlookupjoin')
COUNTERPART = {'hashjoin': 'join', 'hashleftjoin': 'leftjoin', 'hashrightjoin': 'rightjoin',
               'hashantijoin': 'antijoin', 'hashlookupjoin': 'lookupjoin'}
STREAMED = {'hashjoin': 'left', 'hashleftjoin': 'left', 'hashrightjoin': 'right',
            'hashantijoin': 'left', 'hashlookupjoin': 'left'}
TAKES_MISSING = {'leftjoin', 'rightjoin', 'outerjoin', 'lookupjoin',
                 'hashjoin', 'hashleftjoin', 'hashrightjoin', 'hashlookupjoin'}
TAKES_PREFIX = {'join', 'leftjoin', 'rightjoin', 'outerjoin', 'lookupjoin',
                'hashjoin', 'hashleftjoin', 'hashrightjoin', 'hashlookupjoin'}
TAKES_PRESORTED = set(MERGE_OPS)
TAKES_CACHE = {'hashjoin', 'hashleftjoin', 'hashrightjoin'}
SQUARES_UP = TAKES_PREFIX          # everything except antijoin / hashantijoin


# documented positional order of the public signatures (after the two tables) and the documented defaults
_OUTER_SIG = ('key', 'lkey', 'rkey', 'missing', 'presorted', 'buffersize', 'tempdir', 'cache', 'lprefix', 'rprefix')
SIGNATURES = {
    'join': ('key', 'lkey', 'rkey', 'presorted', 'buffersize', 'tempdir', 'cache', 'lprefix', 'rprefix'),
    'leftjoin': _OUTER_SIG, 'rightjoin': _OUTER_SIG, 'outerjoin': _OUTER_SIG, 'lookupjoin': _OUTER_SIG,
    'antijoin': ('key', 'lkey', 'rkey', 'presorted', 'buffersize', 'tempdir', 'cache'),
    'hashjoin': ('key', 'lkey', 'rkey', 'cache', 'lprefix', 'rprefix', 'missing'),
    'hashleftjoin': ('key', 'lkey', 'rkey', 'missing', 'cache', 'lprefix', 'rprefix'),
    'hashrightjoin': ('key', 'lkey', 'rkey', 'missing', 'cache', 'lprefix', 'rprefix'),
    'hashantijoin': ('key', 'lkey', 'rkey'),
    'hashlookupjoin': ('key', 'lkey', 'rkey', 'missing', 'lprefix', 'rprefix'),
}
DEFAULTS = {'key': None, 'lkey': None, 'rkey': None, 'missing': None, 'presorted': False, 'buffersize': None,
            'tempdir': None, 'cache': True, 'lprefix': None, 'rprefix': None}
CALL_STYLES = ('positional', 'method', 'method-positional')


def positional(op, kw):
    """The documented arguments of `op` as a positional list: everything up to the last argument given in kw,
    arguments not given take their documented default."""
    sig = SIGNATURES[op]
    given = [i for i, a in enumerate(sig) if a in kw]
    unknown = [a for a in kw if a not in sig]
    if unknown:
        raise TypeError('%s has no argument %r' % (op, unknown))
    if not given:
        return []
    return [kw.get(a, DEFAULTS[a]) for a in sig[:max(given) + 1]]


def invoke(etl, op, left, right, kw):
    """Call the public operator `op` of module `etl` in the call style kw['_call'] (None: function syntax with
    keyword arguments; 'positional'; 'method' = wrapped-table method with keywords; 'method-positional')."""
    style = kw.get('_call')
    kw = dict((k, v) for k, v in kw.items() if k != '_call')
    if style is None:
        return getattr(etl, op)(left, right, **kw)
    pos = positional(op, kw) if 'positional' in style else []
    rest = {} if 'positional' in style else kw
    if style.startswith('method'):
        return getattr(etl.wrap(left), op)(right, *pos, **rest)
    return getattr(etl, op)(left, right, *pos, **rest)


# ---------------------------------------------------------------------------------------------
# canonical (type-faithful) form of cells / rows, so that 1, 1.0 and True are told apart
# ---------------------------------------------------------------------------------------------

def canon(v):
    if isinstance(v, (list, tuple)):
        return ('seq',) + tuple(canon(x) for x in v)
    if isinstance(v, dict):
        return ('dict',) + tuple(sorted(((repr(k), canon(x)) for k, x in v.items())))
    if isinstance(v, str):
        return v
    return (type(v).__name__, repr(v))


def canon_row(row):
    return tuple(canon(x) for x in row)


def multiset(rows):
    d = {}
    for r in rows:
        c = canon_row(r)
        d[c] = d.get(c, 0) + 1
    return d


def multiset_diff(expected, observed):
    """(rows missing from observed, rows in observed that are not expected) as sorted lists of reprs."""
    e, o = multiset(expected), multiset(observed)
    missing, extra = [], []
    for k in e:
        if e[k] > o.get(k, 0):
            missing.append((k, e[k] - o.get(k, 0)))
    for k in o:
        if o[k] > e.get(k, 0):
            extra.append((k, o[k] - e.get(k, 0)))
    return missing, extra


# ---------------------------------------------------------------------------------------------
# relational reference
# ---------------------------------------------------------------------------------------------

def square(row, width, missing=None):
    row = tuple(row)[:width]
    if len(row) < width:
        row = row + (missing,) * (width - len(row))
    return row


def natural_key(lhdr, rhdr):
    lf = [str(f) for f in lhdr]
    rf = [str(f) for f in rhdr]
    key = [f for f in lf if f in rf]
    if not key:
        raise LookupError('no fields in common')
    return key


def key_indices(lhdr, rhdr, key=None, lkey=None, rkey=None):
    if key is None and lkey is None and rkey is None:
        lkey = rkey = natural_key(lhdr, rhdr)
    elif key is not None:
        lkey = rkey = key
    return ref.resolve(lhdr, lkey), ref.resolve(rhdr, rkey)


def keq(a, b):
    """Key equality: None equals None, otherwise Python == (cell-wise for compound keys)."""
    if len(a) != len(b):
        return False
    for x, y in zip(a, b):
        if x is None or y is None:
            if not (x is None and y is None):
                return False
        elif not (x == y):
            return False
    return True


def header(op, lhdr, rhdr, lidx, ridx, lprefix=None, rprefix=None):
    if op in ('antijoin', 'hashantijoin'):
        return tuple(lhdr)
    rv = [i for i in range(len(rhdr)) if i not in ridx]
    out = [f if lprefix is None else str(lprefix) + str(f) for f in lhdr]
    out += [rhdr[i] if rprefix is None else str(rprefix) + str(rhdr[i]) for i in rv]
    return tuple(out)


def relational(op, left, right, key=None, lkey=None, rkey=None, missing=None, lprefix=None, rprefix=None,
               stream='left', **ignored):
    """(header, rows, left key indices).  `op` is a sort-merge operator name (hash names are mapped).
    Rows come in nested-loop order with the streamed side as the outer loop (only C07 looks at order)."""
    op = COUNTERPART.get(op, op)
    lhdr, rhdr = tuple(left[0]), tuple(right[0])
    lidx, ridx = key_indices(lhdr, rhdr, key, lkey, rkey)
    hdr = header(op, lhdr, rhdr, lidx, ridx, lprefix, rprefix)
    if op == 'antijoin':
        L = [tuple(r) for r in left[1:]]
        R = [tuple(r) for r in right[1:]]
    else:
        L = [square(r, len(lhdr), missing) for r in left[1:]]
        R = [square(r, len(rhdr), missing) for r in right[1:]]
    rv = [i for i in range(len(rhdr)) if i not in ridx]

    def lk(r):
        return tuple(r[i] for i in lidx)

    def rk(r):
        return tuple(r[i] for i in ridx)

    def rvals(r):
        return tuple(r[i] for i in rv)

    def rightonly(r):
        o = [missing] * len(lhdr)
        for li, ri in zip(lidx, ridx):
            o[li] = r[ri]
        return tuple(o) + rvals(r)

    leftouter = op in ('leftjoin', 'outerjoin', 'lookupjoin')
    rightouter = op in ('rightjoin', 'outerjoin')
    rows = []
    if op == 'antijoin':
        for l in L:
            if not any(keq(lk(l), rk(r)) for r in R):
                rows.append(l)
        return hdr, rows, lidx
    if stream == 'left':
        for l in L:
            partners = [r for r in R if keq(lk(l), rk(r))]
            if op == 'lookupjoin':
                partners = partners[:1]
            for r in partners:
                rows.append(l + rvals(r))
            if not partners and leftouter:
                rows.append(l + (missing,) * len(rv))
        if rightouter:
            for r in R:
                if not any(keq(lk(l), rk(r)) for l in L):
                    rows.append(rightonly(r))
    else:
        for r in R:
            partners = [l for l in L if keq(lk(l), rk(r))]
            for l in partners:
                rows.append(l + rvals(r))
            if not partners and rightouter:
                rows.append(rightonly(r))
        if leftouter:
            for l in L:
                if not any(keq(lk(l), rk(r)) for r in R):
                    rows.append(l + (missing,) * len(rv))
    return hdr, rows, lidx


def streamed_projection(op, rows, left, right, key=None, lkey=None, rkey=None, **ignored):
    """Project output rows onto the columns of the side the hash operator streams.  For the right side the
    columns are: key cells (found in the left key positions) + the right non-key cells, i.e. the right row
    with its fields reordered as (key fields in rkey order, non-key fields)."""
    lhdr, rhdr = tuple(left[0]), tuple(right[0])
    lidx, ridx = key_indices(lhdr, rhdr, key, lkey, rkey)
    if STREAMED[op] == 'left':
        return [tuple(r[:len(lhdr)]) for r in rows]
    return [tuple(r[i] for i in lidx) + tuple(r[len(lhdr):]) for r in rows]


def streamed_rows(op, left, right, key=None, lkey=None, rkey=None, missing=None, **ignored):
    """The streamed side's (squared-up) rows in input order, in the same column arrangement as
    streamed_projection."""
    lhdr, rhdr = tuple(left[0]), tuple(right[0])
    lidx, ridx = key_indices(lhdr, rhdr, key, lkey, rkey)
    if STREAMED[op] == 'left':
        if op == 'hashantijoin':
            return [tuple(r) for r in left[1:]]
        return [square(r, len(lhdr), missing) for r in left[1:]]
    rv = [i for i in range(len(rhdr)) if i not in ridx]
    out = []
    for r in right[1:]:
        r = square(r, len(rhdr), missing)
        out.append(tuple(r[i] for i in ridx) + tuple(r[i] for i in rv))
    return out


def keys_ascending(rows, lidx):
    ks = [ref.keyof(r, lidx) for r in rows]
    return ref.is_sorted(ks)


def crossjoin(tables, prefix=False, missing=None):
    hdr = []
    for i, t in enumerate(tables):
        for f in t[0]:
            hdr.append(('%d_%s' % (i + 1, f)) if prefix else f)
    sq = [[square(r, len(t[0]), missing) for r in t[1:]] for t in tables]
    rows = []
    for prod in itertools.product(*sq):
        o = ()
        for r in prod:
            o += r
        rows.append(o)
    return tuple(hdr), rows


# ---------------------------------------------------------------------------------------------
# lookups (dictionary reference); keys collide the way dict keys do (==, so 1 and 1.0 are one key)
# ---------------------------------------------------------------------------------------------

def lookup_groups(table, key):
    """[(key, [rows in table order])] with key a scalar for one key field, a tuple otherwise."""
    hdr = tuple(table[0])
    kidx = ref.resolve(hdr, key)
    groups = []
    for row in table[1:]:
        row = tuple(row)
        k = row[kidx[0]] if len(kidx) == 1 else tuple(row[i] for i in kidx)
        for g in groups:
            if g[0] == k:
                g[1].append(row)
                break
        else:
            groups.append((k, [row]))
    return hdr, groups


def lookup_ref(fn, table, key, value=None):
    """Reference for lookup/lookupone/dictlookup/dictlookupone/recordlookup/recordlookupone with strict=False.
    Returns (list of (key, value) pairs, has_duplicates).  Values: list of items for the plain variants, the
    first item for the *one variants.  Item: whole row (tuple) by default, one cell for a single value field,
    tuple of cells for several; dict field->cell for dict*; row tuple for record*."""
    hdr, groups = lookup_groups(table, key)
    flds = [str(f) for f in hdr]
    if fn.startswith('dict'):
        item = lambda row: dict(zip(flds, row))
    elif fn.startswith('record') or value is None:
        item = lambda row: tuple(row)
    else:
        vidx = ref.resolve(hdr, value)
        if len(vidx) == 1:
            item = lambda row: row[vidx[0]]
        else:
            item = lambda row: tuple(row[i] for i in vidx)
    dup = any(len(rows) > 1 for _, rows in groups)
    if fn.endswith('one'):
        return [(k, item(rows[0])) for k, rows in groups], dup
    return [(k, [item(r) for r in rows]) for k, rows in groups], dup


# ---------------------------------------------------------------------------------------------
# the shared table space
# ---------------------------------------------------------------------------------------------

def key_tuples(alphabet, maxrows):
    """All key vectors of length 0..maxrows over the alphabet, shortest first."""
    out = []
    for n in range(maxrows + 1):
        out.extend(itertools.product(alphabet, repeat=n))
    return out


def rect_table(hdr, keycols, keys, tag, extra=True):
    """Rectangular table: the key cells of each row at the positions `keycols`, remaining columns filled with
    a row id ('L0', 'L1' ...) so that every row is distinguishable.  `keys` is a vector of key values (tuples
    for compound keys)."""
    rows = []
    for i, k in enumerate(keys):
        k = k if isinstance(k, tuple) and len(keycols) > 1 else (k,)
        row = [None] * len(hdr)
        for c, v in zip(keycols, k):
            row[c] = v
        for c in range(len(hdr)):
            if c not in keycols:
                row[c] = '%s%d' % (tag, i)
        rows.append(tuple(row))
    return [tuple(hdr)] + rows


SHAPES = ('full', 'nokey', 'noval', 'long', 'empty')


def ragged_rows(alphabet, tag, i, shapes=SHAPES):
    """All variants of row i of a ragged table with header (id, k, v): full (id, key, v); nokey (id,) - short
    before the key; noval (id, key) - short after the key; long (id, key, v, extra); empty ()."""
    rid, val = '%s%d' % (tag, i), '%sv%d' % (tag, i)
    out = []
    if 'full' in shapes:
        for k in alphabet:
            out.append((rid, k, val))
    if 'nokey' in shapes:
        out.append((rid,))
    if 'noval' in shapes:
        for k in alphabet:
            out.append((rid, k))
    if 'long' in shapes:
        for k in alphabet:
            out.append((rid, k, val, '%sx%d' % (tag, i)))
    if 'empty' in shapes:
        out.append(())
    return out


def ragged_tables(hdr, alphabet, tag, maxrows, shapes=SHAPES, sorted_only=False):
    """All ragged tables with <= maxrows rows; sorted_only: keep those whose key cells (column 1, present in
    every row of the shapes used) are non-decreasing under the reference order."""
    out = []
    for n in range(maxrows + 1):
        for rows in itertools.product(*[ragged_rows(alphabet, tag, i, shapes) for i in range(n)]):
            if sorted_only and not ref.is_sorted([r[1] for r in rows]):
                continue
            out.append([tuple(hdr)] + list(rows))
    return out


MISS = '∅'


def _rect(hdr, keycols, keyvecs, tag):
    return [rect_table(hdr, keycols, kv, tag) for kv in keyvecs]


def key_vectors(tier, seed, which):
    """Key vectors of the single-key space, shortest first.  'full': every vector of length <=3 over K4;
    'mid': length <=2 over K4 plus length <=3 over {None,i1,s1} (quick) / = full (thorough); 'small': <=2 over K4."""
    from .. import spaces
    K4, K3 = spaces.K4(seed), spaces.K3(seed)
    if which == 'small':
        return key_tuples(K4, 2)
    if which == 'full' or tier == 'thorough':
        return key_tuples(K4, 3)
    vs = key_tuples(K4, 2) + key_tuples(K3, 3)
    seen, out = set(), []
    for v in sorted(vs, key=len):
        if repr(v) not in seen:
            seen.add(repr(v))
            out.append(v)
    return out


def pair_space(tier, seed):
    """The table-pair space shared by C06 and C07: variant name -> dict(L=[left tables], R=[right tables],
    kw=[keyword-argument forms]).  Every variant is the full cross product L x R x kw.  All key values are
    hashable."""
    import collections
    from .. import spaces
    r = spaces.reps(seed)
    full = key_vectors(tier, seed, 'full')
    small = key_vectors(tier, seed, 'small')
    other = key_vectors(tier, seed, 'mid')
    ck = list(itertools.product([None, r['i1']], repeat=2))          # compound key cells
    cvec = key_tuples(ck, 2 if tier == 'quick' else 3)
    V = collections.OrderedDict()
    V['key'] = dict(L=_rect(('k', 'lid'), [0], full, 'L'), R=_rect(('k', 'rid'), [0], full, 'R'),
                    kw=[{'key': 'k'}])
    V['lkey-rkey'] = dict(L=_rect(('k', 'lid'), [0], other, 'L'), R=_rect(('rid', 'j'), [1], other, 'R'),
                          kw=[{'lkey': 'k', 'rkey': 'j'}])
    V['natural'] = dict(L=_rect(('k', 'lid'), [0], other, 'L'), R=_rect(('rid', 'k'), [1], other, 'R'),
                        kw=[{}])
    V['keyonly-right'] = dict(L=_rect(('k', 'lid'), [0], other, 'L'), R=_rect(('k',), [0], other, 'R'),
                              kw=[{'key': 'k'}])
    V['missing'] = dict(L=_rect(('k', 'lid'), [0], other, 'L'), R=_rect(('k', 'rid'), [0], other, 'R'),
                        kw=[{'key': 'k', 'missing': MISS}])
    srt = [v for v in other if ref.is_sorted(list(v))]
    V['presorted'] = dict(L=_rect(('k', 'lid'), [0], srt, 'L'), R=_rect(('k', 'rid'), [0], srt, 'R'),
                          kw=[{'key': 'k', 'presorted': True}])
    V['prefix'] = dict(L=_rect(('k', 'lid'), [0], small, 'L'), R=_rect(('k', 'rid'), [0], small, 'R'),
                       kw=[{'key': 'k', 'lprefix': 'l_'}, {'key': 'k', 'rprefix': 'r_'},
                           {'key': 'k', 'lprefix': 'l_', 'rprefix': 'r_', 'missing': MISS}])
    V['compound'] = dict(L=_rect(('k', 'j', 'lid'), [0, 1], cvec, 'L'),
                         R=_rect(('k', 'j', 'rid'), [0, 1], cvec, 'R'),
                         kw=[{'key': ['k', 'j']}, {}])
    V['compound-swapped'] = dict(L=_rect(('k', 'j', 'lid'), [0, 1], cvec, 'L'),
                                 R=_rect(('rj', 'rid', 'rk'), [2, 0], cvec, 'R'),
                                 kw=[{'lkey': ('k', 'j'), 'rkey': ('rk', 'rj')}])
    ralpha = [None, r['i1']] if tier == 'quick' else [None, r['i1'], r['s1']]
    V['ragged'] = dict(L=ragged_tables(('lid', 'k', 'lv'), ralpha, 'L', 2),
                       R=ragged_tables(('rid', 'k', 'rv'), ralpha, 'R', 2),
                       kw=[{'key': 'k'}, {'key': 'k', 'missing': MISS}])
    # presorted=True x ragged rows x missing: inputs already in reference key order; only shapes in which the
    # key cell exists (full, short after the key, long), so that "sorted by the key" does not depend on padding
    palpha = [None, r['i1'], r['s1']]
    keyed = ('full', 'noval', 'long')
    V['ragged-presorted'] = dict(L=ragged_tables(('lid', 'k', 'lv'), palpha, 'L', 2, keyed, True),
                                 R=ragged_tables(('rid', 'k', 'rv'), palpha, 'R', 2, keyed, True),
                                 kw=[{'key': 'k', 'presorted': True},
                                     {'key': 'k', 'presorted': True, 'missing': MISS}])
    # execution strategy x order-sensitive clauses: buffersize <= number of rows makes the internal sorts spill to
    # chunk files; duplicate keys then lie in different chunks and differ in their id field, so lookupjoin's
    # "first partner in right-table order" (and every multiset / key-order clause) is checked under every
    # buffersize 1..n (None is the default of all other variants)
    # (chunked sorts cost ~5 ms per join: left <=2 rows, right <=3 rows over {None,i1,s1}; a buffersize larger
    # than both tables cannot spill and is skipped by the checks)
    K3 = spaces.K3(seed)
    V['buffersize'] = dict(L=_rect(('k', 'lid'), [0], key_tuples(K3, 2), 'L'),
                           R=_rect(('k', 'rid'), [0], key_tuples(K3, 3), 'R'),
                           kw=[{'key': 'k', 'buffersize': b} for b in (1, 2, 3)])
    # CALL STYLE: the documented arguments given POSITIONALLY in the documented order, and the method syntax of
    # wrapped tables, on unsorted inputs with unmatched rows and a non-None missing
    cs = key_tuples(spaces.K4(seed), 2)
    bases = [{'key': 'k', 'missing': MISS}, {'key': 'k', 'missing': MISS, 'lprefix': 'l_', 'rprefix': 'r_'},
             {'lkey': 'k', 'rkey': 'k', 'missing': MISS}]
    V['call-styles'] = dict(L=_rect(('k', 'lid'), [0], cs, 'L'), R=_rect(('k', 'rid'), [0], cs, 'R'),
                            kw=[dict(b, _call=st) for b in bases for st in CALL_STYLES])
    # tuple-VALUED cells in a SINGLE key field (hashable, legal: e.g. a (year, week) period): one-element,
    # two-element, None-containing and empty tuples next to None / numbers / text; ordered element-wise
    KT = spaces.K4(seed) + [(r['i1'],), (r['i1'], r['i2']), (None, r['s1']), ()]
    tv = key_tuples(KT, 2)
    if tier == 'thorough':
        seen = set(repr(v) for v in tv)
        for v in key_tuples([r['i1'], (r['i1'],), (r['i1'], r['i2']), ()], 3):
            if repr(v) not in seen:
                seen.add(repr(v))
                tv.append(v)
        tv.sort(key=len)
    V['key-tuples'] = dict(L=_rect(('k', 'lid'), [0], tv, 'L'), R=_rect(('k', 'rid'), [0], tv, 'R'),
                           kw=[{'key': 'k'}, {'key': 'k', 'missing': MISS}])
    tv2 = key_tuples(KT, 2)
    V['tuples-lkey-rkey'] = dict(L=_rect(('lid', 'k'), [1], tv2, 'L'), R=_rect(('j', 'rid'), [0], tv2, 'R'),
                                 kw=[{'lkey': 'k', 'rkey': 'j'}, {'lkey': 1, 'rkey': 0, 'missing': MISS}])
    if tier == 'thorough':
        k6 = key_tuples(spaces.K6(seed), 3)
        V['key-K6'] = dict(L=_rect(('k', 'lid'), [0], k6, 'L'), R=_rect(('k', 'rid'), [0], k6, 'R'),
                           kw=[{'key': 'k'}])
    return V


def nontrivial_pair(left, right, kw):
    """Both sides have rows, some (left, right) row pair has equal keys, and some row has no partner."""
    if len(left) < 2 or len(right) < 2:
        return False
    missing = kw.get('missing')
    lidx, ridx = key_indices(left[0], right[0], kw.get('key'), kw.get('lkey'), kw.get('rkey'))
    lk = [tuple(square(r, len(left[0]), missing)[i] for i in lidx) for r in left[1:]]
    rk = [tuple(square(r, len(right[0]), missing)[i] for i in ridx) for r in right[1:]]
    match = any(keq(a, b) for a in lk for b in rk)
    lonely = (any(not any(keq(a, b) for b in rk) for a in lk) or
              any(not any(keq(a, b) for a in lk) for b in rk))
    return match and lonely


# ---------------------------------------------------------------------------------------------
# field-NAMING axis: key / non-key field names that are substrings, prefixes, superstrings of one another or
# equal after str() (int-valued header fields), a right non-key field named like the left key, ...
# A scheme = (left header, left key columns, right header, right key columns, keyword-argument forms).
# ---------------------------------------------------------------------------------------------

def _place(keynames, others, positions):
    """Header with the key names at `positions` (in key order) and `others` filling the remaining columns."""
    width = len(keynames) + len(others)
    hdr = [None] * width
    for kn, p in zip(keynames, positions):
        hdr[p] = kn
    rest = iter(others)
    for i in range(width):
        if i not in positions:
            hdr[i] = next(rest)
    return tuple(hdr)


def name_schemes(tier, seed):
    thorough = tier == 'thorough'
    pool = ['k', 'id', 'i', 'ki', 'kidx', 7] + (['d', '7', 'KID'] if thorough else [])
    S = []

    def add(form, lhdr, lk, rhdr, rk, kws):
        if thorough:
            kws = list(kws) + [dict(kws[0], lprefix='l_', rprefix=7)]
        S.append(dict(form=form, lhdr=lhdr, lk=list(lk), rhdr=rhdr, rk=list(rk), kw=kws))

    pairs = [(y, z) for y in pool for z in pool if str(y) != str(z)]
    # A: common key name 'kid' given as key=; C: the same headers joined naturally (no other common field)
    for x in ['k', 'kidx', 7]:
        for lpos in (0, 1):
            lhdr = _place(['kid'], [x], [lpos])
            for rpos in (0, 1, 2):
                for y, z in pairs:
                    rhdr = _place(['kid'], [y, z], [rpos])
                    add('key', lhdr, [lpos], rhdr, [rpos], [{'key': 'kid'}])
                    if lpos == 0 and str(x) not in (str(y), str(z)):
                        add('natural', lhdr, [lpos], rhdr, [rpos], [{}])
    # B: different key names; the right table has non-key fields named like the LEFT key / like parts of its key
    for rkey in ['owner_kid', 'ki']:
        bpool = [n for n in pool + ['kid'] if str(n) != rkey]
        for x in ['k', 7]:
            lhdr = ('kid', x)
            for rpos in (0, 2):
                for y in bpool:
                    for z in bpool:
                        if str(y) == str(z):
                            continue
                        rhdr = _place([rkey], [y, z], [rpos])
                        add('lkey-rkey', lhdr, [0], rhdr, [rpos], [{'lkey': 'kid', 'rkey': rkey}])
    # D: int-valued header fields selected by their str() name
    for lf in (7, '7'):
        for rf in (7, '7'):
            for rpos in (0, 1, 2):
                for y, z in [(a, b) for a in ['k', 77, '77', 'x7'] for b in ['k', 77, '77', 'x7'] if a != b]:
                    add('int-field', _place([lf], ['x'], [0]), [0], _place([rf], [y, z], [rpos]), [rpos],
                        [{'key': '7'}])
    # E: compound key whose components are substrings of one another
    import itertools as _it
    for y in ['id', 'i', 'ki', 'kidk', 7]:
        for pos in _it.permutations(range(3), 2):
            rhdr = _place(['kid', 'k'], [y], list(pos))
            add('compound', ('kid', 'k', 'x'), [0, 1], rhdr, list(pos), [{'key': ['kid', 'k']}])
    return S


def tagged_table(hdr, keycols, keyvec, tag):
    """Rectangular table; key cells from keyvec (a scalar is repeated in every key column, a tuple is spread over
    the key columns in key order); every
    other cell is tagged with row AND column so that a dropped or misplaced column is visible."""
    rows = []
    for i, k in enumerate(keyvec):
        row = ['%s%d.%d' % (tag, i, c) for c in range(len(hdr))]
        if isinstance(k, tuple) and len(k) == len(keycols) > 1:
            for c, kc in zip(keycols, k):       # compound key given component-wise (in key order)
                row[c] = kc
        else:
            for c in keycols:
                row[c] = k
        rows.append(tuple(row))
    return [tuple(hdr)] + rows


def name_data(tier, seed):
    """(left key vectors, right key vectors) used under every naming scheme."""
    from .. import spaces
    r = spaces.reps(seed)
    a, b = r['i1'], r['s1']
    if tier == 'quick':
        return [(), (a, b)], [(), (a,), (b, a)]
    return [(), (a,), (a, b), (None, a)], [(), (a,), (b, a), (a, a), (None,)]


# ---------------------------------------------------------------------------------------------
# key-argument FORM axis: wherever a key may be a field name OR an index, enumerate the alternative accepted
# forms: index instead of name (in particular index 0, with further fields shared by both tables so that a
# silently performed natural join is visible), one-element tuple / list, the empty-string field name '',
# compound keys mixing indices and names, int-named header fields next to indices.
# Same scheme format as name_schemes, plus an optional 'data' = (left key vectors, right key vectors).
# ---------------------------------------------------------------------------------------------

def keyform_schemes(tier, seed):
    from .. import spaces
    r = spaces.reps(seed)
    a, b = r['i1'], r['s1']
    S = []

    def add(form, lhdr, lk, rhdr, rk, kws, data=None):
        d = dict(form='keyform:' + form, lhdr=tuple(lhdr), lk=list(lk), rhdr=tuple(rhdr), rk=list(rk), kw=kws)
        if data is not None:
            d['data'] = data
        S.append(d)

    def single(kn, li, ri):
        """all forms selecting the single key named kn that sits at column li (left) / ri (right)"""
        kws = [{'key': kn}, {'key': (kn,)}, {'key': [kn]}, {'lkey': kn, 'rkey': kn}, {'lkey': [kn], 'rkey': (kn,)},
               {'lkey': li, 'rkey': ri}, {'lkey': kn, 'rkey': ri}, {'lkey': li, 'rkey': kn},
               {'lkey': (li,), 'rkey': [ri]}]
        if li == ri:
            kws += [{'key': li}, {'key': (li,)}, {'key': [li]}]
        return kws

    for kn in ('k', ''):
        # key first on both sides; with and without a further shared (non-key) field name, incl. a shared ''
        for shared in [[], ['s'], ['s', 't']] + ([['']] if kn != '' else []):
            lhdr = [kn] + shared + ['lv']
            rhdr = [kn] + shared + ['rv']
            kws = single(kn, 0, 0)
            if not shared:
                kws = kws + [{}]
            add('first', lhdr, [0], rhdr, [0], kws)
        # key in another column / in different columns on the two sides
        add('last', ['lv', 's', kn], [2], ['rv', 's', kn], [2], single(kn, 2, 2))
        add('left0-right1', [kn, 'lv'], [0], ['rv', kn], [1], single(kn, 0, 1) + [{}])
        add('left1-right0', ['lv', kn], [1], [kn, 'rv', 's'], [0], single(kn, 1, 0) + [{}])
        add('left1-right2', ['lv', kn, 's'], [1], ['rv', 's', kn], [2], single(kn, 1, 2))
    # int-named header fields next to indices (an index takes priority over a field of that name)
    add('int-named', [1, 0, 'lv'], [0], [1, 0, 'rv'], [0], [{'key': 0}, {'key': '1'}, {'lkey': 0, 'rkey': '1'},
                                                           {'key': [0]}])
    add('int-named', [1, 0, 'lv'], [1], [1, 0, 'rv'], [1], [{'key': 1}, {'key': '0'}, {'lkey': '0', 'rkey': 1}])
    # compound keys: names, indices and mixtures; component order differing from column order
    cdata = ([(), ((a, b),), ((a, b), (b, a))], [(), ((a, b),), ((b, a), (a, b)), ((a, a),), ((None, a),)])
    for kj in (('k', 'j'), ('', 'j'), ('k', '')):
        k, j = kj
        add('compound', [k, j, 'lv'], [0, 1], [k, j, 'rv'], [0, 1],
            [{'key': [k, j]}, {'key': (k, j)}, {'key': [0, 1]}, {'key': (0, j)}, {'key': [k, 1]},
             {'lkey': [0, 1], 'rkey': (k, j)}, {'lkey': (k, 1), 'rkey': [0, j]}, {}], cdata)
        add('compound', [k, j, 'lv'], [1, 0], [k, j, 'rv'], [1, 0],
            [{'key': [j, k]}, {'key': (1, 0)}, {'key': [j, 0]}, {'key': (1, k)}], cdata)
        add('compound-swapped', [k, 's', j], [0, 2], [j, 'rv', k], [2, 0],
            [{'lkey': [k, j], 'rkey': (k, j)}, {'lkey': [0, 2], 'rkey': [2, 0]}, {'lkey': (0, j), 'rkey': [k, 0]},
             {'lkey': [k, 2], 'rkey': (2, j)}], cdata)
        add('compound-swapped', [k, 's', j], [2, 0], [j, 'rv', k], [0, 2],
            [{'lkey': [j, k], 'rkey': (j, k)}, {'lkey': [2, 0], 'rkey': [0, 2]}, {'lkey': (j, 0), 'rkey': [0, k]}],
            cdata)
    return S
