"""C14 reference semantics of the reshape / expand operators, written from petl's documentation.

Imports nothing from petl.  Tables are lists of rows, row 0 the header.  All functions return a complete
expected table (list of tuples, header first) unless stated otherwise.
"""
import re

from ..refmodel import stable_sort


def T(rows):
    return [tuple(r) for r in rows]


# ---------------------------------------------------------------------------------------------
# melt / recast
# ---------------------------------------------------------------------------------------------

def melt(table, key_idx, var_idx, variablefield='variable', valuefield='value'):
    """One output row per (data row, variable field) cell, rows in input order, variables in the order
    given: key cells + (variable field name, cell value)."""
    hdr = table[0]
    out = [tuple(hdr[i] for i in key_idx) + (variablefield, valuefield)]
    for row in table[1:]:
        for j in var_idx:
            out.append(tuple(row[i] for i in key_idx) + (hdr[j], row[j]))
    return out


def recast(molten, key_idx, var_i, val_i, missing=None, reducers=None):
    """Key fields, then one field per distinct variable in sorted order; one row per distinct key, rows
    sorted by key (C04 order); cell = the value of the (key, variable) pair: `missing` when there is none,
    the value when there is one, list of values in input order (or reducer(list)) when there are several."""
    hdr = molten[0]
    reducers = reducers or {}
    variables = sorted(set(r[var_i] for r in molten[1:]))
    out = [tuple(hdr[i] for i in key_idx) + tuple(variables)]
    rows = stable_sort([tuple(r) for r in molten[1:]], list(key_idx))
    groups = []
    for r in rows:
        k = tuple(r[i] for i in key_idx)
        if groups and _keq(groups[-1][0], k):
            groups[-1][1].append(r)
        else:
            groups.append((k, [r]))
    for k, grp in groups:
        o = list(k)
        for v in variables:
            vals = [r[val_i] for r in grp if r[var_i] == v]
            if not vals:
                o.append(missing)
            elif len(vals) == 1:
                o.append(vals[0])
            elif v in reducers:
                o.append(reducers[v](vals))
            else:
                o.append(list(vals))
        out.append(tuple(o))
    return out


def _keq(a, b):
    from ..refmodel import cmp
    return cmp(a, b) == 0


def melt_recast_roundtrip(table, key_idx):
    """What recast(melt(t, key), key) must give for unique keys: key fields (in key order), the other
    fields in sorted name order, rows sorted by key."""
    hdr = table[0]
    var_idx = [i for i in range(len(hdr)) if i not in key_idx]
    var_idx.sort(key=lambda i: hdr[i])
    cols = list(key_idx) + var_idx
    out = [tuple(hdr[i] for i in cols)]
    rows = [tuple(r[i] for i in cols) for r in table[1:]]
    out.extend(stable_sort(rows, list(range(len(key_idx)))))
    return out


# ---------------------------------------------------------------------------------------------
# transpose, flatten / unflatten
# ---------------------------------------------------------------------------------------------

def transpose(table):
    """Row i of the result is column i of the input (header row included)."""
    w = len(table[0])
    return [tuple(r[i] for r in table) for i in range(w)]


def flatten(table):
    out = []
    for r in table[1:]:
        out.extend(r)
    return out


def unflatten(values, period, missing=None):
    out = [tuple('f%d' % i for i in range(period))]
    values = list(values)
    for s in range(0, len(values), period):
        chunk = values[s:s + period]
        chunk = chunk + [missing] * (period - len(chunk))
        out.append(tuple(chunk))
    return out


# ---------------------------------------------------------------------------------------------
# pivot
# ---------------------------------------------------------------------------------------------

def pivot(table, i1, i2, i3, missing=None):
    """Returns (header, rows) where every cell is the LIST of f3 values (input order) of exactly the rows
    carrying that (f1, f2) pair, or the `missing` marker object where there is no such row.  Header:
    f1's name then the distinct f2 values in sorted order; rows sorted by f1 value (C04 order)."""
    hdr = table[0]
    f2vals = []
    for r in table[1:]:
        if not any(r[i2] == v for v in f2vals):
            f2vals.append(r[i2])
    f2vals.sort()
    rows = stable_sort([tuple(r) for r in table[1:]], [i1])
    groups = []
    for r in rows:
        if groups and groups[-1][0] == r[i1]:
            groups[-1][1].append(r)
        else:
            groups.append((r[i1], [r]))
    out = []
    for k, grp in groups:
        o = [k]
        for v in f2vals:
            vals = [r[i3] for r in grp if r[i2] == v]
            o.append(vals if vals else missing)
        out.append(o)
    return (hdr[i1],) + tuple(f2vals), out


# ---------------------------------------------------------------------------------------------
# expanders: unpack, unpackdict, capture, split, splitdown
# ---------------------------------------------------------------------------------------------

def _others(row, fi, include_original):
    return list(row) if include_original else [v for i, v in enumerate(row) if i != fi]


def unpack(table, fi, newfields=None, include_original=False, missing=None):
    """newfields: None, an int n (names <field>1..<field>n) or a list of names.  Exactly len(newfields)
    values are unpacked: surplus values dropped, `missing` appended when there are fewer."""
    hdr = table[0]
    if newfields is None:
        names = []
    elif isinstance(newfields, int):
        names = ['%s%d' % (hdr[fi], i + 1) for i in range(newfields)]
    else:
        names = list(newfields)
    n = len(names)
    out = [tuple(_others(hdr, fi, include_original) + names)]
    for row in table[1:]:
        vals = list(row[fi])[:n]
        vals = vals + [missing] * (n - len(vals))
        out.append(tuple(_others(row, fi, include_original) + vals))
    return out


def unpackdict(table, fi, keys=None, includeoriginal=False, missing=None, samplesize=None):
    """keys None: all keys occurring in the dictionaries of the first `samplesize` data rows (None: all
    rows), in sorted order; keys that only occur in later rows do not become fields."""
    if not keys:
        ks = set()
        sampled = table[1:] if samplesize is None else table[1:1 + samplesize]
        for row in sampled:
            ks |= set(row[fi].keys())
        keys = sorted(ks)
    out = [tuple(_others(table[0], fi, includeoriginal) + list(keys))]
    for row in table[1:]:
        d = row[fi]
        out.append(tuple(_others(row, fi, includeoriginal) + [d[k] if k in d else missing for k in keys]))
    return out


def capture(table, fi, pattern, newfields=None, include_original=False, fill=None, flags=0):
    """Returns (rows, raises): the expected output rows up to (excluding) the first row whose value does
    not match when fill is None (the documentation promises an error there), else all rows."""
    prog = re.compile(pattern, flags)
    out = [tuple(_others(table[0], fi, include_original) + list(newfields or []))]
    for row in table[1:]:
        m = prog.search(row[fi])
        if m is None:
            if fill is None:
                return out, True
            extra = list(fill)
        else:
            extra = list(m.groups())
        out.append(tuple(_others(row, fi, include_original) + extra))
    return out, False


def split(table, fi, pattern, newfields=None, include_original=False, maxsplit=0, flags=0):
    prog = re.compile(pattern, flags)
    out = [tuple(_others(table[0], fi, include_original) + list(newfields or []))]
    for row in table[1:]:
        out.append(tuple(_others(row, fi, include_original) + prog.split(row[fi], maxsplit)))
    return out


def splitdown(table, fi, pattern, maxsplit=0, flags=0):
    """One output row per piece of the split value, all other cells repeated unchanged."""
    prog = re.compile(pattern, flags)
    out = [tuple(table[0])]
    for row in table[1:]:
        for piece in prog.split(row[fi], maxsplit):
            out.append(tuple(piece if i == fi else v for i, v in enumerate(row)))
    return out
