"""C13 reference semantics of the selection operators, written from petl's documentation.

Imports nothing from petl.  A table is a list of rows, row 0 the header.  Every function returns the
expected list of DATA rows (tuples, in input order); the header is always expected unchanged.
Ordering comparisons use the independent C04 reference order (`refmodel.cmp`).
"""
import itertools
import re

from ..refmodel import cmp as rcmp


def cell(row, i, missing=None):
    """Value of field i of a row; a cell beyond the end of a short row reads as `missing`."""
    return row[i] if i < len(row) else missing


def rows_of(table):
    return [tuple(r) for r in table[1:]]


def filt(table, pred, complement=False):
    """Rows satisfying pred (complement: the others), in input order."""
    return [tuple(r) for r in table[1:] if bool(pred(r)) != bool(complement)]


# ---------------------------------------------------------------------------------------------
# documented predicates of the comparison selectors, as functions of the (missing-filled) cell
# ---------------------------------------------------------------------------------------------

def p_eq(v, x):
    return v == x


def p_ne(v, x):
    return v != x


def p_lt(v, x):
    return rcmp(v, x) < 0


def p_le(v, x):
    return rcmp(v, x) <= 0


def p_gt(v, x):
    return rcmp(v, x) > 0


def p_ge(v, x):
    return rcmp(v, x) >= 0


def p_in(v, x):
    return v in x


def p_notin(v, x):
    return v not in x


def p_contains(v, x):
    return x in v


def p_is(v, x):
    return v is x


def p_isnot(v, x):
    return v is not x


def p_isinstance(v, x):
    return isinstance(v, x)


# "greater than or equal to minv and less than maxv" etc. (docstrings of the four range selectors)
def p_rangeopenleft(v, lo, hi):
    return rcmp(lo, v) <= 0 and rcmp(v, hi) < 0


def p_rangeopenright(v, lo, hi):
    return rcmp(lo, v) < 0 and rcmp(v, hi) <= 0


def p_rangeopen(v, lo, hi):
    return rcmp(lo, v) <= 0 and rcmp(v, hi) <= 0


def p_rangeclosed(v, lo, hi):
    return rcmp(lo, v) < 0 and rcmp(v, hi) < 0


def p_true(v):
    return bool(v)


def p_false(v):
    return not bool(v)


def p_none(v):
    return v is None


def p_notnone(v):
    return v is not None


PRED = {
    'selecteq': p_eq, 'selectne': p_ne, 'selectlt': p_lt, 'selectle': p_le, 'selectgt': p_gt,
    'selectge': p_ge, 'selectin': p_in, 'selectnotin': p_notin, 'selectcontains': p_contains,
    'selectis': p_is, 'selectisnot': p_isnot, 'selectisinstance': p_isinstance,
    'selectrangeopenleft': p_rangeopenleft, 'selectrangeopenright': p_rangeopenright,
    'selectrangeopen': p_rangeopen, 'selectrangeclosed': p_rangeclosed,
    'selecttrue': p_true, 'selectfalse': p_false, 'selectnone': p_none, 'selectnotnone': p_notnone,
}

# pairs documented (or stated in the property) to be exact complements of each other
COMPLEMENT_PAIRS = [('selectlt', 'selectge'), ('selectgt', 'selectle'), ('selecteq', 'selectne'),
                    ('selectin', 'selectnotin'), ('selectnone', 'selectnotnone'),
                    ('selecttrue', 'selectfalse'), ('selectis', 'selectisnot')]


def fieldselect(table, fi, opname, args, complement=False, missing=None):
    """Expected data rows of <opname>(table, field, *args, complement=...) for field index fi."""
    p = PRED[opname]
    return filt(table, lambda r: p(cell(r, fi, missing), *args), complement)


def rowlenselect(table, n, complement=False):
    return filt(table, lambda r: len(r) == n, complement)


# ---------------------------------------------------------------------------------------------
# regular-expression search: a row matches when the pattern is found in the text of any searched cell
# ---------------------------------------------------------------------------------------------

def search(table, pattern, fis=None, complement=False, flags=0):
    prog = re.compile(pattern, flags)

    def pred(r):
        cells = r if fis is None else [r[i] for i in fis]
        for v in cells:
            if prog.search(str(v)) is not None:
                return True
        return False
    return filt(table, pred, complement)


# ---------------------------------------------------------------------------------------------
# facet: one table per distinct value of the key, holding exactly the rows with that value
# ---------------------------------------------------------------------------------------------

def facet(table, fis):
    """List of (key, rows) in first-occurrence order; keys compared with ==."""
    out = []
    for r in table[1:]:
        k = cell(r, fis[0]) if len(fis) == 1 else tuple(cell(r, i) for i in fis)
        for entry in out:
            if entry[0] == k:
                entry[1].append(tuple(r))
                break
        else:
            out.append((k, [tuple(r)]))
    return out


# ---------------------------------------------------------------------------------------------
# context selection: query(prv, cur, nxt) with None for the missing neighbour
# ---------------------------------------------------------------------------------------------

def usingcontext(table, query):
    rows = rows_of(table)
    out = []
    for i, cur in enumerate(rows):
        prv = rows[i - 1] if i > 0 else None
        nxt = rows[i + 1] if i + 1 < len(rows) else None
        if query(prv, cur, nxt):
            out.append(cur)
    return out


# ---------------------------------------------------------------------------------------------
# positional selection
# ---------------------------------------------------------------------------------------------

def rowslice(table, sliceargs):
    """Header, then the data rows itertools.islice(data, *sliceargs) would pick."""
    return list(itertools.islice(rows_of(table), *sliceargs))


def tail(table, n):
    rows = rows_of(table)
    if n <= 0:
        return []
    return rows[-n:]


def skip(table, n):
    """skip() drops the first n rows INCLUDING the header: returns all remaining items."""
    return [tuple(r) for r in itertools.islice(table, n, None)]
