"""Reference semantics used by C20 (header-only inputs) for operators outside the shared catalogue or
whose catalogue `zero` entry needs a local override.  Written from petl's documentation; imports nothing
from petl.  Every function takes plain tables (sequences of rows, header first) and returns the expected
DATA rows as a list of tuples (compared as a multiset by the check) or an expected header.

They are ordinary (not zero-specialised) nested-loop / Counter definitions, so "what the definition gives
for zero rows" is obtained by evaluating the general definition on tables without data rows.
"""
import collections

from .. import refmodel as ref


def header(t):
    for r in t:
        return tuple(r)
    return None


def datarows(t):
    it = iter(t)
    for _ in it:
        break
    return [tuple(r) for r in it]


def pad(r, n, missing=None):
    r = tuple(r)[:n]
    return r + (missing,) * (n - len(r))


def _idx(hdr, key):
    return ref.resolve(hdr, key)


def _keq(l, lk, r, rk):
    return all(ref.eq(ref.cell(l, i), ref.cell(r, j)) for i, j in zip(lk, rk))


def join_header(lt, rt, lkey, rkey, lprefix=None, rprefix=None):
    lh, rh = header(lt), header(rt)
    rk = _idx(rh, rkey)
    out = [h if lprefix is None else str(lprefix) + str(h) for h in lh]
    out += [h if rprefix is None else str(rprefix) + str(h) for i, h in enumerate(rh) if i not in rk]
    return tuple(out)


def join(lt, rt, lkey, rkey, leftouter=False, rightouter=False, missing=None, first_only=False):
    """Relational (inner/left/right/outer) join by nested loops; output rows = left row + non-key right
    cells; unmatched rows padded with `missing`; first_only: lookupjoin (first matching right row)."""
    lh, rh = header(lt), header(rt)
    lk, rk = _idx(lh, lkey), _idx(rh, rkey)
    rv = [i for i in range(len(rh)) if i not in rk]
    lrows, rrows = datarows(lt), datarows(rt)
    out, matched = [], set()
    for l in lrows:
        hit = False
        for j, r in enumerate(rrows):
            if _keq(l, lk, r, rk):
                matched.add(j)
                if first_only and hit:
                    continue
                hit = True
                out.append(tuple(l) + tuple(ref.cell(r, i, missing) for i in rv))
        if not hit and leftouter:
            out.append(tuple(l) + (missing,) * len(rv))
    if rightouter:
        for j, r in enumerate(rrows):
            if j in matched:
                continue
            row = [missing] * len(lh)
            for i, k in zip(lk, rk):
                row[i] = ref.cell(r, k, missing)
            out.append(tuple(row) + tuple(ref.cell(r, i, missing) for i in rv))
    return out


def antijoin(lt, rt, lkey, rkey):
    lh, rh = header(lt), header(rt)
    lk, rk = _idx(lh, lkey), _idx(rh, rkey)
    rrows = datarows(rt)
    return [l for l in datarows(lt) if not any(_keq(l, lk, r, rk) for r in rrows)]


def _counter(rows):
    c = collections.Counter()
    for r in rows:
        c[tuple(r)] += 1
    return c


def complement(at, bt, strict=False):
    """Rows of a that are not in b.  strict: multiset difference; otherwise every row of a whose value
    does not occur in b at all."""
    a, b = datarows(at), datarows(bt)
    if strict:
        cb = _counter(b)
        out = []
        for r in a:
            if cb[r] > 0:
                cb[r] -= 1
            else:
                out.append(r)
        return out
    sb = set(b)
    return [r for r in a if r not in sb]


def intersection(at, bt):
    ca, cb = _counter(datarows(at)), _counter(datarows(bt))
    out = []
    for r, n in ca.items():
        out += [r] * min(n, cb[r])
    return out


def union_all(*ts):
    out = []
    for t in ts:
        out += datarows(t)
    return out


def cat(*ts):
    """cat: header = fields of all tables in order of first appearance; cells matched by field name."""
    hdr = []
    for t in ts:
        for h in header(t):
            if h not in hdr:
                hdr.append(h)
    out = []
    for t in ts:
        h = header(t)
        for r in datarows(t):
            out.append(tuple(ref.cell(r, h.index(f)) if f in h else None for f in hdr))
    return out


def crossjoin(*ts):
    out = [()]
    for t in ts:
        w = len(header(t))
        out = [o + pad(r, w) for o in out for r in datarows(t)]
    return out


def distinct_keys(t, key):
    k = _idx(header(t), key)
    seen = []
    for r in datarows(t):
        kv = ref.keyof(r, k)
        if not any(ref.eq(kv, s) for s in seen):
            seen.append(kv)
    return seen
